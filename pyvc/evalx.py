"""Statement / expression evaluation over the value domain."""
import ast
from fractions import Fraction
import z3
from .vals import (SV, Opt, Inf, Vec, Mat, Obj, SList, Forall, Func, Builtin, ClassRef, ExcClass, ModuleRef,
                   Unsupported, StrS, fresh, fresh_fun, to_frac, is_num, EnumVal, EnumSym, EnumValueSym)
from .ops import term, boolterm, mk, is_scalar, is_real
from .interp import PyExc, ReturnSig, BreakSig, ContinueSig, Infeasible, Path

MAX_DEPTH = 40
MAX_UNROLL = 64


class Env:
    def __init__(self, mod, parent=None, vars=None):
        self.mod = mod
        self.parent = parent
        self.vars = vars if vars is not None else {}

    def lookup(self, name):
        e = self
        while e is not None:
            if name in e.vars:
                return True, e.vars[name]
            e = e.parent
        return False, None


class Interp:
    def __init__(self, engine, path):
        self.engine = engine
        self.repo = engine.repo
        self.p = path
        self.ops = path.ops
        self.depth = 0
        self.callstack = []
        from . import models
        self.models = models
        self.old_env = None
        self.old_map = None
        path.interp = self

    # ------------------------------------------------------------------ names
    def resolve_global(self, name, mod):
        """module-level name: function, class, constant, import"""
        if mod is not None:
            if (mod.name, name) in self.engine.overrides and name not in mod.consts:
                # a module-level name (function, class, import) bound by the contract to an opaque stand-in; listed in
                # the evidence as an assumption of that contract
                return self.engine.overrides[(mod.name, name)](self)
            if name in mod.funcs:
                return Func(mod.funcs[name], Env(mod), mod, name=f'{mod.name}.{name}')
            if name in mod.classes:
                return self.class_value(mod.classes[name])
            if name in mod.imports:
                src, attr = mod.imports[name]
                c = self.engine.registry.get(f'{mod.name}.{name}')
                if c is not None and not (src or '').startswith('gnpy'):
                    # a third-party function imported into this module, bound to an assumed contract by the sidecar
                    eng = self.engine
                    pnames = list(c.params.keys())

                    def ext(it, a, k, c=c, pnames=pnames):
                        vals = dict(zip(pnames, a))
                        vals.update(k)
                        return eng.apply_contract(it, c, vals)
                    return Builtin(f'{mod.name}.{name}', ext)
                return self.resolve_import(src, attr, name)
            if name in mod.consts:
                key = (mod.name, name)
                if key in self.engine.overrides:
                    return self.engine.overrides[key](self)
                return self.eval(mod.consts[name], Env(mod))
        if name == '__name__' and mod is not None:
            return mod.name
        b = self.models.builtin(name)
        if b is not None:
            return b
        if name in self.p.exc_bases:
            return ExcClass(name, self.p.exc_bases[name])
        raise Unsupported(f'unresolved name {name} in {mod.name if mod else None}')

    def resolve_import(self, src, attr, local):
        if attr is None:
            return ModuleRef(src)
        if src and src.startswith('gnpy'):
            m = self.repo.module(src)
            if m is not None:
                sub = self.repo.module(src + '.' + attr)
                if attr in m.funcs or attr in m.classes or attr in m.consts or attr in m.imports:
                    return self.resolve_global(attr, m)
                if sub is not None:
                    return ModuleRef(src + '.' + attr)
            raise Unsupported(f'import {src}.{attr}')
        b = self.models.external(src, attr)
        if b is not None:
            return b
        raise Unsupported(f'external {src}.{attr} not modelled')

    def class_value(self, ci):
        mro = self.repo.mro(ci)
        names = [c.name for c in mro]
        if any(b in ('Exception', 'ValueError', 'KeyError') or b in self.p.exc_bases for c in mro for b in c.bases) \
                or ci.name.endswith('Error'):
            bases = tuple(n for n in names[1:]) + tuple(b for c in mro for b in c.bases if b in self.p.exc_bases) \
                + ('Exception',)
            self.p.exc_bases[ci.name] = bases
            return ExcClass(ci.name, bases)
        return ClassRef(ci)

    # ------------------------------------------------------------------ statements
    def exec_block(self, stmts, env):
        for st in stmts:
            self.exec(st, env)

    def exec(self, st, env):
        m = getattr(self, 'x_' + type(st).__name__, None)
        if m is None:
            raise Unsupported(f'statement {type(st).__name__} at line {st.lineno}')
        self.last_line = (self.callstack[-1] if self.callstack else None, getattr(st, 'lineno', None))
        if self.engine.drop_rules and self.callstack:
            src = ast.unparse(st)
            for fn_qual, prefix, why in self.engine.drop_rules:
                if self.callstack[-1] == fn_qual and src.startswith(prefix):
                    self.p.dropped.append((fn_qual, prefix, why))
                    return
        return m(st, env)

    def x_Expr(self, st, env):
        if isinstance(st.value, ast.Constant):
            return
        self.eval(st.value, env)

    def x_Pass(self, st, env):
        return

    def x_Import(self, st, env):
        for a in st.names:
            env.vars[a.asname or a.name.split('.')[0]] = ModuleRef(a.name)

    def x_ImportFrom(self, st, env):
        for a in st.names:
            env.vars[a.asname or a.name] = self.resolve_import(st.module, a.name, a.asname or a.name)

    def x_Assign(self, st, env):
        v = self.eval(st.value, env)
        for t in st.targets:
            self.assign(t, v, env)

    def x_AnnAssign(self, st, env):
        if st.value is not None:
            self.assign(st.target, self.eval(st.value, env), env)

    def x_AugAssign(self, st, env):
        cur = self.eval(ast_load(st.target), env)
        rhs = self.eval(st.value, env)
        op = type(st.op).__name__
        if isinstance(cur, list) and op == 'Add':
            rhs_l = self.to_list(rhs)
            cur.extend(rhs_l)      # list += mutates in place
            return
        v = self.ops.binop(op, cur, rhs)
        self.assign(st.target, v, env)

    def x_Return(self, st, env):
        raise ReturnSig(self.eval(st.value, env) if st.value is not None else None)

    def x_Raise(self, st, env):
        if st.exc is None:
            raise Unsupported('bare raise outside handler')
        e = self.eval(st.exc, env)
        if isinstance(e, ExcClass):
            raise PyExc(e, ())
        if isinstance(e, Obj) and e.cls == '<exc>':
            raise PyExc(e.fields['cls'], e.fields['args'], e)
        raise Unsupported('raise of non-exception')

    def x_If(self, st, env):
        c = self.eval(st.test, env)
        if getattr(self, 'merge_mode', 0) and isinstance(c, SV):
            return self.merged_if(st, env, c)
        if self.p.truth(c):
            self.exec_block(st.body, env)
        else:
            self.exec_block(st.orelse, env)

    def x_With(self, st, env):
        for it in st.items:
            src = ast.unparse(it.context_expr)
            if src.startswith(('errstate', 'warnings.catch_warnings', 'catch_warnings', 'np.errstate')):
                if it.optional_vars is not None:
                    self.assign(it.optional_vars, [], env)
                continue
            raise Unsupported(f'with {src}')
        self.exec_block(st.body, env)

    def x_Assert(self, st, env):
        c = self.eval(st.test, env)
        if not self.p.truth(c):
            raise self.p.pyexc('AssertionError')

    def x_Delete(self, st, env):
        for t in st.targets:
            if isinstance(t, ast.Subscript):
                base = self.eval(t.value, env)
                if isinstance(base, dict):
                    k = self.key_of(self.eval(t.slice, env))
                    if k not in base:
                        raise self.p.pyexc('KeyError')
                    del base[k]
                    continue
                if isinstance(base, list):
                    k = self.eval(t.slice, env)
                    if isinstance(k, int):
                        del base[k]
                        continue
                    if isinstance(k, slice):
                        del base[k]
                        continue
            elif isinstance(t, ast.Name):
                env.vars.pop(t.id, None)
                continue
            raise Unsupported('del form')

    def x_Break(self, st, env):
        raise BreakSig()

    def x_Continue(self, st, env):
        raise ContinueSig()

    def x_FunctionDef(self, st, env):
        env.vars[st.name] = Func(st, env, env.mod, name=st.name)

    def x_Global(self, st, env):
        raise Unsupported('global statement')

    def x_Try(self, st, env):
        try:
            try:
                self.exec_block(st.body, env)
            except PyExc as e:
                for h in st.handlers:
                    if h.type is None or self.exc_matches(e, self.eval(h.type, env)):
                        if h.name:
                            env.vars[h.name] = e.obj or Obj('<exc>', {'cls': e.cls, 'args': e.eargs})
                        self.cur_exc = e
                        self.exec_block(h.body, env)
                        break
                else:
                    raise
            else:
                self.exec_block(st.orelse, env)
        finally:
            if st.finalbody:
                self.exec_block(st.finalbody, env)

    def exc_matches(self, e, target):
        if isinstance(target, tuple):
            return any(self.exc_matches(e, t) for t in target)
        if not isinstance(target, ExcClass):
            raise Unsupported('except target')
        return e.cls.name == target.name or target.name in e.cls.bases

    def x_For(self, st, env):
        it = self.eval(st.iter, env)
        inv = None
        if isinstance(it, self.models.SZip):
            return self.summarise_zip_loop(st, env, it)
        src = self.p.unwrap(it) if isinstance(it, Opt) else it
        # a python list is iterated by index against its live length (CPython semantics): a body that removes from or appends
        # to the list it iterates over sees the change; every other iterable is iterated over a snapshot
        live = isinstance(src, list)
        items = src if live else self.iterate(it)
        broke = False
        k = -1
        while True:
            k += 1
            if k >= len(items):
                break
            item = items[k]
            if k > MAX_UNROLL:
                raise Unsupported('loop unroll limit')
            self.assign(st.target, item, env)
            try:
                self.exec_block(st.body, env)
            except BreakSig:
                broke = True
                break
            except ContinueSig:
                continue
        if not broke:
            self.exec_block(st.orelse, env)

    def summarise_zip_loop(self, st, env, zp):
        """for x, y in zip(A, B): <body appending one element to a local list per iteration>  ==> a map.

        The body is executed once at a generic index in merging mode (no forking: if/else are merged with ite);
        it may only append to lists that are local variables and empty before the loop."""
        from . import slist as SL
        p = self.p
        lists = zp.lists
        n = lists[0].n
        for l in lists[1:]:
            n = z3.If(l.n < n, l.n, n)
        n = z3.simplify(n)
        t = fresh('it', z3.IntSort())
        before = {k: (v, len(v)) for k, v in env.vars.items() if isinstance(v, list)}
        item = tuple(SL.elem(l, l.fn(t)) for l in lists)
        self.assign(st.target, item, env)
        p.spec_mode += 1
        self.merge_mode = getattr(self, 'merge_mode', 0) + 1
        try:
            self.exec_block(st.body, env)
        finally:
            p.spec_mode -= 1
            self.merge_mode -= 1
        for k, (lst, ln) in before.items():
            if len(lst) == ln:
                continue
            if ln != 0 or len(lst) != 1 or env.vars.get(k) is not lst:
                raise Unsupported('zip loop: only one append per iteration to an initially empty local list')
            e = SL.code(lst[0])
            env.vars[k] = SL.new(self, n, lambda i, e=e: z3.substitute(e, (t, i)), enum=SL.enum_of(lst))
        if st.orelse:
            self.exec_block(st.orelse, env)

    def merged_if(self, st, env, c):
        """if/else on a symbolic condition without forking (loop summaries): both branches run, effects are merged"""
        ct = boolterm(c)
        vars0 = dict(env.vars)
        lens0 = {id(v): (v, len(v)) for v in env.vars.values() if isinstance(v, list)}

        def run(block):
            env.vars.clear()
            env.vars.update(vars0)
            for v, ln in lens0.values():
                del v[ln:]
            self.exec_block(block, env)
            newvars = dict(env.vars)
            apps = {i: list(v[ln:]) for i, (v, ln) in lens0.items()}
            return newvars, apps
        va, aa = run(st.body)
        vb, ab = run(st.orelse)
        env.vars.clear()
        env.vars.update(vars0)
        for v, ln in lens0.values():
            del v[ln:]
        for k in set(va) | set(vb):
            if k in va and k in vb:
                env.vars[k] = va[k] if va[k] is vb[k] else self.ops.ite(ct, va[k], vb[k])
            else:
                raise Unsupported('merged if: variable defined in one branch only')
        for i, (v, ln) in lens0.items():
            if len(aa[i]) != len(ab[i]):
                raise Unsupported('merged if: branches append different numbers of elements')
            for x, y in zip(aa[i], ab[i]):
                v.append(self.ops.ite(ct, x, y))

    def x_While(self, st, env):
        inv = self.engine.loop_spec(self.callstack[-1] if self.callstack else None, st) if self.depth == 1 else None
        if inv is not None:
            return inv.run_while(self, st, env)
        k = 0
        while True:
            c = self.eval(st.test, env)
            if not self.p.truth(c):
                self.exec_block(st.orelse, env)
                return
            k += 1
            if k > MAX_UNROLL:
                raise Unsupported('while unroll limit (needs an invariant)')
            try:
                self.exec_block(st.body, env)
            except BreakSig:
                return
            except ContinueSig:
                continue

    # ------------------------------------------------------------------ assignment
    def assign(self, t, v, env):
        if isinstance(t, ast.Name):
            env.vars[t.id] = v
        elif isinstance(t, (ast.Tuple, ast.List)):
            items = self.iterate(v)
            star = [k for k, e in enumerate(t.elts) if isinstance(e, ast.Starred)]
            if star:
                k = star[0]
                after = len(t.elts) - k - 1
                if len(items) < len(t.elts) - 1:
                    raise self.p.pyexc('ValueError')
                for e, x in zip(t.elts[:k], items[:k]):
                    self.assign(e, x, env)
                self.assign(t.elts[k].value, list(items[k:len(items) - after]), env)
                for e, x in zip(t.elts[k + 1:], items[len(items) - after:]):
                    self.assign(e, x, env)
                return
            if len(items) != len(t.elts):
                raise self.p.pyexc('ValueError')
            for e, x in zip(t.elts, items):
                self.assign(e, x, env)
        elif isinstance(t, ast.Attribute):
            o = self.eval(t.value, env)
            self.setattr(o, t.attr, v)
        elif isinstance(t, ast.Subscript):
            base = self.eval(t.value, env)
            self.setitem(base, t.slice, v, env)
        else:
            raise Unsupported(f'assign target {type(t).__name__}')

    def setattr(self, o, name, v):
        if isinstance(o, Opt):
            o = self.p.unwrap(o)
        if not isinstance(o, Obj):
            raise Unsupported(f'setattr on {type(o).__name__}')
        ci = self.class_of(o)
        if ci is not None:
            for c in self.repo.mro(ci):
                if name in c.setters:
                    fn = Func(c.setters[name], Env(self.repo.module(c.mod)), self.repo.module(c.mod), self_obj=o,
                              cls=c, name=f'{c.mod}.{c.name}.{name}.setter')
                    self.call(fn, [v], {})
                    return
                if name in c.getters:
                    raise self.p.pyexc('AttributeError')
        o.fields[name] = v

    def setitem(self, base, slc, v, env):
        if isinstance(base, Opt):
            base = self.p.unwrap(base)
        if isinstance(base, dict):
            k = self.key_of(self.eval(slc, env))
            base[k] = v
            return
        if isinstance(base, list):
            k = self.eval(slc, env)
            if isinstance(k, int):
                if not -len(base) <= k < len(base):
                    raise self.p.pyexc('IndexError')
                base[k] = v
                return
            if isinstance(k, slice):
                base[k] = self.to_list(v)
                return
            raise Unsupported('list store with symbolic index')
        if isinstance(base, SList):
            return self.models.slist_setitem(self, base, self.eval_slice(slc, env), v)
        if isinstance(base, Obj):
            raise Unsupported('setitem on object')
        raise Unsupported(f'setitem on {type(base).__name__}')

    # ------------------------------------------------------------------ expressions
    def eval(self, n, env):
        m = getattr(self, 'e_' + type(n).__name__, None)
        if m is None:
            raise Unsupported(f'expression {type(n).__name__}')
        return m(n, env)

    def e_Constant(self, n, env):
        v = n.value
        if isinstance(v, float):
            return to_frac(v)
        if isinstance(v, (int, str, bool)) or v is None:
            return v
        if v is Ellipsis:
            return v
        raise Unsupported(f'constant {v!r}')

    def e_Name(self, n, env):
        ok, v = env.lookup(n.id)
        if ok:
            return v
        return self.resolve_global(n.id, env.mod)

    def e_Tuple(self, n, env):
        out = []
        for e in n.elts:
            if isinstance(e, ast.Starred):
                out.extend(self.iterate(self.eval(e.value, env)))
            else:
                out.append(self.eval(e, env))
        return tuple(out)

    def e_List(self, n, env):
        if len(n.elts) == 1 and isinstance(n.elts[0], ast.Starred):
            v = self.eval(n.elts[0].value, env)
            if isinstance(v, self.models.SRange):
                # [*range(a, b)] with symbolic bounds: list of ints idealised as an int vector
                lo = v.lo
                vec = Vec(z3.simplify(term(v.hi) - term(lo)), lambda i: mk(term(i) + term(lo)))
                vec._kind = 'int'
                return vec
            return list(self.iterate(v))
        return list(self.e_Tuple(n, env))

    def e_Set(self, n, env):
        return self.models.make_set(self, self.e_Tuple(n, env))

    def e_Dict(self, n, env):
        d = {}
        for k, v in zip(n.keys, n.values):
            if k is None:
                src = self.eval(v, env)
                if not isinstance(src, dict):
                    raise Unsupported('** of non-dict')
                d.update(src)
            else:
                d[self.key_of(self.eval(k, env))] = self.eval(v, env)
        return d

    def key_of(self, k):
        if isinstance(k, (str, int, Fraction, bool, tuple)) or k is None:
            return k
        if isinstance(k, Obj):
            return k
        if isinstance(k, SV):
            return ('sv', k.t.get_id(), k)
        raise Unsupported(f'dict key {type(k).__name__}')

    def e_JoinedStr(self, n, env):
        parts = []
        conc = True
        for v in n.values:
            if isinstance(v, ast.Constant):
                parts.append(v.value)
            else:
                try:
                    x = self.eval(v.value, env)
                except (Unsupported, PyExc):
                    if self.engine.strict_fstrings:
                        raise
                    x = SV(fresh('hole', StrS))
                if isinstance(x, str) and v.format_spec is None:
                    parts.append(x)
                elif isinstance(x, int) and not isinstance(x, bool) and v.format_spec is None:
                    parts.append(str(x))
                else:
                    conc = False
                    parts.append(x)
        if conc:
            return ''.join(parts)
        return self.engine.fstring_value(self.p, parts)

    def e_UnaryOp(self, n, env):
        v = self.eval(n.operand, env)
        if isinstance(n.op, ast.Not):
            if self.p.spec_mode or isinstance(v, (Vec, Mat)):
                if isinstance(v, (bool, SV, Vec, Mat)):
                    return self.ops.lnot(v)
            return not self.p.truth(v)
        if isinstance(n.op, ast.USub):
            return self.ops.neg(v)
        if isinstance(n.op, ast.UAdd):
            return v
        if isinstance(n.op, ast.Invert) and isinstance(v, (Vec, SV, bool)):
            return self.ops.lnot(v)
        raise Unsupported('unary op')

    def e_BinOp(self, n, env):
        a = self.eval(n.left, env)
        b = self.eval(n.right, env)
        return self.binop(type(n.op).__name__, a, b)

    def binop(self, op, a, b):
        if isinstance(a, SList) or isinstance(b, SList):
            return self.models.slist_binop(self, op, a, b)
        if op == 'Mult' and ((isinstance(a, list) and isinstance(b, SV)) or (isinstance(b, list) and isinstance(a, SV))):
            return self.models.slist_binop(self, op, a, b)
        if isinstance(a, Obj) and op == 'Add':
            ci = self.class_of(a)
            if ci is not None:
                f = self.find_method(ci, '__add__')
                if f is not None:
                    return self.call_method(a, f, [b], {})
        if op in ('BitAnd', 'BitOr'):
            f = self.ops.land if op == 'BitAnd' else self.ops.lor
            if isinstance(a, (Vec, Mat)) or isinstance(b, (Vec, Mat)):
                return self.ops.broadcast(f, a, b)
            if isinstance(a, (bool, SV)) and isinstance(b, (bool, SV)):
                return f(a, b)
            raise Unsupported('bit op')
        return self.ops.binop(op, a, b)

    def e_BoolOp(self, n, env):
        is_and = isinstance(n.op, ast.And)
        if self.p.spec_mode:
            acc = None
            for v in n.values:
                x = self.eval(v, env)
                if isinstance(x, Forall):
                    raise Unsupported('Forall under and/or: list the clauses separately')
                if acc is None:
                    acc = x
                else:
                    acc = self.ops.land(self.sbool(acc), self.sbool(x)) if is_and else \
                        self.ops.lor(self.sbool(acc), self.sbool(x))
                if is_and and acc is False:
                    return False
                if not is_and and acc is True:
                    return True
            return acc
        v = None
        for e in n.values:
            v = self.eval(e, env)
            t = self.p.truth(v)
            if is_and and not t:
                return v
            if not is_and and t:
                return v
        return v

    def sbool(self, x):
        if isinstance(x, (bool, SV)):
            return x
        if isinstance(x, EnumValueSym):
            r = False
            for m in self.enum_members(x.cls):
                if m.value:
                    r = self.ops.lor(r, mk(x.t == m.code))
            return r
        if isinstance(x, (EnumVal, EnumSym)):
            return True
        if x is None:
            return False
        if isinstance(x, Opt):
            return mk(z3.And(z3.Not(x.isnone), boolterm(self.sbool(x.val))))
        if isinstance(x, (int, Fraction)):
            return x != 0
        if isinstance(x, (list, tuple, dict, str)):
            return len(x) > 0
        if isinstance(x, Obj):
            return True
        raise Unsupported(f'spec truth of {type(x).__name__}')

    def e_Compare(self, n, env):
        left = self.eval(n.left, env)
        res = True
        for op, rn in zip(n.ops, n.comparators):
            right = self.eval(rn, env)
            r = self.compare1(type(op).__name__, left, right)
            if len(n.ops) == 1:
                return r
            if isinstance(r, (Vec, Mat)):
                raise Unsupported('chained array comparison')
            if self.p.spec_mode:
                res = self.ops.land(res, r)
            else:
                if not self.p.truth(r):
                    return False
                res = True
            left = right
        return res

    def compare1(self, op, a, b):
        if op in ('Is', 'IsNot'):
            r = self.is_(a, b)
            return r if op == 'Is' else self.ops.lnot(r)
        if op in ('In', 'NotIn'):
            r = self.contains(b, a)
            return r if op == 'In' else self.ops.lnot(r)
        if isinstance(a, SList) or isinstance(b, SList):
            return self.models.slist_compare(self, op, a, b)
        return self.ops.compare(op, a, b)

    def is_(self, a, b):
        if isinstance(a, Opt) and b is None:
            return mk(a.isnone)
        if isinstance(b, Opt) and a is None:
            return mk(b.isnone)
        if a is None or b is None:
            return a is None and b is None
        if isinstance(a, Opt) and isinstance(b, Opt):
            if a is b:
                return True
            # None is None; otherwise identity of the payloads
            inner = self.is_(a.val, b.val) if isinstance(a.val, (Obj, list, dict, SList, Vec)) and \
                isinstance(b.val, (Obj, list, dict, SList, Vec)) else None
            if inner is None:
                raise Unsupported('is on two optional scalars')
            return self.ops.lor(self.ops.land(mk(a.isnone), mk(b.isnone)),
                                self.ops.land(self.ops.land(self.ops.lnot(mk(a.isnone)), self.ops.lnot(mk(b.isnone))), inner))
        if isinstance(a, Opt) or isinstance(b, Opt):
            o, x = (a, b) if isinstance(a, Opt) else (b, a)
            if isinstance(x, (Obj, list, dict, SList, Vec)) and isinstance(o.val, (Obj, list, dict, SList, Vec)):
                return self.ops.land(self.ops.lnot(mk(o.isnone)), self.is_(o.val, x))
        if isinstance(a, bool) and isinstance(b, bool):
            return a == b
        if isinstance(a, SV) and isinstance(b, bool) and a.t.sort() == z3.BoolSort():
            return mk(a.t == b)
        if isinstance(a, (Obj, list, dict, SList, Vec)):
            if a is b:
                return True
            m = getattr(self, 'old_to_live', None) or {}
            return m.get(id(a)) is b or m.get(id(b)) is a      # old(x) is x  <=>  still the same object
        if isinstance(a, ExcClass) and isinstance(b, ExcClass):
            return a.name == b.name
        if isinstance(a, ClassRef) and isinstance(b, ClassRef):
            return a.qual is b.qual
        raise Unsupported(f'is on {type(a).__name__}/{type(b).__name__}')

    def contains(self, cont, x):
        if isinstance(cont, Opt):
            cont = self.p.unwrap(cont)
        if isinstance(cont, dict):
            if isinstance(x, SV):
                r = False
                for k in cont.keys():
                    r = self.ops.lor(r, self.ops.eq(k if not (isinstance(k, tuple) and k and k[0] == 'sv') else k[2], x))
                return r
            return self.key_of(x) in cont
        if isinstance(cont, (list, tuple, set, frozenset)):
            r = False
            for e in cont:
                r = self.ops.lor(r, self.ops.eq(e, x))
                if r is True:
                    return True
            return r
        if isinstance(cont, str):
            if isinstance(x, str):
                return x in cont
            raise Unsupported('substring test on symbolic string')
        if isinstance(cont, SV) and cont.t.sort() == StrS:
            raise Unsupported('substring test on symbolic string')
        if isinstance(cont, SList):
            return self.models.slist_contains(self, cont, x)
        if isinstance(cont, self.models.SDict):
            return cont.contains(self, x)
        if hasattr(cont, 'contains'):
            return cont.contains(self, x)
        raise Unsupported(f'in on {type(cont).__name__}')

    def e_IfExp(self, n, env):
        c = self.eval(n.test, env)
        if self.p.spec_mode and isinstance(c, SV):
            a = self.eval(n.body, env)
            b = self.eval(n.orelse, env)
            return self.ops.ite(boolterm(c), a, b)
        if self.p.truth(c):
            return self.eval(n.body, env)
        return self.eval(n.orelse, env)

    def e_Lambda(self, n, env):
        return Func(n, env, env.mod, name='<lambda>')

    def e_Attribute(self, n, env):
        o = self.eval(n.value, env)
        return self.getattr(o, n.attr)

    def e_Starred(self, n, env):
        raise Unsupported('starred expression')

    def e_NamedExpr(self, n, env):
        v = self.eval(n.value, env)
        env.vars[n.target.id] = v
        return v

    def class_of(self, o):
        if isinstance(o.cls, str):
            if o.cls.startswith('<'):
                return None
            ci = self.repo.find_class(o.cls)
            return ci
        return o.cls

    def find_method(self, ci, name):
        for c in self.repo.mro(ci):
            if name in c.methods:
                return (c, c.methods[name])
        return None

    def enum_members(self, cls):
        ci = self.repo.find_class(cls)
        return [self.getattr(ClassRef(ci), nm) for nm in ci.class_consts]

    def getattr(self, o, name):
        if isinstance(o, Opt):
            o = o.val if self.p.spec_mode else self.p.unwrap(o)
        if isinstance(o, EnumVal) and name == 'value':
            return o.value
        if isinstance(o, EnumVal) and name == 'name':
            return o.name
        if isinstance(o, EnumSym) and name == 'value':
            return EnumValueSym(o.cls, o.t)
        if o is None:
            raise self.p.pyexc('AttributeError')
        if isinstance(o, Obj):
            if name in o.fields:
                return o.fields[name]
            ci = self.class_of(o)
            if ci is not None:
                for c in self.repo.mro(ci):
                    m = self.repo.module(c.mod)
                    if name in c.getters:
                        fn = Func(c.getters[name], Env(m), m, self_obj=o, cls=c, name=f'{c.mod}.{c.name}.{name}')
                        return self.call(fn, [], {})
                    if name in c.methods:
                        decos = getattr(c.methods[name], '_decos', [])
                        if 'staticmethod' in decos:
                            return Func(c.methods[name], Env(m), m, cls=c, name=f'{c.mod}.{c.name}.{name}')
                        if 'classmethod' in decos:
                            return Func(c.methods[name], Env(m), m, self_obj=ClassRef(ci), cls=c,
                                        name=f'{c.mod}.{c.name}.{name}')
                        return Func(c.methods[name], Env(m), m, self_obj=o, cls=c, name=f'{c.mod}.{c.name}.{name}')
                    if name in c.class_consts:
                        return self.eval(c.class_consts[name], Env(m))
            if name == '__dict__':
                return o.fields
            if name == '__class__':
                return ClassRef(ci) if ci else Obj('<type>', {'__name__': o.cls})
            if o.cls == '<exc>':
                if name == 'args':
                    return tuple(o.fields['args'])
            r = self.models.obj_attr(self, o, name)
            if r is not NotImplemented:
                return r
            raise self.p.pyexc('AttributeError', name)
        if isinstance(o, ClassRef):
            ci = o.qual
            if 'Enum' in ci.bases and name in ci.class_consts:
                v = self.eval(ci.class_consts[name], Env(self.repo.module(ci.mod)))
                names = list(ci.class_consts.keys())
                cd = v if isinstance(v, int) and not isinstance(v, bool) else 1000 + names.index(name)
                return EnumVal(ci.name, name, v, cd)
            for c in self.repo.mro(ci):
                m = self.repo.module(c.mod)
                if name in c.class_consts:
                    key = (c.mod, c.name + '.' + name)
                    if key in self.engine.overrides:
                        return self.engine.overrides[key](self)
                    return self.eval(c.class_consts[name], Env(m))
                if name in c.methods:
                    decos = getattr(c.methods[name], '_decos', [])
                    if 'classmethod' in decos:
                        return Func(c.methods[name], Env(m), m, self_obj=o, cls=c, name=f'{c.mod}.{c.name}.{name}')
                    return Func(c.methods[name], Env(m), m, cls=c, name=f'{c.mod}.{c.name}.{name}')
            if name == '__name__':
                return ci.name
            raise Unsupported(f'class attribute {ci.name}.{name}')
        if isinstance(o, ModuleRef):
            if o.name.startswith('gnpy'):
                m = self.repo.module(o.name)
                if m is not None:
                    return self.resolve_global(name, m)
            b = self.models.external(o.name, name)
            if b is not None:
                return b
            raise Unsupported(f'module attribute {o.name}.{name}')
        r = self.models.value_attr(self, o, name)
        if r is not NotImplemented:
            return r
        raise Unsupported(f'attribute {name} of {type(o).__name__}')

    def e_Subscript(self, n, env):
        base = self.eval(n.value, env)
        if isinstance(n.slice, ast.Slice):
            sl = self.eval_slice(n.slice, env)
            return self.models.getslice(self, base, sl)
        if isinstance(n.slice, ast.Tuple):
            idx = tuple(self.eval_slice(e, env) if isinstance(e, ast.Slice) else self.eval(e, env) for e in n.slice.elts)
            return self.models.getitem(self, base, idx)
        idx = self.eval(n.slice, env)
        return self.models.getitem(self, base, idx)

    def e_Slice(self, n, env):
        return self.eval_slice(n, env)

    def eval_slice(self, n, env):
        if not isinstance(n, ast.Slice):
            return self.eval(n, env)
        lo = self.eval(n.lower, env) if n.lower is not None else None
        hi = self.eval(n.upper, env) if n.upper is not None else None
        st = self.eval(n.step, env) if n.step is not None else None
        if all(x is None or isinstance(x, int) for x in (lo, hi, st)):
            return slice(lo, hi, st)
        return ('slice', lo, hi, st)

    # comprehensions --------------------------------------------------
    def comp_iter(self, gens, env, body):
        def rec(k, env):
            if k == len(gens):
                body(env)
                return
            g = gens[k]
            it = self.eval(g.iter, env)
            for item in self.iterate(it):
                e2 = Env(env.mod, env)
                self.assign(g.target, item, e2)
                ok = True
                for c in g.ifs:
                    if not self.p.truth(self.eval(c, e2)):
                        ok = False
                        break
                if ok:
                    rec(k + 1, e2)
        rec(0, env)

    def e_ListComp(self, n, env):
        if len(n.generators) == 1 and not n.generators[0].ifs:
            src0 = self.eval(n.generators[0].iter, env)
            if isinstance(src0, self.models.SZip):
                # [f(x, y) for x, y in zip(A, B)] over symbolic-length lists: an element-wise map
                from . import slist as SL
                lists = src0.lists
                nn = lists[0].n
                for l in lists[1:]:
                    nn = z3.If(l.n < nn, l.n, nn)
                t = fresh('it', z3.IntSort())
                e2 = Env(env.mod, env)
                self.assign(n.generators[0].target, tuple(SL.elem(l, l.fn(t)) for l in lists), e2)
                self.p.spec_mode += 1
                try:
                    v = self.eval(n.elt, e2)
                finally:
                    self.p.spec_mode -= 1
                e = SL.code(v)
                return SL.new(self, z3.simplify(nn), lambda i, e=e: z3.substitute(e, (t, i)), enum=SL.enum_of(v))
            return self._listcomp_from(n, env, src0) if not isinstance(src0, (Vec, self.models.SRange)) else \
                self._vector_comp_from(n, env, src0)
        if len(n.generators) == 1 and n.generators[0].ifs and isinstance(n.generators[0].target, ast.Name):
            g = n.generators[0]
            src = self.eval(g.iter, env)
            if isinstance(src, self.models.SRange):
                from .slist import FiltList

                def cond(i, g=g):
                    e2 = Env(env.mod, env)
                    e2.vars[g.target.id] = i
                    self.p.spec_mode += 1
                    try:
                        r = True
                        for c in g.ifs:
                            r = self.ops.land(r, self.sbool(self.eval(c, e2)))
                        return r
                    finally:
                        self.p.spec_mode -= 1

                def elt(i, g=g):
                    e2 = Env(env.mod, env)
                    e2.vars[g.target.id] = i
                    self.p.spec_mode += 1
                    try:
                        return self.eval(n.elt, e2)
                    finally:
                        self.p.spec_mode -= 1
                return FiltList(self, src.lo, src.hi, cond, elt)
            return self._listcomp_from(n, env, src)
        r = self.models.vector_comp(self, n, env)
        if r is not NotImplemented:
            return r
        out = []
        self.comp_iter(n.generators, env, lambda e: out.append(self.eval(n.elt, e)))
        return out

    def _vector_comp_from(self, n, env, src):
        g = n.generators[0]
        if isinstance(src, self.models.SRange):
            lo = src.lo
            nn = z3.simplify(term(src.hi) - term(lo))
            in_spec = self.p.spec_mode

            def fn(i):
                e2 = Env(env.mod, env)
                self.assign(g.target, mk(term(i) + term(lo)), e2)
                self.p.spec_mode += in_spec       # a comprehension written in a specification stays one when forced later
                try:
                    return self.eval(n.elt, e2)
                finally:
                    self.p.spec_mode -= in_spec
            return Vec(nn, fn)
        if isinstance(src.n, int):
            return self._listcomp_from(n, env, src)

        def fn2(i):
            e2 = Env(env.mod, env)
            self.assign(g.target, src.at(i), e2)
            return self.eval(n.elt, e2)
        return Vec(src.n, fn2)

    def _listcomp_from(self, n, env, src):
        g = n.generators[0]
        out = []
        for item in self.iterate(src):
            e2 = Env(env.mod, env)
            self.assign(g.target, item, e2)
            if all(self.p.truth(self.eval(c, e2)) for c in g.ifs):
                out.append(self.eval(n.elt, e2))
        return out

    def e_GeneratorExp(self, n, env):
        return self.e_ListComp(n, env)

    def e_SetComp(self, n, env):
        out = []
        self.comp_iter(n.generators, env, lambda e: out.append(self.eval(n.elt, e)))
        return self.models.make_set(self, out)

    def e_DictComp(self, n, env):
        out = {}

        def body(e):
            out[self.key_of(self.eval(n.key, e))] = self.eval(n.value, e)
        self.comp_iter(n.generators, env, body)
        return out

    def iterate(self, it):
        """concrete iteration (a python list of the items) or Unsupported"""
        if isinstance(it, Opt):
            it = self.p.unwrap(it)
        if isinstance(it, (list, tuple)):
            return list(it)
        if isinstance(it, dict):
            return [k if not (isinstance(k, tuple) and k and k[0] == 'sv') else k[2] for k in it.keys()]
        if isinstance(it, (set, frozenset)):
            return list(it)
        if isinstance(it, range):
            if len(it) > 4 * MAX_UNROLL:
                raise Unsupported('range too long to unroll')
            return list(it)
        if isinstance(it, str):
            return list(it)
        if isinstance(it, Vec):
            if isinstance(it.n, int):
                return [it.at(k) for k in range(it.n)]
            raise Unsupported('iteration over an array of symbolic length (needs an invariant / vector form)')
        if hasattr(it, 'items_list'):
            return it.items_list(self)
        if isinstance(it, Obj) and '__iter__' in it.fields:
            return list(it.fields['__iter__'])      # ghost iteration order of a container object (networkx graph)
        raise Unsupported(f'iteration over {type(it).__name__}')

    def to_list(self, v):
        return self.iterate(v)

    # calls --------------------------------------------------------------
    def e_Call(self, n, env):
        # spec forms
        if isinstance(n.func, ast.Name):
            if n.func.id == 'old' and self.old_env is not None:
                return self.engine.eval_old(self, n.args[0], env)
            if n.func.id == 'old' and self.p.spec_mode:
                if getattr(self, 'in_prestate', False) or getattr(self, 'in_invariant', False):
                    return self.eval(n.args[0], env)       # evaluated in the pre-state: old(e) is e
                raise Unsupported('old() outside a postcondition')
            if n.func.id == 'implies' and self.p.spec_mode and len(n.args) == 2:
                x = self.eval(n.args[0], env)
                if x is False:
                    return True         # the consequent is not evaluated (it may dereference None)
                try:
                    y = self.eval(n.args[1], env)
                except PyExc as ex:
                    if ex.cls.name in ('KeyError', 'IndexError', 'AttributeError', 'TypeError') and not isinstance(x, bool):
                        # the consequent is undefined (missing key / None dereference): the clause then states that its
                        # antecedent does not hold here - provable only when the antecedent is infeasible on this path
                        return self.models.s_implies(self, [x, False], {})
                    raise
                return self.models.s_implies(self, [x, y], {})
        if isinstance(n.func, ast.Attribute) and isinstance(n.func.value, ast.Call) and isinstance(n.func.value.func, ast.Name) \
                and n.func.value.func.id == 'super' and not n.func.value.args:
            f = self.super_method(n.func.attr, env)
        else:
            f = self.eval(n.func, env)
        args = []
        for a in n.args:
            if isinstance(a, ast.Starred):
                args.extend(self.iterate(self.eval(a.value, env)))
            else:
                args.append(self.eval(a, env))
        kwargs = {}
        for kw in n.keywords:
            if kw.arg is None:
                d = self.eval(kw.value, env)
                if not isinstance(d, dict):
                    raise Unsupported('** of non-dict')
                kwargs.update(d)
            else:
                kwargs[kw.arg] = self.eval(kw.value, env)
        return self.call(f, args, kwargs, node=n)

    def super_method(self, name, env):
        """super().name inside a method: the next definition after the defining class in the MRO of that class;
        object.__init__ (no repository base defines it) does nothing"""
        ok, ci = env.lookup('__class__')
        ok2, slf = env.lookup('__self__')
        if not ok or not ok2 or slf is None:
            raise Unsupported('super() outside a method')
        mro = self.repo.mro(self.class_of(slf) or ci) if isinstance(slf, Obj) else self.repo.mro(ci)
        names = [c.name for c in mro]
        start = names.index(ci.name) + 1 if ci.name in names else len(mro)
        for c in mro[start:]:
            if name in c.methods:
                m = self.repo.module(c.mod)
                return Func(c.methods[name], Env(m), m, self_obj=slf, cls=c, name=f'{c.mod}.{c.name}.{name}')
        if name == '__init__':
            return Builtin('object.__init__', lambda it, a, k: None)
        raise Unsupported(f'super().{name}: no base class of {ci.name} in the repository defines it')

    def call(self, f, args, kwargs, node=None):
        if isinstance(f, Builtin):
            return f.fn(self, args, kwargs)
        if isinstance(f, Func):
            return self.call_func(f, args, kwargs)
        if isinstance(f, ClassRef):
            return self.instantiate(f.qual, args, kwargs)
        if isinstance(f, ExcClass):
            return Obj('<exc>', {'cls': f, 'args': tuple(args)})
        if isinstance(f, Obj) and f.cls == '<namedtuple-class>':
            names = f.fields['fields']
            names = names.replace(',', ' ').split() if isinstance(names, str) else list(names)
            vals = dict(zip(names, args))
            vals.update(kwargs)
            if set(vals) != set(names):
                raise self.p.pyexc('TypeError')
            o = Obj('<nt>', {nm: vals[nm] for nm in names}, label=f.fields['name'])
            return o
        if isinstance(f, Obj):
            ci = self.class_of(f)
            if ci is not None:
                m = self.find_method(ci, '__call__')
                if m is not None:
                    return self.call_method(f, m, args, kwargs)
        if isinstance(f, Opt):
            return self.call(self.p.unwrap(f), args, kwargs)
        raise Unsupported(f'call of {type(f).__name__}')

    def call_method(self, o, m, args, kwargs):
        c, node = m
        mod = self.repo.module(c.mod)
        return self.call_func(Func(node, Env(mod), mod, self_obj=o, cls=c, name=f'{c.mod}.{c.name}.{node.name}'),
                              args, kwargs)

    def instantiate(self, ci, args, kwargs):
        r = self.models.special_class(self, ci, args, kwargs)
        if r is not NotImplemented:
            return r
        o = Obj(ci, {}, label=None)
        self.p.alloc.append(o)
        if 'dataclass' in ci.decorators:
            names = [f for f, _ in ci.ann_fields]
            defaults = dict(ci.ann_fields)
            vals = dict(zip(names, args))
            vals.update(kwargs)
            mod = self.repo.module(ci.mod)
            for f in names:
                if f in vals:
                    o.fields[f] = vals[f]
                elif defaults[f] is not None:
                    o.fields[f] = self.eval(defaults[f], Env(mod))
                else:
                    raise self.p.pyexc('TypeError')
            return o
        m = self.find_method(ci, '__init__')
        if m is not None:
            self.call_method(o, m, args, kwargs)
        elif args or kwargs:
            base = ci.node.bases[0] if len(ci.node.bases) == 1 else None
            if isinstance(base, ast.Call) and ast.unparse(base.func).split('.')[-1] == 'namedtuple' and \
                    not (ci.methods or ci.getters or ci.setters):
                # class X(namedtuple('X', 'a b c')) with a docstring only: a plain record
                nt = self.eval(base, Env(self.repo.module(ci.mod)))
                self.p.alloc.remove(o)
                return self.call(nt, args, kwargs)
            raise Unsupported(f'{ci.name}() without __init__')
        return o

    def bind(self, fnode, args, kwargs, env, self_obj):
        a = fnode.args
        params = [x.arg for x in a.posonlyargs + a.args]
        vals = {}
        pos = list(args)
        if self_obj is not None:
            pos = [self_obj] + pos
        if len(pos) > len(params) and a.vararg is None:
            raise self.p.pyexc('TypeError')
        for nme, v in zip(params, pos):
            vals[nme] = v
        if a.vararg is not None:
            vals[a.vararg.arg] = tuple(pos[len(params):])
        kw = dict(kwargs)
        for nme in params + [x.arg for x in a.kwonlyargs]:
            if nme in kw:
                if nme in vals:
                    raise self.p.pyexc('TypeError')
                vals[nme] = kw.pop(nme)
        defaults = a.defaults
        for nme, d in zip(params[len(params) - len(defaults):], defaults):
            if nme not in vals:
                vals[nme] = self.eval(d, env)
        for x, d in zip(a.kwonlyargs, a.kw_defaults):
            if x.arg not in vals:
                if d is None:
                    raise self.p.pyexc('TypeError')
                vals[x.arg] = self.eval(d, env)
        if a.kwarg is not None:
            vals[a.kwarg.arg] = kw
        elif kw:
            raise self.p.pyexc('TypeError')
        for nme in params:
            if nme not in vals:
                raise self.p.pyexc('TypeError')
        return vals

    def defaults_env(self, f):
        """default values of a method are evaluated in the class body scope (class constants visible)"""
        if f.cls is None or not f.node.args.defaults and not f.node.args.kw_defaults:
            return f.env
        cv = {}
        for c in reversed(self.repo.mro(f.cls)):
            m = self.repo.module(c.mod)
            for nm, ex in c.class_consts.items():
                try:
                    cv[nm] = self.eval(ex, Env(m, None, dict(cv)))
                except (Unsupported, PyExc):
                    pass
        return Env(f.mod, f.env, cv)

    def call_func(self, f, args, kwargs):
        node = f.node
        if isinstance(node, ast.Lambda):
            env = Env(f.mod, f.env, self.bind(node, args, kwargs, f.env, None))
            return self.eval(node.body, env)
        qual = f.name
        # a callee under contract is replaced by its contract (modular verification)
        if self.depth > 0 or self.p.spec_mode or self.engine.always_modular:
            c = self.engine.callee_contract(qual, self)
            if c is not None:
                vals = self.bind(node, args, kwargs, self.defaults_env(f), f.self_obj)
                # a summary stated for array arguments says nothing about a call with a scalar: the body is interpreted
                for pn, b in c.params.items():
                    rc = getattr(b, 'recipe', None)
                    if rc and rc[0] in ('vec', 'vec1', 'vec_len') and pn in vals and \
                            isinstance(vals[pn], (SV, int, Fraction)) and not isinstance(vals[pn], bool):
                        rr = getattr(c.returns, 'recipe', None) if c.returns is not None else None
                        if c.trusted and c.pure and rr and rr[0] in ('vec', 'vec_len'):
                            # an assumed pure per-element coefficient evaluated at one point: some real number
                            from .vals import fresh as _fresh
                            return SV(_fresh(qual.rsplit('.', 1)[-1] + '_at_point', z3.RealSort()))
                        if not c.trusted:
                            c = None
                            break
            if c is not None:
                if c.pure:
                    # a pure function applied to the same argument objects yields the same result object
                    if c.pure_on:
                        # the postcondition determines the result pointwise from these sub-objects only, so two
                        # calls agreeing on them yield the same result
                        menv = Env(f.mod, None, dict(vals))
                        kv = [(ex, self.engine.eval_clause(self, ex, menv)) for ex in c.pure_on]
                    else:
                        kv = sorted(vals.items())
                    key = (c.qual,) + tuple((k, id(v) if not isinstance(v, (int, str, Fraction, bool, type(None))) else ('v', v))
                                            for k, v in kv)
                    memo = self.p.__dict__.setdefault('pure_memo', {})
                    if key in memo:
                        return memo[key][1]
                    r = self.engine.apply_contract(self, c, vals)
                    memo[key] = (vals, r)
                    return r
                return self.engine.apply_contract(self, c, vals)
        if self.depth > MAX_DEPTH:
            raise Unsupported('call depth')
        vals = self.bind(node, args, kwargs, self.defaults_env(f), f.self_obj)
        env = Env(f.mod, f.env, vals)
        if f.cls is not None:
            env.vars['__class__'] = f.cls
            env.vars['__self__'] = f.self_obj
        self.depth += 1
        self.callstack.append(qual)
        try:
            self.exec_block(node.body, env)
            return None
        except ReturnSig as r:
            return r.v
        finally:
            self.depth -= 1
            self.callstack.pop()


def ast_load(t):
    import copy as _c
    t2 = _c.copy(t)
    t2.ctx = ast.Load()
    return t2
