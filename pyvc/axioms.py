"""Ground instantiation of the axioms for the uninterpreted real functions, and of universal assumptions.

Quantified dB axioms make the solvers answer `unknown`; every axiom is therefore instantiated at the terms that
occur in the VC (closure depth bounded).  The axiom schemas are theorems of real analysis (listed in
lemmas/DbAlgebra.lean); which instances are generated is irrelevant for soundness.
"""
import z3
from .vals import SV, Forall
from .ops import UF, term, boolterm

R = z3.RealSort()
EXPLIKE = {'db2lin': 'lin2db', 'exp': 'log'}
LOGLIKE = {'lin2db': 'db2lin', 'log': 'exp'}
LOG10E10 = z3.Real('TEN_LOG10_E')     # 10*log10(e) = 4.3429448...


def _split_sum(t):
    """t == sum of returned terms (syntactic)"""
    if z3.is_add(t):
        out = []
        for c in t.children():
            out.extend(_split_sum(c))
        return out
    if z3.is_sub(t) and len(t.children()) == 2:
        a, b = t.children()
        return _split_sum(a) + [-x for x in _split_sum(b)]
    return [t]


def _split_prod(t):
    """t == product of num/den lists (syntactic): returns (nums, dens)"""
    if z3.is_mul(t):
        ns, ds = [], []
        for c in t.children():
            n, d = _split_prod(c)
            ns += n
            ds += d
        return ns, ds
    if z3.is_div(t):
        a, b = t.children()
        n1, d1 = _split_prod(a)
        n2, d2 = _split_prod(b)
        return n1 + d2, d1 + n2
    if z3.is_app_of(t, z3.Z3_OP_POWER):
        b, e = t.children()
        if z3.is_rational_value(e) and e.denominator_as_long() == 1 and 1 <= e.numerator_as_long() <= 4:
            return [b] * e.numerator_as_long(), []
    return [t], []


def _neg_of(t):
    """if t is syntactically -x return x"""
    if z3.is_mul(t) and len(t.children()) == 2:
        a, b = t.children()
        if z3.is_rational_value(a) and a.numerator_as_long() == -1 and a.denominator_as_long() == 1:
            return b
    if z3.is_app_of(t, z3.Z3_OP_UMINUS):
        return t.children()[0]
    return None


def eq_defs(formulas):
    """equalities atom == (product | quotient | sum) occurring anywhere in the formulas: callee contracts relate
    atoms (havoced arrays) to expressions, and the syntactic axiom instances must see through them"""
    prod, summ = {}, {}
    for t in walk(formulas):
        if z3.is_eq(t) and t.arg(0).sort() == R:
            for a, b in ((t.arg(0), t.arg(1)), (t.arg(1), t.arg(0))):
                if z3.is_app(a) and a.decl().kind() == z3.Z3_OP_UNINTERPRETED:
                    if z3.is_mul(b) or z3.is_div(b):
                        prod.setdefault(a.get_id(), []).append(b)
                    elif z3.is_add(b) or z3.is_sub(b):
                        summ.setdefault(a.get_id(), []).append(b)
    return prod, summ


def uf_axioms(apps, max_rounds=5, defs=None, focus=None):
    """apps: {fname: {id: (args, term)}} -> list of ground axiom instances (z3 Bool terms)"""
    out = []
    dprod, dsum = defs or ({}, {})
    seen = set()
    work = {k: dict(v) for k, v in apps.items()}

    def app(fname, x):
        x = z3.simplify(x)
        t = UF[fname](x)
        d = work.setdefault(fname, {})
        if t.get_id() not in d:
            d[t.get_id()] = ([x], t)
        return t

    # anchors: db2lin(0) = 1, lin2db(1) = 0 take part in the pairwise monotonicity instances
    if 'db2lin' in work or 'lin2db' in work:
        app('db2lin', z3.RealVal(0))
        app('lin2db', z3.RealVal(1))
    if 'exp' in work or 'log' in work:
        app('exp', z3.RealVal(0))
        app('log', z3.RealVal(1))
    done = set()
    for _ in range(max_rounds):
        todo = [(f, k, a, t) for f, d in list(work.items()) for k, (a, t) in list(d.items()) if (f, k) not in done]
        if not todo:
            break
        for f, k, a, t in todo:
            done.add((f, k))
            if f in EXPLIKE:
                x = z3.simplify(a[0])
                inv = EXPLIKE[f]
                out.append(t > 0)
                out.append(UF[inv](t) == x)
                parts = _split_sum(x)
                for q in [x] + parts:
                    for rhs in dsum.get(q.get_id(), [])[:2]:
                        if q.eq(x):
                            app(f, rhs)
                if len(parts) > 1 and len(parts) <= 3:
                    prod = None
                    for p in parts:
                        e = app(f, p)
                        prod = e if prod is None else prod * e
                    out.append(t == prod)
                nx = _neg_of(x)
                if nx is not None:
                    out.append(t * app(f, nx) == 1)
                if z3.is_rational_value(x):
                    if x.numerator_as_long() == 0:
                        out.append(t == 1)
                    elif f == 'db2lin' and x.denominator_as_long() == 1 and abs(x.numerator_as_long()) % 10 == 0 \
                            and abs(x.numerator_as_long()) <= 60:
                        e = x.numerator_as_long() // 10
                        out.append(t == (z3.RealVal(10) ** e if e >= 0 else 1 / (z3.RealVal(10) ** (-e))))
                if f == 'exp':
                    out.append(t == app('db2lin', x * LOG10E10))
            elif f in LOGLIKE:
                x = z3.simplify(a[0])
                inv = LOGLIKE[f]
                out.append(z3.Implies(x > 0, UF[inv](t) == x))
                ns, ds = _split_prod(x)
                for q in ns + ds:
                    for rhs in dprod.get(q.get_id(), [])[:2]:
                        # x = .. q .. with q == rhs known: also decompose f(x[q := rhs])
                        app(f, z3.substitute(x, (q, rhs)))
                if len(ns) + len(ds) > 1 and len(ns) + len(ds) <= 8:
                    tot = None
                    pos = []
                    for p in ns:
                        e = app(f, p)
                        pos.append(p > 0)
                        tot = e if tot is None else tot + e
                    for p in ds:
                        e = app(f, p)
                        pos.append(p > 0)
                        tot = -e if tot is None else tot - e
                    out.append(z3.Implies(z3.And(*pos), t == tot))
                if z3.is_rational_value(x):
                    n, d = x.numerator_as_long(), x.denominator_as_long()
                    if n == d:
                        out.append(t == 0)
                    elif f == 'lin2db':
                        for e in range(1, 7):
                            if n == 10 ** e and d == 1:
                                out.append(t == 10 * e)
                            if d == 10 ** e and n == 1:
                                out.append(t == -10 * e)
            elif f == 'log10':
                x = a[0]
                out.append(10 * t == app('lin2db', x))
            elif f == 'sqrt':
                x = a[0]
                out.append(z3.Implies(x >= 0, z3.And(t >= 0, t * t == x)))
        # monotonicity, pairwise
        for f in list(work.keys()):
            items = list(work[f].values())
            if len(items) > 14 and focus is not None:
                # many applications (sum witnesses, several channels): pair only those of the goal / path condition
                items = [it_ for it_ in items if it_[1].get_id() in focus][:24]
            if f in EXPLIKE or f in ('sqrt', 'arcsinh'):
                for i in range(len(items)):
                    for j in range(i + 1, len(items)):
                        key = (f, items[i][1].get_id(), items[j][1].get_id())
                        if key in seen:
                            continue
                        seen.add(key)
                        x, y = items[i][0][0], items[j][0][0]
                        tx, ty = items[i][1], items[j][1]
                        if f == 'sqrt':
                            out.append(z3.Implies(z3.And(x >= 0, y >= 0), (x < y) == (tx < ty)))
                        else:
                            out.append((x < y) == (tx < ty))
                            out.append((x == y) == (tx == ty))
            elif f in LOGLIKE:
                for i in range(len(items)):
                    for j in range(i + 1, len(items)):
                        key = (f, items[i][1].get_id(), items[j][1].get_id())
                        if key in seen:
                            continue
                        seen.add(key)
                        x, y = items[i][0][0], items[j][0][0]
                        tx, ty = items[i][1], items[j][1]
                        out.append(z3.Implies(z3.And(x > 0, y > 0), z3.And((x < y) == (tx < ty), (x == y) == (tx == ty))))
            if f == 'arcsinh':
                for a, t in items:
                    x = a[0]
                    out.append((x > 0) == (t > 0))
                    out.append((x == 0) == (t == 0))
    out.append(z3.And(LOG10E10 > z3.RealVal('4.3429448'), LOG10E10 < z3.RealVal('4.3429449')))
    out.append(z3.And(z3.Real('PI') > z3.RealVal('3.14159'), z3.Real('PI') < z3.RealVal('3.1416')))
    return out


class Frozen:
    """universal assumption frozen at assume time: template term over bound placeholders.

    Instantiation is trigger based (as in E-matching): a bound variable is instantiated with t only if some
    uninterpreted application f(.., bv, ..) of the template already occurs in the VC as f(.., t, ..)."""

    def __init__(self, ks, tmpl):
        self.ks = ks
        self.tmpl = tmpl
        kid = {k.get_id(): n for n, k in enumerate(ks)}
        self.triggers = [set() for _ in ks]
        self.offsets = [dict() for _ in ks]       # (fname, pos) -> list of ground offsets c for arguments bv + c
        for t in walk([tmpl]):
            if z3.is_app(t) and t.num_args() > 0 and t.decl().kind() == z3.Z3_OP_UNINTERPRETED:
                for pos, a in enumerate(t.children()):
                    if a.get_id() in kid:
                        self.triggers[kid[a.get_id()]].add((t.decl().name(), pos))
                    elif z3.is_add(a):
                        ch = a.children()
                        bvs = [c for c in ch if c.get_id() in kid]
                        rest = [c for c in ch if c.get_id() not in kid]
                        if len(bvs) == 1 and not any(self._mentions(c, kid) for c in rest):
                            off = rest[0] if len(rest) == 1 else z3.Sum(rest)
                            self.offsets[kid[bvs[0].get_id()]].setdefault((t.decl().name(), pos), []).append(off)

    @staticmethod
    def _mentions(t, kid):
        for x in walk([t]):
            if x.get_id() in kid:
                return True
        return False

    def candidates(self, var, occ, all_terms, forced=()):
        trg = self.triggers[var]
        offs = self.offsets[var]
        if not trg and not offs:
            return all_terms
        out = {t.get_id(): t for t in forced}
        for key in trg:
            for t in occ.get(key, ()):
                out[t.get_id()] = t
        for key, cs in offs.items():
            # f(bv + c) in the clause and f(t) in the VC: instantiate bv := t - c
            for t in occ.get(key, ())[:40]:
                for c in cs:
                    x = z3.simplify(t - c)
                    out[x.get_id()] = x
        return list(out.values())


def walk(terms):
    """all sub-terms (DAG, each once)"""
    seen = set()
    stack = list(terms)
    while stack:
        t = stack.pop()
        i = t.get_id()
        if i in seen:
            continue
        seen.add(i)
        yield t
        if z3.is_app(t):
            stack.extend(t.children())
        elif z3.is_quantifier(t):
            stack.append(t.body())


UF_BY_NAME = {f.name(): k for k, f in UF.items()}


_CC = {}          # root ast id -> (root kept alive, idx, apps, occ) : pc formulas recur in every VC of a path
_DK = {}


def _collect_one(root):
    import z3.z3core as zc
    ctx = root.ctx
    cr = ctx.ref()
    idx, apps, occ = [], [], []
    seen = set()
    stack = [root.as_ast()]
    IntS = z3.IntSort()
    while stack:
        a = stack.pop()
        i = zc.Z3_get_ast_id(cr, a)
        if i in seen:
            continue
        seen.add(i)
        k = zc.Z3_get_ast_kind(cr, a)
        if k == z3.Z3_QUANTIFIER_AST:
            stack.append(zc.Z3_get_quantifier_body(cr, a))
            continue
        if k != z3.Z3_APP_AST:
            continue
        app = zc.Z3_to_app(cr, a)
        n = zc.Z3_get_app_num_args(cr, app)
        if n == 0:
            continue
        args = [zc.Z3_get_app_arg(cr, app, q) for q in range(n)]
        stack.extend(args)
        d = zc.Z3_get_app_decl(cr, app)
        if zc.Z3_get_decl_kind(cr, d) != z3.Z3_OP_UNINTERPRETED:
            continue
        t = z3.z3._to_expr_ref(a, ctx)
        nm = t.decl().name()
        if nm in UF_BY_NAME:
            apps.append((UF_BY_NAME[nm], t))
            continue
        for pos, c in enumerate(t.children()):
            if c.sort() == IntS:
                occ.append(((nm, pos), c))
                if not z3.is_int_value(c):
                    idx.append(c)
    return idx, apps, occ


def collect(terms):
    """index terms (Int arguments of uninterpreted functions), their occurrences per (function, position), and
    applications of the modelled real functions"""
    idx = {}
    apps = {}
    occ = {}
    for root in terms:
        rid = root.get_id()
        ent = _CC.get(rid)
        if ent is None:
            ent = (root,) + _collect_one(root)
            if len(_CC) > 20000:
                _CC.clear()
            _CC[rid] = ent
        _r, i1, a1, o1 = ent
        for c in i1:
            idx[c.get_id()] = c
        for f, t in a1:
            apps.setdefault(f, {})[t.get_id()] = (list(t.children()), t)
        for key, c in o1:
            occ.setdefault(key, {})[c.get_id()] = c
    occ = {k: list(v.values()) for k, v in occ.items()}
    return idx, apps, occ


def build_hyps(engine, pc, univ, idx0, apps0, sums, path=None, goal=None, rounds=4, cap=1500):
    """pc + instances of the universal assumptions at every index term + ground axioms of the real functions"""
    base = list(pc)
    extra = []
    if goal is not None:
        extra.append(goal)
    sum_lem = []
    n_pc = len(path.pc) if path is not None else 0
    if sums:
        # only the sums the VC talks about (their constant occurs in the goal or the path condition)
        present = {t.get_id() for t in walk(list(pc) + extra + [u.tmpl for u in univ])}
        sums = [s for s in sums if s.c.get_id() in present]
    for s in sums:
        sum_lem += s.lemmas(engine, path)
    for a in range(len(sums)):
        for b in range(a + 1, len(sums)):
            sum_lem += sums[a].pair_lemmas(sums[b], path)
            for cf in getattr(path, 'sum_scales', []) if path is not None else []:
                sum_lem += sums[a].scale_lemmas(sums[b], path, cf)
                sum_lem += sums[b].scale_lemmas(sums[a], path, cf)
    base += sum_lem
    if path is not None:
        # definitions introduced while the summands were evaluated at their witnesses (named terms, list equalities):
        # conservative, kept for every later VC of the path (element closures are memoised)
        late = path.__dict__.setdefault('late_defs', [])
        if len(path.pc) > n_pc:
            late.extend(path.pc[n_pc:])
        base += late
    import os as _os
    rounds = int(_os.environ.get('PYVC_ROUNDS', rounds))
    inst = []
    done = set()
    forced = list(getattr(path, 'hint_terms', {}).values()) if path is not None else []
    for rnd in range(rounds):
        idx, _apps, occ = collect(base + extra + inst)
        for k, v in idx0.items():
            idx.setdefault(k, v)
        terms = list(idx.values())
        progressed = False
        for u in univ:
            if len(u.ks) == 1:
                for i in u.candidates(0, occ, terms, forced):
                    key = (id(u), i.get_id())
                    if key in done:
                        continue
                    done.add(key)
                    progressed = True
                    inst.append(z3.substitute(u.tmpl, (u.ks[0], i)))
            else:
                c0 = u.candidates(0, occ, terms)
                c1 = u.candidates(1, occ, terms)
                if len(c0) * len(c1) > 900:
                    c0, c1 = c0[:30], c1[:30]
                for i in c0:
                    for j in c1:
                        key = (id(u), i.get_id(), j.get_id())
                        if key in done:
                            continue
                        done.add(key)
                        progressed = True
                        inst.append(z3.substitute(u.tmpl, (u.ks[0], i), (u.ks[1], j)))
        if not progressed or len(inst) > cap:
            break
    hy = base + inst
    _idx, apps, _occ = collect(hy + extra)
    _i2, fapps, _o2 = collect(list(pc) + extra + inst[:60])
    focus = set()
    for f, d in fapps.items():
        focus.update(d.keys())
    hy += uf_axioms(apps, defs=eq_defs(hy + extra), focus=focus)
    sc = engine.all_strconsts()
    if len(sc) > 1:
        hy.append(z3.Distinct(*sc))
    return hy


def ground_atoms(t):
    """ids of the uninterpreted constants / applications occurring in t"""
    out = set()
    for x in walk([t]):
        if z3.is_app(x) and x.decl().kind() == z3.Z3_OP_UNINTERPRETED:
            out.add(x.get_id())
    return out


def cone_of_influence(hyps, goal, steps=2, max_nodes=160):
    small = []
    for h in hyps:
        if sum(1 for _ in zip(range(max_nodes + 1), walk([h]))) <= max_nodes:
            small.append((h, ground_atoms(h)))
    atoms = ground_atoms(goal)
    chosen = {}
    for _ in range(steps):
        new_atoms = set()
        for k, (h, at) in enumerate(small):
            if k not in chosen and at & atoms:
                chosen[k] = h
                new_atoms |= at
        atoms |= new_atoms
    # closed facts without atoms in common (bounds on constants) are cheap: keep the tiny ones
    for k, (h, at) in enumerate(small):
        if k not in chosen and len(at) <= 1:
            chosen[k] = h
    return list(chosen.values())
