"""Python lists of symbolic length (spectrum bitmaps, index lists): a mutable reference holding (length, element closure).

Mutation rebinds the closure inside the same object, so aliasing is visible through object identity exactly as in
Python; `+`, `*`, slicing, list(range()) allocate new objects.  Python's slice clamping and negative-index wrap are
encoded exactly.  Enum members stored in such lists are represented by integer codes (vals.EnumVal.code).
"""
from fractions import Fraction
import z3
from .vals import SV, Opt, Vec, Obj, SList, Forall, Builtin, Unsupported, fresh, EnumVal, EnumSym
from .ops import term, boolterm, mk
from . import models

I = z3.IntSort()


def code(v):
    """element -> z3 Int term"""
    if isinstance(v, EnumVal):
        return z3.IntVal(v.code)
    if isinstance(v, EnumSym):
        return v.t
    if isinstance(v, bool):
        return z3.IntVal(int(v))
    if isinstance(v, int):
        return z3.IntVal(v)
    if isinstance(v, SV) and v.kind == 'int':
        return v.t
    if isinstance(v, Fraction) and v.denominator == 1:
        return z3.IntVal(v.numerator)
    raise Unsupported(f'list element of kind {type(v).__name__} in a symbolic-length list')


def elem(s, t):
    """value of an element term: enum lists hand out symbolic enum members"""
    if getattr(s, 'enum', None):
        return EnumSym(s.enum, z3.simplify(t))
    return mk(t)


def at(s, i):
    """element closure application -> z3 Int term"""
    return s.fn(i)


def new(it, n, fn, label=None, enum=None):
    s = SList(None, z3.simplify(n) if not isinstance(n, int) else z3.IntVal(n), label)
    s.fn = fn
    s.enum = enum
    it.p.alloc.append(s)
    return s


def enum_of(x):
    if isinstance(x, SList):
        return getattr(x, 'enum', None)
    if isinstance(x, (list, tuple)):
        for e in x:
            if isinstance(e, (EnumVal, EnumSym)):
                return e.cls
    if isinstance(x, (EnumVal, EnumSym)):
        return x.cls
    return None


def from_concrete(it, lst):
    items = [code(x) for x in lst]
    en = enum_of(lst)

    def fn(i):
        r = z3.IntVal(0)
        for k in range(len(items) - 1, -1, -1):
            r = z3.If(i == k, items[k], r)
        return z3.simplify(r)
    return new(it, len(items), fn, enum=en)


def as_slist(it, x):
    if isinstance(x, SList):
        return x
    if isinstance(x, (list, tuple)):
        return from_concrete(it, list(x))
    raise Unsupported(f'not a list: {type(x).__name__}')


def imax0(t):
    return z3.If(t > 0, t, 0)


def binop(it, op, a, b):
    if op == 'Add':
        a, b = as_slist(it, a), as_slist(it, b)
        fa, fb, na = a.fn, b.fn, a.n
        return new(it, a.n + b.n, lambda i: z3.If(i < na, fa(i), fb(i - na)), enum=enum_of(a) or enum_of(b))
    if op == 'Mult':
        lst, k = (a, b) if isinstance(a, (SList, list)) else (b, a)
        k = term(k)
        if isinstance(lst, list):
            if len(lst) != 1:
                raise Unsupported('list * symbolic count with more than one element')
            c = code(lst[0])
            return new(it, imax0(k), lambda i: c, enum=enum_of(lst))
        raise Unsupported('symbolic list * count')
    raise Unsupported(f'list operator {op}')


def list_times(it, lst, k):
    return binop(it, 'Mult', lst, k)


def srange_list(it, r):
    lo, hi = term(r.lo), term(r.hi)
    return new(it, imax0(hi - lo), lambda i: lo + i)


def copy(it, s):
    f = s.fn
    return new(it, s.n, lambda i: f(i), enum=enum_of(s))


def norm_index(it, s, i):
    """python index semantics: negative wraps once; IndexError outside"""
    p = it.p
    t = term(i)
    n = s.n
    if p.spec_mode:
        return z3.simplify(t)        # specifications index with non-negative positions only (no wrap)
    if not p.truth(mk(z3.And(t >= -n, t < n))):
        raise p.pyexc('IndexError')
    j = z3.simplify(t + n) if p.truth(mk(t < 0)) else z3.simplify(t)
    p.note_idx(j)
    return j


def getitem(it, s, i):
    if isinstance(i, tuple) and i and i[0] == 'slice':
        return getslice(it, s, i)
    if isinstance(i, slice):
        return getslice(it, s, ('slice', i.start, i.stop, i.step))
    j = norm_index(it, s, i)
    return elem(s, s.fn(j))


def clamp_bounds(s, lo, hi):
    n = s.n
    if lo is None:
        l = z3.IntVal(0)
    else:
        t = term(lo)
        t = z3.If(t < 0, t + n, t)
        l = z3.If(t < 0, 0, z3.If(t > n, n, t))
    if hi is None:
        h = n
    else:
        t = term(hi)
        t = z3.If(t < 0, t + n, t)
        h = z3.If(t < 0, 0, z3.If(t > n, n, t))
    return z3.simplify(l), z3.simplify(h)


def getslice(it, s, sl):
    _, lo, hi, st = sl if isinstance(sl, tuple) else ('slice', sl.start, sl.stop, sl.step)
    if st not in (None, 1):
        raise Unsupported('list slice with step')
    l, h = clamp_bounds(s, lo, hi)
    f = s.fn
    return new(it, imax0(h - l), lambda i: f(i + l), enum=enum_of(s))


def setitem(it, s, key, v):
    p = it.p
    if isinstance(key, slice):
        key = ('slice', key.start, key.stop, key.step)
    if isinstance(key, tuple) and key and key[0] == 'slice':
        _, lo, hi, st = key
        if st not in (None, 1):
            raise Unsupported('slice assignment with step')
        l, h = clamp_bounds(s, lo, hi)
        h = z3.simplify(z3.If(h < l, l, h))          # python: a[l:h] with h < l inserts at l
        nv = as_slist(it, v)
        f, g, m, n = s.fn, nv.fn, nv.n, s.n
        s.n = z3.simplify(n - (h - l) + m)
        s.fn = lambda i: z3.If(i < l, f(i), z3.If(i < l + m, g(i - l), f(i - m + (h - l))))
        return
    j = norm_index(it, s, key)
    f = s.fn
    c = code(v)
    s.fn = lambda i: z3.If(i == j, c, f(i))


def list_eq(it, a, b):
    """a == b for lists: fresh Bool with its definition (both polarities usable without quantifier alternation)"""
    p = it.p
    a, b = as_slist(it, a), as_slist(it, b)
    fa, fb, na, nb = a.fn, b.fn, a.n, b.n
    e = p.fresh_def('leq', z3.BoolSort())
    w = p.fresh_def('w', I)
    p.note_idx(w)
    p.assume(z3.Implies(e, na == nb))
    p.assume(Forall(0, SV(na), lambda i: mk(z3.Implies(e, fa(i.t) == fb(i.t)))))
    p.assume(z3.Implies(z3.Not(e), z3.Or(na != nb, z3.And(0 <= w, w < na, fa(w) != fb(w)))))
    return SV(e)


def compare(it, op, a, b):
    if op == 'Eq':
        return list_eq(it, a, b)
    if op == 'NotEq':
        return it.ops.lnot(list_eq(it, a, b))
    raise Unsupported(f'list comparison {op}')


def contains(it, s, x):
    p = it.p
    c = code(x)
    f, n = s.fn, s.n
    e = p.fresh_def('lin', z3.BoolSort())
    w = p.fresh_def('w', I)
    p.note_idx(w)
    p.assume(z3.Implies(e, z3.And(0 <= w, w < n, f(w) == c)))
    p.assume(Forall(0, SV(n), lambda i: mk(z3.Implies(z3.Not(e), f(i.t) != c))))
    return SV(e)


def index_of(it, s, x):
    """list.index(x): the first position holding x, ValueError if there is none"""
    p = it.p
    c = code(x)
    f, n = s.fn, s.n
    found = contains(it, s, x)
    if not p.truth(found):
        raise p.pyexc('ValueError')
    r = p.fresh_def('idx', I)
    p.note_idx(r)
    p.assume(z3.And(0 <= r, r < n, f(r) == c))
    p.assume(Forall(0, SV(r), lambda i: mk(f(i.t) != c)))
    return SV(r)


def method(it, s, name):
    p = it.p
    if name == 'index':
        return Builtin('list.index', lambda it2, a, k: index_of(it2, s, a[0]))
    if name == 'append':
        def app(it2, a, k):
            f, n = s.fn, s.n
            c = code(a[0])
            s.fn = lambda i: z3.If(i == n, c, f(i))
            s.n = z3.simplify(n + 1)
        return Builtin('list.append', app)
    if name == 'copy':
        return Builtin('list.copy', lambda it2, a, k: copy(it2, s))
    if name == 'count':
        raise Unsupported('list.count on symbolic list')
    return NotImplemented


class FiltList:
    """[elt(i) for i in range(n) if cond(i)] over a symbolic range: only emptiness, first and last are observable"""

    def __init__(self, it, lo, hi, cond, elt):
        self.lo, self.hi, self.cond, self.elt = lo, hi, cond, elt
        self._nonempty = None
        self._first = None
        self._last = None

    def nonempty(self, it):
        if self._nonempty is None:
            p = it.p
            e = p.fresh_def('cand', z3.BoolSort())
            w = p.fresh_def('w', I)
            p.note_idx(w)
            lo, hi = term(self.lo), term(self.hi)
            p.assume(z3.Implies(e, z3.And(lo <= w, w < hi, boolterm(self.cond(SV(w))))))
            p.assume(Forall(self.lo, self.hi, lambda i: mk(z3.Implies(z3.Not(e), z3.Not(boolterm(self.cond(i)))))))
            self._nonempty = SV(e)
        return self._nonempty

    def pick(self, it, first):
        p = it.p
        if not p.truth(self.nonempty(it)):
            raise p.pyexc('IndexError')
        attr = '_first' if first else '_last'
        if getattr(self, attr) is None:
            r = p.fresh_def('first' if first else 'last', I)
            p.note_idx(r)
            lo, hi = term(self.lo), term(self.hi)
            p.assume(z3.And(lo <= r, r < hi, boolterm(self.cond(SV(r)))))
            if first:
                p.assume(Forall(self.lo, SV(r), lambda i: mk(z3.Not(boolterm(self.cond(i))))))
            else:
                p.assume(Forall(SV(r + 1), self.hi, lambda i: mk(z3.Not(boolterm(self.cond(i))))))
            setattr(self, attr, self.elt(SV(r)))
        return getattr(self, attr)

    def getitem(self, it, idx):
        if idx == 0:
            return self.pick(it, True)
        if idx == -1:
            return self.pick(it, False)
        raise Unsupported('filtered comprehension: only [0] and [-1] are modelled')


def install():
    models.slist_setitem = setitem
    models.slist_binop = binop
    models.slist_compare = compare
    models.slist_contains = contains
    models.slist_getitem = getitem
    models.slist_slice = getslice
    models.slist_range = srange_list
    models.slist_copy = copy
    models.slist_method = method


install()
