"""Builders for symbolic inputs ("types" of the sidecar contracts).

A builder is a callable (bctx, label) -> value.  It also records a *recipe* so that a counter-model can be turned
into a native python object for replay.
"""
import z3
from .vals import SV, Opt, Vec, Obj, SList, StrS, Forall
from .ops import mk

I = z3.IntSort()
R = z3.RealSort()
B = z3.BoolSort()


class BCtx:
    def __init__(self, path, tag=''):
        self.path = path
        self.tag = tag
        self.recipes = {}
        self.eval_expr = None

    def sym(self, label, sort):
        return z3.Const(f'{self.tag}{label}', sort)


def real(lo=None, hi=None):
    def b(c, label):
        t = c.sym(label, R)
        if lo is not None:
            c.path.pc.append(t >= lo)
        if hi is not None:
            c.path.pc.append(t <= hi)
        return SV(t)
    b.recipe = ('real',)
    return b


def integer(lo=None, hi=None):
    def b(c, label):
        t = c.sym(label, I)
        if lo is not None:
            c.path.pc.append(t >= lo)
        if hi is not None:
            c.path.pc.append(t <= hi)
        return SV(t)
    b.recipe = ('int',)
    return b


def boolean():
    def b(c, label):
        return SV(c.sym(label, B))
    b.recipe = ('bool',)
    return b


def string():
    def b(c, label):
        return SV(c.sym(label, StrS))
    b.recipe = ('str',)
    return b


def const(v):
    def b(c, label):
        return v
    b.recipe = ('const', v)
    return b


def opt(inner):
    def b(c, label):
        return Opt(c.sym(label + '?none', B), inner(c, label))
    b.recipe = ('opt', inner)
    return b


def vec(dim, kind='real', lo=1):
    """numpy 1-D array of symbolic length dim (shared between all vec(dim))"""
    sort = {'real': R, 'int': I, 'bool': B, 'str': StrS}[kind]

    def b(c, label):
        n = c.path.new_dim(dim, lo)
        f = z3.Function(f'{c.tag}{label}', I, sort)
        v = Vec(n, lambda i: SV(f(i if not isinstance(i, int) else z3.IntVal(i))), name=label)
        v._kind = kind
        v._input = (f, dim)
        return v
    b.recipe = ('vec', dim, kind)
    return b


def obj(cls, **fields):
    def b(c, label):
        o = Obj(cls, {}, label=label)
        for k, fb in fields.items():
            o.fields[k] = fb(c, f'{label}.{k}')
        return o
    b.recipe = ('obj', cls, fields)
    b.fields = fields
    b.cls = cls
    return b


def extend(base, **more):
    f = dict(base.fields)
    f.update(more)
    return obj(base.cls, **f)


def lst(*items):
    def b(c, label):
        return [ib(c, f'{label}[{k}]') for k, ib in enumerate(items)]
    b.recipe = ('list', items)
    return b


def tup(*items):
    def b(c, label):
        return tuple(ib(c, f'{label}[{k}]') for k, ib in enumerate(items))
    b.recipe = ('tuple', items)
    return b


def dct(**items):
    def b(c, label):
        return {k: ib(c, f'{label}[{k}]') for k, ib in items.items()}
    b.recipe = ('dict', items)
    return b


def dct_k(items):
    """dict with arbitrary (string) keys given as a python dict"""
    def b(c, label):
        return {k: ib(c, f'{label}[{k}]') for k, ib in items.items()}
    b.recipe = ('dict', items)
    return b


def ilist(dim, lo=0, enum=None):
    """python list of ints (or members of the Enum class `enum`, as integer codes) of symbolic length"""
    def b(c, label):
        n = c.path.new_dim(dim, lo)
        f = z3.Function(f'{c.tag}{label}', I, I)
        s = SList(None, n, label=label)
        s.fn = lambda i: f(i)
        s._input = dim
        s.enum = enum
        return s
    b.recipe = ('ilist', dim)
    return b


def shared(key, inner):
    """the same object under several parameters (aliasing on purpose)"""
    def b(c, label):
        if key not in c.recipes:
            c.recipes[key] = inner(c, key)
        return c.recipes[key]
    b.recipe = ('shared', key, inner)
    return b


def vec_len(len_expr, kind='real'):
    """fresh array whose length is the value of a spec expression in the call environment (constructor outputs)"""
    sort = {'real': R, 'int': I, 'bool': B, 'str': StrS}[kind]

    def b(c, label):
        from .vals import fresh_fun
        from .ops import term
        n = c.eval_expr(len_expr)
        n = n if isinstance(n, int) else term(n)
        f = fresh_fun(f'{c.tag}{label}', I, sort)
        v = Vec(n, lambda i: SV(f(i if not isinstance(i, int) else z3.IntVal(i))), name=label)
        v._kind = kind
        return v
    b.recipe = ('vec_len', len_expr, kind)
    return b


def expr(e):
    """value of a spec expression in the call environment"""
    def b(c, label):
        return c.eval_expr(e)
    b.recipe = ('expr', e)
    return b


def mat_len(len_expr):
    def b(c, label):
        from .vals import fresh_fun, Mat
        from .ops import term
        n = c.eval_expr(len_expr)
        n = n if isinstance(n, int) else term(n)
        f = fresh_fun(f'{c.tag}{label}', I, I, R)
        return Mat(n, n, lambda i, j: SV(f(i if not isinstance(i, int) else z3.IntVal(i),
                                           j if not isinstance(j, int) else z3.IntVal(j))))
    b.recipe = ('mat_len', len_expr)
    return b


def sdict(kind='real'):
    """dict: arbitrary string keys -> values of one sort (membership symbolic)"""
    sort = {'real': R, 'int': I, 'bool': B, 'str': StrS}[kind]

    def b(c, label):
        from .models import SDict
        has = z3.Function(f'{c.tag}{label}?has', StrS, B)
        get = z3.Function(f'{c.tag}{label}', StrS, sort)
        return SDict(has, get, label=label)
    b.recipe = ('sdict', kind)
    return b


def mat(dim, lo=1):
    """square real matrix dim x dim"""
    def b(c, label):
        from .vals import Mat
        n = c.path.new_dim(dim, lo)
        f = z3.Function(f'{c.tag}{label}', I, I, R)
        return Mat(n, n, lambda i, j: SV(f(i if not isinstance(i, int) else z3.IntVal(i),
                                           j if not isinstance(j, int) else z3.IntVal(j))))
    b.recipe = ('mat', dim)
    return b


def mat_dims(rows_expr, cols_dim, lo=1):
    """real matrix: rows = value of a spec expression, columns = dimension name"""
    def b(c, label):
        from .vals import fresh_fun, Mat
        from .ops import term
        n = c.eval_expr(rows_expr)
        n = n if isinstance(n, int) else term(n)
        m = c.path.new_dim(cols_dim, lo)
        f = fresh_fun(f'{c.tag}{label}', I, I, R)
        return Mat(n, m, lambda i, j: SV(f(i if not isinstance(i, int) else z3.IntVal(i),
                                           j if not isinstance(j, int) else z3.IntVal(j))))
    b.recipe = ('mat_dims', rows_expr, cols_dim)
    return b


def vec1(kind='real'):
    """numpy array with exactly one element"""
    sort = {'real': R, 'int': I, 'bool': B, 'str': StrS}[kind]

    def b(c, label):
        t = c.sym(label, sort)
        v = Vec(1, lambda i: SV(t), name=label)
        v._kind = kind
        return v
    b.recipe = ('vec1', kind)
    return b
