"""./check driver: runs the contracts (and bounded stand-ins) of one property, writes evidence, prints verdicts.

Exit codes: 0 held; 1 violation (VIOLATION lines printed); 2 undecided; 3 checker error / vacuity failure.
"""
import argparse
import hashlib
import importlib
import json
import multiprocessing as mp
import os
import subprocess
import sys
import time
import traceback

ROOT = os.path.dirname(os.path.dirname(os.path.abspath(__file__)))
# where evidence/ and replays/ are written: /verif itself, or a scratch directory when a tool runs a check against a
# deliberately modified copy of the repository (tools/trymut.py, tools/seed_matrix.py)
OUT = os.environ.get('PYVC_OUT', ROOT)
sys.path.insert(0, ROOT)
REPO = os.environ.get('PYVC_REPO', '/repo')
NATIVE_PY = '/venv/bin/python'

IDEALISATIONS = [
    'extraction drops: docstrings, type annotations, logging/print/warnings calls, the text of exception messages '
    '(exception class kept), statements listed under coverage.dropped_statements',
    'machine arithmetic treated as mathematical: float = exact real, int = unbounded integer; IEEE rounding, overflow, '
    'NaN not modelled (counter-models are replayed natively for this reason)',
    'numpy arrays are immutable mathematical vectors (length + element function): dtype, views and in-place aliasing '
    'are not modelled; in-place operators rebind',
    'termination is not proved (partial correctness); for-loops over finite sequences terminate',
    'python semantics assumed: attribute lookup resolves through the class hierarchy scanned from /repo, no '
    'monkey-patching, dict order = insertion order, exceptions carry their class only',
    'third-party functions (numpy, scipy, networkx, copy.deepcopy, collections.OrderedDict.fromkeys over heap objects whose '
    'class defines no __eq__ / __hash__: first occurrence kept, order kept; builtins sorted/min/max/round) are assumed to '
    'satisfy the contracts in pyvc/models.py; db2lin/lin2db/exp/log/sqrt/arcsinh are uninterpreted real functions '
    'with ground instances of the axioms in pyvc/axioms.py (theorems of real analysis, see lemmas/)',
]


def load_registry():
    from contracts import common
    for m in sorted(os.listdir(os.path.join(ROOT, 'contracts'))):
        if m.startswith('c_') and m.endswith('.py'):
            importlib.import_module('contracts.' + m[:-3])
    return common


def _work(args):
    name, tier, vc_timeout = args
    try:
        common = load_registry()
        from pyvc.engine import Engine
        reg = {}
        for c in common.REG:
            if c.use_at_calls:
                reg.setdefault(c.qual, c)
        c = [x for x in common.REG if x.name == name][0]
        e = Engine(reg, vc_timeout_s=(c.timeout_s or vc_timeout), tier=tier)
        r = e.verify(c)
        return r
    except Exception as ex:            # checker crash: never a violation
        return {'contract': name, 'status': 'crash', 'reason': f'{type(ex).__name__}: {ex}',
                'trace': traceback.format_exc()[-3000:], 'vcs': [], 'paths': 0, 'wall_s': 0}


def run_contracts(names, tier, vc_timeout, jobs):
    tasks = [(n, tier, vc_timeout) for n in names]
    if not tasks:
        return []
    ctx = mp.get_context('fork')
    with ctx.Pool(min(jobs, len(tasks))) as pool:
        return pool.map(_work, tasks, chunksize=1)


def known_findings():
    p = os.path.join(ROOT, 'known_findings.json')
    if not os.path.exists(p):
        return []
    return json.load(open(p)).get('findings', [])


def main(argv=None):
    ap = argparse.ArgumentParser()
    ap.add_argument('prop')
    ap.add_argument('--tier', default=os.environ.get('VERIF_TIER', 'quick'))
    ap.add_argument('--replay')
    ap.add_argument('--jobs', type=int, default=int(os.environ.get('PYVC_JOBS', '16')))
    ap.add_argument('--only')
    a = ap.parse_args(argv)
    if a.replay:
        from pyvc import replay
        return replay.main_replay(a.replay)
    t0 = time.time()
    seed = int(os.environ.get('VERIF_SEED', '0') or 0)
    tier = a.tier if a.tier in ('quick', 'thorough') else 'quick'
    vc_timeout = 10 if tier == 'quick' else 60
    common = load_registry()
    from contracts import props
    spec = props.PROPS[a.prop]
    names = [c.name for c in common.REG if a.prop in c.props]
    if a.only:
        names = [n for n in names if a.only in n]
    results = run_contracts(names, tier, vc_timeout, a.jobs)
    # extra (bounded / syntactic) checks
    extra = []
    for ex in spec.get('extra', []):
        if a.only and a.only not in ex['name']:
            continue
        extra.append(run_extra(a.prop, ex, tier, seed))
    return report(a.prop, spec, tier, seed, results, extra, t0, common, partial=bool(a.only))


def run_extra(prop, ex, tier, seed):
    """bounded stand-ins and syntactic obligations: separate native process, JSON on stdout's last line"""
    t0 = time.time()
    cmd = [NATIVE_PY if ex.get('native', True) else sys.executable, os.path.join(ROOT, ex['script'])] + \
        [str(x) for x in ex.get('args', [])] + ['--tier', tier, '--seed', str(seed)]
    env = dict(os.environ, PYTHONPATH=f'{REPO}:{ROOT}', PYVC_REPO=REPO)
    try:
        pr = subprocess.run(cmd, capture_output=True, text=True, timeout=ex.get('timeout', 900 if tier == 'quick' else 3600),
                            env=env, cwd=ROOT)
        lines = [l for l in pr.stdout.strip().splitlines() if l.startswith('{')]
        if not lines:
            tb = pr.stderr.strip().splitlines()
            frames = [l.strip() for l in tb if l.strip().startswith('File "')]
            in_repo = bool(frames) and (os.path.join(REPO, 'gnpy') + os.sep) in frames[-1]
            if in_repo:
                # the stand-in feeds inputs of its family to the real pipeline, which raised inside the code under test:
                # on the unchanged tree the same run completes, so this is reported as a violation with the exception as
                # witness (a crash of the stand-in's own code stays a checker error)
                exc = tb[-1][:300] if tb else 'exception'
                return {'name': ex['name'], 'kind': ex['kind'], 'status': 'violated', 'script': ex['script'], 'cases': 0,
                        'bound': 'stopped at the first exception', 'function': frames[-1][:200],
                        'witnesses': [{'key': 'exception-in-code-under-test:' + exc.split(':')[0],
                                       'problems': [exc] + frames[-3:]}], 'wall_s': time.time() - t0}
            return {'name': ex['name'], 'kind': ex['kind'], 'status': 'crash', 'detail': (pr.stdout + pr.stderr)[-2000:],
                    'wall_s': time.time() - t0}
        r = json.loads(lines[-1])
        r.setdefault('name', ex['name'])
        r.setdefault('kind', ex['kind'])
        r['wall_s'] = round(time.time() - t0, 2)
        return r
    except subprocess.TimeoutExpired:
        return {'name': ex['name'], 'kind': ex['kind'], 'status': 'undecided', 'detail': 'timeout', 'wall_s': time.time() - t0}


def write_replay(prop, fn_result, vc):
    d = os.path.join(OUT, 'replays', prop)
    os.makedirs(d, exist_ok=True)
    safe = ''.join(ch if ch.isalnum() or ch in '._-' else '_' for ch in vc['name'])[:150]
    p = os.path.join(d, safe + '.json')
    json.dump({'property': prop, 'obligation': vc['name'], 'function': fn_result.get('qual'),
               'contract': fn_result.get('contract'), 'file': fn_result.get('file'), 'line': fn_result.get('line'),
               'kind': vc['kind'], 'backend': vc['backend'], 'clause': (vc.get('detail') or {}).get('clause'),
               'solver_goal': (vc.get('detail') or {}).get('goal'), 'counter_model': vc.get('model'),
               'spec': fn_result.get('replay_info', {}).get('spec'), 'let': fn_result.get('replay_info', {}).get('let'),
               'requires': fn_result.get('replay_info', {}).get('requires'),
               'harness': fn_result.get('replay_info', {}).get('harness'),
               'module': fn_result.get('replay_info', {}).get('module'),
               'native_patches': fn_result.get('replay_info', {}).get('native_patches'),
               'loop': fn_result.get('replay_info', {}).get('loop'), 'params': fn_result.get('replay_info', {}).get('params'),
               'repo': REPO}, open(p, 'w'), indent=1)
    return p


def report(prop, spec, tier, seed, results, extra, t0, common, partial=False):
    from pyvc import replay
    kf = [k for k in known_findings() if k.get('property') == prop and k.get('status') == 'known']
    violations = []
    known_hit = []
    undecided = []
    crashes = []
    n_ob = n_dis = 0
    by_backend = {}
    solver_time = 0.0
    fns = []
    samples = []
    vac = 0
    dropped = []
    for r in results:
        if r['status'] == 'crash':
            crashes.append(f"{r['contract']}: {r['reason']}")
            continue
        fns.append({'contract': r['contract'], 'function': r.get('qual'), 'file': r.get('file'), 'line': r.get('line'),
                    'sha256': r.get('sha256'), 'paths': r['paths'], 'status': r['status'], 'wall_s': r['wall_s']})
        for d in r.get('dropped', []):
            dropped.append({'function': d[0], 'statement_prefix': d[1], 'reason': d[2]})
        if r['status'] == 'vacuous':
            crashes.append(f"{r['contract']}: no obligation generated (vacuity guard)")
        if r.get('reason'):
            undecided.append(f"{r['contract']}: {r['reason']}")
        only = (r.get('prop_clauses') or {}).get(prop)
        for v in r['vcs']:
            if only is not None and v['kind'] not in ('vacuity', 'note', 'translate'):
                clause = v['name'].split('#', 1)[-1].split('@')[0]
                # (call-site preconditions inside the function are kept under every property the contract serves)
                if not clause.startswith('call ') and not any(clause.startswith(pfx) for pfx in only):
                    continue          # a clause of this shared contract that another property rests on, not this one
            if v['kind'] == 'vacuity':
                vac += 1
                if v['status'] != 'unsat':
                    crashes.append(f"{v['name']}: precondition not satisfiable ({v['detail']})")
                continue
            if v['kind'] == 'note':
                continue
            if v['kind'] == 'translate':
                undecided.append(f"{v['name']}: {str(v['detail'])[:300]}")
                continue
            n_ob += 1
            solver_time += v['time_s']
            if v['status'] == 'unsat':
                n_dis += 1
                by_backend[v['backend']] = by_backend.get(v['backend'], 0) + 1
                if len(samples) < 6 and v['backend'] != 'simplify':
                    samples.append({'obligation': v['name'], 'kind': v['kind'], 'backend': v['backend'],
                                    'time_s': v['time_s'], 'terms': v['smt_size']})
            elif v['status'] == 'sat':
                base = v['name'].split('@')[0]
                hit = [k for k in kf if k.get('obligation') and k['obligation'] in base]
                if hit:
                    known_hit.append((hit[0], v))
                    n_ob -= 1
                else:
                    p = write_replay(prop, r, v)
                    violations.append((v, p, r))
            else:
                undecided.append(f"{v['name']}: solver answered unknown on all back ends")
    bounded = []
    for ex in extra:
        st = ex.get('status')
        bounded.append({k: ex.get(k) for k in ('name', 'kind', 'status', 'bound', 'cases', 'function', 'wall_s', 'detail',
                                               'nontrivial') if k in ex})
        if st == 'crash':
            crashes.append(f"{ex['name']}: {str(ex.get('detail'))[:500]}")
        elif st == 'undecided':
            undecided.append(f"{ex['name']}: {ex.get('detail')}")
        elif st == 'violated':
            for w in ex.get('witnesses', [])[:5]:
                hit = [k for k in kf if k.get('witness_key') and k['witness_key'] == w.get('key')]
                if hit:
                    known_hit.append((hit[0], {'name': ex['name'] + ':' + str(w.get('key'))}))
                    continue
                d = os.path.join(OUT, 'replays', prop)
                os.makedirs(d, exist_ok=True)
                p = os.path.join(d, ''.join(ch if ch.isalnum() or ch in '._-' else '_' for ch in f"{ex['name']}_{w.get('key')}")[:150] + '.json')
                json.dump({'property': prop, 'obligation': ex['name'], 'kind': ex['kind'], 'witness': w,
                           'replay_script': ex.get('script')}, open(p, 'w'), indent=1)
                violations.append(({'name': ex['name'], 'kind': ex['kind'], 'native': True}, p, None))
    # replay counter-models natively
    out_lines = []
    for v, p, r in violations:
        if v.get('native'):
            out_lines.append(f'VIOLATION property={prop} replay={os.path.relpath(p, OUT)}')
            continue
        rr = replay.try_replay(p)
        if rr == 'reproduced':
            out_lines.append(f'VIOLATION property={prop} replay={os.path.relpath(p, OUT)}')
        else:
            out_lines.append(f'VIOLATION property={prop} replay={os.path.relpath(p, OUT)} no-failing-input-found')
    for k, v in known_hit:
        print(f"KNOWN-FINDING: property={prop} {k.get('what', k.get('obligation'))}")
    for l in out_lines:
        print(l)
    for u in undecided:
        print('UNDECIDED:', u[:400])
    for c in crashes:
        print('CHECKER-ERROR:', c[:600])
    level = spec.get('level', 'proof')
    cov = {
        'obligations': n_ob, 'discharged': n_dis,
        'checker_cmd': f'./check {prop} --tier {tier}',
        'trusted_base': spec.get('trusted', []) + ['pyvc (this verifier: /verif/pyvc, ast -> z3 symbolic execution)',
                                                    'z3 5.1.0 (python), /usr/bin/z3 4.8.12, /usr/bin/cvc5 1.0.3'],
        'functions_under_contract': fns,
        'by_backend': by_backend, 'solver_time_s': round(solver_time, 3),
        'undecided': undecided, 'vacuity_checks': vac, 'bounded': bounded,
        'dropped_statements': dropped,
        'known_findings_hit': [k.get('id') for k, _ in known_hit],
        'samples': samples or [{'note': 'no solver-discharged obligation in this run'}],
        'explanation': spec.get('explanation') or (spec.get('claim', '') + '  ||  LIMITS: ' + spec.get('level_note', '')),
        'not_claimed': spec.get('not_claimed', []),
    }
    ev = {'property_id': prop, 'tier': tier, 'seed': seed, 'level': level, 'coverage': cov,
          'assumptions': IDEALISATIONS + spec.get('assumptions', []),
          'wall_s': round(time.time() - t0, 2), 'violations': len(out_lines)}
    os.makedirs(os.path.join(OUT, 'evidence'), exist_ok=True)
    # a run restricted with --only (development aid) does not replace the evidence of the full check
    json.dump(ev, open(os.path.join(OUT, 'evidence', f'{prop}.json' if not partial else f'.partial_{prop}.json'), 'w'), indent=1)
    print(f'{prop}: {n_dis}/{n_ob} obligations discharged, {len(fns)} contracts, {len(bounded)} bounded/syntactic checks, '
          f'{len(out_lines)} violations, {len(undecided)} undecided, {len(crashes)} checker errors, '
          f'{ev["wall_s"]}s')
    if crashes:
        return 3
    if out_lines:
        return 1
    if undecided:
        return 2
    if n_ob == 0:
        print('CHECKER-ERROR: zero obligations')
        return 3
    return 0


if __name__ == '__main__':
    sys.exit(main())
