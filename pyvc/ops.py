"""Arithmetic / comparison semantics over the value domain (exact reals, mathematical ints, numpy broadcasting)."""
from fractions import Fraction
import z3
from .vals import PySet, SV, Opt, Inf, Vec, Mat, Unsupported, is_num, z3num, StrS, fresh, to_frac, EnumVal, EnumSym

R = z3.RealSort()
I = z3.IntSort()

# uninterpreted real functions; axioms are instantiated per VC in axioms.py
UF = {
    'db2lin': z3.Function('db2lin', R, R),
    'lin2db': z3.Function('lin2db', R, R),
    'sqrt': z3.Function('sqrt', R, R),
    'exp': z3.Function('exp', R, R),
    'log': z3.Function('log', R, R),
    'log10': z3.Function('log10', R, R),
    'arcsinh': z3.Function('arcsinh', R, R),
    'pow': z3.Function('pow', R, R, R),
    'polyval': z3.Function('polyval', I, R, R),
    'interp': z3.Function('interp', I, R, R),
    'cos': z3.Function('cos', R, R),
}


def term(x, real=False):
    """python number / SV -> z3 arithmetic term"""
    if isinstance(x, SV):
        t = x.t
        if real and t.sort() == I:
            return z3.ToReal(t)
        if t.sort() == z3.BoolSort() :
            t = z3.If(t, z3.IntVal(1), z3.IntVal(0))
            return z3.ToReal(t) if real else t
        return t
    if isinstance(x, bool):
        return z3.RealVal(int(x)) if real else z3.IntVal(int(x))
    if is_num(x):
        return z3num(x, real or isinstance(x, Fraction))
    if isinstance(x, float):
        return term(to_frac(x), real)
    if isinstance(x, z3.ExprRef):
        return term(SV(x), real)
    raise Unsupported(f'not a number: {x!r}')


def is_real(x):
    if isinstance(x, SV):
        return x.t.sort() == R
    return isinstance(x, Fraction)


ZERO_DIV_CHECK = True


def is_scalar(x):
    return isinstance(x, (SV, int, Fraction, bool)) or isinstance(x, float)


def boolterm(x):
    if isinstance(x, SV):
        if x.t.sort() == z3.BoolSort():
            return x.t
        if x.t.sort() in (I, R):
            return x.t != 0
        raise Unsupported('truthiness of string-sorted term')
    if isinstance(x, (bool, int, Fraction)):
        return z3.BoolVal(bool(x))
    if isinstance(x, z3.ExprRef):
        return boolterm(SV(x))
    raise Unsupported(f'boolterm {x!r}')


def simp(t):
    return z3.simplify(t)


def mk(t):
    """wrap a z3 term, folding constants back to python numbers where possible"""
    t = z3.simplify(t)
    if z3.is_int_value(t):
        return t.as_long()
    if z3.is_rational_value(t):
        return Fraction(t.numerator_as_long(), t.denominator_as_long())
    if z3.is_true(t):
        return True
    if z3.is_false(t):
        return False
    return SV(t)


class Ops:
    """needs the path context to register uninterpreted applications"""

    def __init__(self, ctx):
        self.ctx = ctx

    # ---- scalar helpers
    def uf(self, name, *args):
        f = UF[name]
        args = [self.ctx.unwrap(a) if isinstance(a, Opt) else a for a in args]
        targs = [term(a, real=(f.domain(k) == R)) for k, a in enumerate(args)]
        t = f(*targs)
        self.ctx.note_app(name, targs, t)
        return SV(t)

    def binop(self, op, a, b, elementwise=False):
        a = to_frac(a) if isinstance(a, float) else a
        b = to_frac(b) if isinstance(b, float) else b
        # None arithmetic
        if a is None or b is None:
            if self.ctx.spec_mode:
                # inside a specification the term is guarded by the author (implies(x is not None, ...)); an
                # unguarded use proves nothing because the value is arbitrary
                return SV(fresh('undef', R))
            raise self.ctx.pyexc('TypeError')
        if isinstance(a, Opt):
            a = self.ctx.unwrap(a)
        if isinstance(b, Opt):
            b = self.ctx.unwrap(b)
        if isinstance(a, (Vec, Mat)) or isinstance(b, (Vec, Mat)):
            return self.broadcast(lambda x, y: self.binop(op, x, y, True), a, b)
        if isinstance(a, Inf) or isinstance(b, Inf):
            return self.inf_arith(op, a, b)
        if isinstance(a, str) and isinstance(b, str) and op == 'Add':
            return a + b
        if op == 'Add' and (isinstance(a, str) or (isinstance(a, SV) and a.kind == 'str')) \
                and (isinstance(b, str) or (isinstance(b, SV) and b.kind == 'str')):
            return self.ctx.engine.fstring_value(self.ctx, [a, b])       # string concatenation
        if isinstance(a, (list, tuple)) and isinstance(b, (list, tuple)) and op == 'Add':
            return a + b
        if isinstance(a, list) and op == 'Mult' and isinstance(b, int):
            return a * b
        if isinstance(b, list) and op == 'Mult' and isinstance(a, int):
            return b * a
        if isinstance(a, str) and op == 'Mod':
            return self.ctx.opaque_str()
        if not (is_scalar(a) and is_scalar(b)):
            raise Unsupported(f'binop {op} on {type(a).__name__},{type(b).__name__}')
        conc = not isinstance(a, SV) and not isinstance(b, SV)
        if conc:
            return self.conc_binop(op, a, b)
        real = is_real(a) or is_real(b) or op in ('Div',)
        ta, tb = term(a, real), term(b, real)
        if op == 'Add':
            return mk(ta + tb)
        if op == 'Sub':
            return mk(ta - tb)
        if op == 'Mult':
            return mk(ta * tb)
        if op in ('Div', 'FloorDiv', 'Mod') and not elementwise and not self.ctx.spec_mode and ZERO_DIV_CHECK:
            # python scalars: x / 0 raises (numpy arrays give inf with a warning: element-wise divisions are total here);
            # the zero case is a path of its own, so 'no undeclared exception' needs a precondition excluding it
            if self.ctx.truth(mk(tb == 0)):
                raise self.ctx.pyexc('ZeroDivisionError')
        if op == 'Div':
            return mk(ta / tb)
        if op == 'FloorDiv':
            q = z3.ToInt(term(a, True) / term(b, True))
            return mk(z3.ToReal(q)) if real else mk(q)
        if op == 'Mod':
            q = z3.ToInt(term(a, True) / term(b, True))
            if real:
                return mk(ta - z3.ToReal(q) * tb)
            return mk(ta - q * tb)
        if op == 'Pow':
            return self.power(a, b)
        raise Unsupported(f'binop {op}')

    def conc_binop(self, op, a, b):
        if isinstance(a, bool):
            a = int(a)
        if isinstance(b, bool):
            b = int(b)
        if op == 'Add':
            return a + b
        if op == 'Sub':
            return a - b
        if op == 'Mult':
            return a * b
        if op == 'Div':
            if b == 0:
                raise self.ctx.pyexc('ZeroDivisionError')
            return Fraction(a) / Fraction(b)
        if op == 'FloorDiv':
            if b == 0:
                raise self.ctx.pyexc('ZeroDivisionError')
            r = a // b
            return r
        if op == 'Mod':
            if b == 0:
                raise self.ctx.pyexc('ZeroDivisionError')
            return a % b
        if op == 'Pow':
            return self.power(a, b)
        raise Unsupported(f'binop {op}')

    def power(self, a, b):
        if isinstance(b, Fraction) and b.denominator == 1:
            b = int(b)
        if isinstance(b, int) and not isinstance(b, bool):
            if not isinstance(a, SV):
                if b >= 0:
                    return a ** b
                return Fraction(1) / (Fraction(a) ** (-b))
            if 0 <= b <= 6:
                r = 1
                for _ in range(b):
                    r = self.binop('Mult', r, a)
                return r
            if -6 <= b < 0:
                return self.binop('Div', 1, self.power(a, -b))
        if b == Fraction(1, 2):
            return self.uf('sqrt', a)
        if not isinstance(a, SV) and a == 10:
            # 10 ** (x/10) is db2lin(x): keep one function for the dB algebra
            return self.uf('db2lin', self.binop('Mult', 10, b))
        return self.uf('pow', a, b)

    def inf_arith(self, op, a, b):
        if op in ('Add', 'Sub'):
            if isinstance(a, Inf) and isinstance(b, Inf):
                sb = b.sign if op == 'Add' else -b.sign
                if a.sign == sb:
                    return Inf(a.sign)
                raise Unsupported('inf - inf')
            if isinstance(a, Inf):
                return Inf(a.sign)
            return Inf(b.sign if op == 'Add' else -b.sign)
        raise Unsupported(f'inf arithmetic {op}')

    def neg(self, a):
        if isinstance(a, Inf):
            return Inf(-a.sign)
        return self.binop('Sub', 0, a) if not isinstance(a, (Vec, Mat)) else self.map1(self.neg, a)

    def map1(self, f, a):
        if isinstance(a, Vec):
            return Vec(a.n, lambda i: f(a.at(i)))
        if isinstance(a, Mat):
            return Mat(a.n, a.m, lambda i, j: f(a.at(i, j)))
        return f(a)

    def broadcast(self, f, a, b):
        """numpy broadcasting for scalar/1-D/2-D: trailing axis alignment"""
        if isinstance(a, Mat) or isinstance(b, Mat):
            n, m = (a.n, a.m) if isinstance(a, Mat) else (b.n, b.m)

            def at(x, i, j):
                if isinstance(x, Mat):
                    return x.at(i, j)
                if isinstance(x, Vec):
                    return x.at(j)        # (n,m) op (m,) : vector runs along the last axis
                return x
            for x in (a, b):
                if isinstance(x, Vec):
                    self.ctx.require_eq_len(x.n, m, 'broadcast (n,m) with (m,)')
                if isinstance(x, Mat):
                    self.ctx.require_eq_len(x.n, n, 'matrix rows')
                    self.ctx.require_eq_len(x.m, m, 'matrix cols')
            return Mat(n, m, lambda i, j: f(at(a, i, j), at(b, i, j)))
        if isinstance(a, Vec) and isinstance(b, Vec):
            if isinstance(b.n, int) and b.n == 1 and not (isinstance(a.n, int) and a.n == 1):
                return Vec(a.n, lambda i: f(a.at(i), b.at(0)))       # numpy broadcasting of a one-element array
            if isinstance(a.n, int) and a.n == 1 and not (isinstance(b.n, int) and b.n == 1):
                return Vec(b.n, lambda i: f(a.at(0), b.at(i)))
            n = self.ctx.common_len(a.n, b.n)
            return Vec(n, lambda i: f(a.at(i), b.at(i)))
        if isinstance(a, Vec):
            if isinstance(b, (list, tuple)):
                b = self.ctx.list_to_vec(b)
                return self.broadcast(f, a, b)
            return Vec(a.n, lambda i: f(a.at(i), b))
        if isinstance(b, Vec):
            if isinstance(a, (list, tuple)):
                a = self.ctx.list_to_vec(a)
                return self.broadcast(f, a, b)
            return Vec(b.n, lambda i: f(a, b.at(i)))
        raise Unsupported('broadcast')

    # ---- comparison
    def compare(self, op, a, b):
        a = to_frac(a) if isinstance(a, float) else a
        b = to_frac(b) if isinstance(b, float) else b
        if isinstance(a, (Vec, Mat)) or isinstance(b, (Vec, Mat)):
            if op in ('Is', 'IsNot'):
                return (a is b) if op == 'Is' else (a is not b)
            return self.broadcast(lambda x, y: self.compare(op, x, y), a, b)
        if op in ('Eq', 'NotEq'):
            r = self.eq(a, b)
            if op == 'NotEq':
                r = self.lnot(r)
            return r
        if isinstance(a, Opt):
            a = self.ctx.unwrap(a)
        if isinstance(b, Opt):
            b = self.ctx.unwrap(b)
        if a is None or b is None:
            if self.ctx.spec_mode:
                return SV(fresh('undef', z3.BoolSort()))
            raise self.ctx.pyexc('TypeError')
        if isinstance(a, Inf) or isinstance(b, Inf):
            return self.inf_cmp(op, a, b)
        if not isinstance(a, SV) and not isinstance(b, SV):
            if isinstance(a, (tuple, list)) and isinstance(b, (tuple, list)):
                return self.seq_cmp(op, a, b)
            if isinstance(a, (int, Fraction, bool, str)) and isinstance(b, (int, Fraction, bool, str)):
                return {'Lt': a < b, 'LtE': a <= b, 'Gt': a > b, 'GtE': a >= b}[op]
            raise Unsupported(f'compare {op} {a!r} {b!r}')
        real = is_real(a) or is_real(b)
        ta, tb = term(a, real), term(b, real)
        t = {'Lt': ta < tb, 'LtE': ta <= tb, 'Gt': ta > tb, 'GtE': ta >= tb}[op]
        return mk(t)

    def seq_cmp(self, op, a, b):
        """lexicographic order of tuples/lists with symbolic components"""
        strict = op in ('Lt', 'Gt')
        lt = 'Lt' if op in ('Lt', 'LtE') else 'Gt'
        res = (len(a) < len(b)) if op in ('Lt', 'LtE') else (len(a) > len(b))
        if len(a) == len(b):
            res = not strict
        for x, y in reversed(list(zip(a, b))):
            res = self.lor(self.compare(lt, x, y), self.land(self.eq(x, y), res))
        return res

    def inf_cmp(self, op, a, b):
        if isinstance(a, Inf) and isinstance(b, Inf):
            x, y = a.sign, b.sign
        elif isinstance(a, Inf):
            x, y = a.sign, 0
        else:
            x, y = 0, b.sign
        return {'Lt': x < y, 'LtE': x <= y, 'Gt': x > y, 'GtE': x >= y}[op]

    def eq(self, a, b):
        """python == ; returns python bool or SV(bool)"""
        if isinstance(a, Opt) or isinstance(b, Opt):
            if isinstance(a, Opt) and isinstance(b, Opt):
                inner = self.eq(a.val, b.val)
                return mk(z3.Or(z3.And(a.isnone, b.isnone), z3.And(z3.Not(a.isnone), z3.Not(b.isnone), boolterm(inner))))
            o, x = (a, b) if isinstance(a, Opt) else (b, a)
            if x is None:
                return mk(o.isnone)
            inner = self.eq(o.val, x)
            return mk(z3.And(z3.Not(o.isnone), boolterm(inner)))
        if a is None or b is None:
            if isinstance(a, SV) or isinstance(b, SV):
                return False
            return a is None and b is None
        if isinstance(a, EnumSym) or isinstance(b, EnumSym):
            ca = a.t if isinstance(a, EnumSym) else (z3.IntVal(a.code) if isinstance(a, EnumVal) else None)
            cb = b.t if isinstance(b, EnumSym) else (z3.IntVal(b.code) if isinstance(b, EnumVal) else None)
            if ca is None or cb is None:
                return False              # an enum member never equals a non-member
            return mk(ca == cb)
        if isinstance(a, EnumVal) or isinstance(b, EnumVal):
            if isinstance(a, EnumVal) and isinstance(b, EnumVal):
                return a == b
            e, x = (a, b) if isinstance(a, EnumVal) else (b, a)
            if isinstance(x, SV) and x.kind == 'int':
                return mk(x.t == e.code)      # element read from a symbolic-length list (integer code)
            if isinstance(x, int) and not isinstance(x, bool):
                return x == e.code            # idem, constant-folded
            return False
        if isinstance(a, Inf) or isinstance(b, Inf):
            return isinstance(a, Inf) and isinstance(b, Inf) and a.sign == b.sign
        if isinstance(a, str) or isinstance(b, str):
            if isinstance(a, str) and isinstance(b, str):
                return a == b
            s, x = (a, b) if isinstance(a, str) else (b, a)
            if isinstance(x, SV) and x.t.sort() == StrS:
                return mk(x.t == self.ctx.strconst(s))
            if isinstance(x, SV):
                return False
            return False
        if isinstance(a, SV) and isinstance(b, SV) and (a.t.sort() == StrS) != (b.t.sort() == StrS):
            return False
        if isinstance(a, SV) and a.t.sort() == StrS:
            if isinstance(b, SV):
                return mk(a.t == b.t)
            return False
        if isinstance(b, SV) and b.t.sort() == StrS:
            return False
        if isinstance(a, PySet) and isinstance(b, PySet):
            # both duplicate-free: equal as sets iff same size and every member of a is a member of b
            if len(a) != len(b):
                return False
            r = True
            for x in a:
                m = False
                for y in b:
                    m = self.lor(m, self.eq(x, y))
                r = self.land(r, m)
            return r
        if isinstance(a, (list, tuple)) and isinstance(b, (list, tuple)):
            if type(a) is not type(b) or len(a) != len(b):
                return False
            r = True
            for x, y in zip(a, b):
                r = self.land(r, self.eq(x, y))
            return r
        if isinstance(a, dict) and isinstance(b, dict):
            if set(a.keys()) != set(b.keys()):
                return False
            r = True
            for k in a:
                r = self.land(r, self.eq(a[k], b[k]))
            return r
        if is_scalar(a) and is_scalar(b):
            if not isinstance(a, SV) and not isinstance(b, SV):
                return a == b
            if isinstance(a, SV) and a.t.sort() == z3.BoolSort() and isinstance(b, SV) and b.t.sort() == z3.BoolSort():
                return mk(a.t == b.t)
            real = is_real(a) or is_real(b)
            return mk(term(a, real) == term(b, real))
        if type(a).__name__ == 'Obj' or type(b).__name__ == 'Obj':
            return a is b
        if type(a) is not type(b):
            return False
        return a is b

    def land(self, a, b):
        if a is True:
            return b
        if b is True:
            return a
        if a is False or b is False:
            return False
        return mk(z3.And(boolterm(a), boolterm(b)))

    def lor(self, a, b):
        if a is False:
            return b
        if b is False:
            return a
        if a is True or b is True:
            return True
        return mk(z3.Or(boolterm(a), boolterm(b)))

    def lnot(self, a):
        if isinstance(a, bool):
            return not a
        if isinstance(a, (Vec, Mat)):
            return self.map1(self.lnot, a)
        return mk(z3.Not(boolterm(a)))

    def ite(self, c, a, b):
        """value-level if-then-else on a symbolic condition term"""
        c = z3.simplify(c)
        if z3.is_true(c):
            return a
        if z3.is_false(c):
            return b
        if a is b:
            return a
        if isinstance(a, Vec) and isinstance(b, Vec):
            n = self.ite(c, a.n, b.n)
            n = n.t if isinstance(n, SV) else n
            return Vec(n, lambda i: self.ite(c, a.at(i), b.at(i)))
        if a is None and b is None:
            return None
        if a is None or b is None or isinstance(a, Opt) or isinstance(b, Opt):
            an = z3.BoolVal(True) if a is None else (a.isnone if isinstance(a, Opt) else z3.BoolVal(False))
            bn = z3.BoolVal(True) if b is None else (b.isnone if isinstance(b, Opt) else z3.BoolVal(False))
            av = None if a is None else (a.val if isinstance(a, Opt) else a)
            bv = None if b is None else (b.val if isinstance(b, Opt) else b)
            if av is None:
                v = bv
            elif bv is None:
                v = av
            else:
                v = self.ite(c, av, bv)
            return Opt(z3.simplify(z3.If(c, an, bn)), v)
        if isinstance(a, Inf) or isinstance(b, Inf):
            raise Unsupported('ite with inf')
        if isinstance(a, (EnumVal, EnumSym)) and isinstance(b, (EnumVal, EnumSym)):
            ta = a.t if isinstance(a, EnumSym) else z3.IntVal(a.code)
            tb = b.t if isinstance(b, EnumSym) else z3.IntVal(b.code)
            return EnumSym(a.cls, z3.simplify(z3.If(c, ta, tb)))
        if isinstance(a, EnumVal):
            a = a.code
        if isinstance(b, EnumVal):
            b = b.code
        if isinstance(a, str):
            a = SV(self.ctx.strconst(a))
        if isinstance(b, str):
            b = SV(self.ctx.strconst(b))
        if isinstance(a, tuple) and isinstance(b, tuple) and len(a) == len(b):
            return tuple(self.ite(c, x, y) for x, y in zip(a, b))
        if is_scalar(a) and is_scalar(b):
            if isinstance(a, SV) and a.t.sort() == z3.BoolSort() or isinstance(a, bool):
                if isinstance(b, bool) or (isinstance(b, SV) and b.t.sort() == z3.BoolSort()):
                    return mk(z3.If(c, boolterm(a), boolterm(b)))
            if isinstance(a, SV) and a.t.sort() == StrS:
                return mk(z3.If(c, a.t, b.t))
            real = is_real(a) or is_real(b)
            return mk(z3.If(c, term(a, real), term(b, real)))
        raise Unsupported(f'ite on {type(a).__name__}/{type(b).__name__}')
