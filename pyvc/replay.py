"""Replay driver: runs replay_native.py under the repository's interpreter and records the outcome in the file."""
import json
import os
import subprocess
import sys

ROOT = os.path.dirname(os.path.dirname(os.path.abspath(__file__)))
NATIVE_PY = '/venv/bin/python'


def try_replay(path):
    info = json.load(open(path))
    env = dict(os.environ, PYVC_REPO=info.get('repo', os.environ.get('PYVC_REPO', '/repo')))
    try:
        pr = subprocess.run([NATIVE_PY, os.path.join(ROOT, 'pyvc', 'replay_native.py'), path], capture_output=True,
                            text=True, timeout=300, env=env)
        lines = [l for l in pr.stdout.splitlines() if l.startswith('{')]
        res = json.loads(lines[-1]) if lines else {'result': 'error', 'stderr': pr.stderr[-1500:]}
    except Exception as e:
        res = {'result': 'error', 'detail': f'{type(e).__name__}: {e}'}
    info['native_replay'] = res
    if res.get('result') != 'reproduced':
        info['note'] = ('no-failing-input-found: the verifier\'s counter-model did not reproduce on the real code '
                        '(real vs float arithmetic, uninterpreted functions, or an input the builder cannot '
                        'reconstruct); the failed obligation and the solver output above stand as the report')
    json.dump(info, open(path, 'w'), indent=1)
    return res.get('result')


def main_replay(path):
    r = try_replay(path)
    info = json.load(open(path))
    print(json.dumps(info.get('native_replay'), indent=1))
    if r == 'reproduced':
        print(f"VIOLATION property={info['property']} replay={path}")
        return 1
    return 0
