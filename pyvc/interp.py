"""Symbolic interpreter of the repository's Python (AST level), one path per run (re-execution forking)."""
import ast
import copy
from fractions import Fraction
import z3
from .vals import (SV, Opt, Inf, Vec, Mat, Obj, SList, Forall, Exists, Hyp, Func, Builtin, ClassRef, ExcClass, ModuleRef,
                   Unsupported, StrS, fresh, fresh_fun, to_frac, is_num, z3num)
from .ops import Ops, term, boolterm, mk, is_scalar, is_real, UF
from . import axioms

BUILTIN_EXC = {
    'Exception': (), 'ValueError': ('Exception',), 'TypeError': ('Exception',), 'KeyError': ('LookupError',),
    'IndexError': ('LookupError',), 'LookupError': ('Exception',), 'AttributeError': ('Exception',),
    'ZeroDivisionError': ('ArithmeticError',), 'ArithmeticError': ('Exception',), 'StopIteration': ('Exception',),
    'NotImplementedError': ('RuntimeError',), 'RuntimeError': ('Exception',), 'AssertionError': ('Exception',),
    'NetworkXNoPath': ('Exception',), 'NetworkXError': ('Exception',), 'NodeNotFound': ('Exception',),
}


class PyExc(Exception):
    """an exception raised by the interpreted program"""

    def __init__(self, cls, args=(), obj=None):
        super().__init__(f'{cls.name}{args!r}')
        self.cls = cls
        self.eargs = args
        self.obj = obj


class ReturnSig(Exception):
    def __init__(self, v):
        self.v = v


class BreakSig(Exception):
    pass


class ContinueSig(Exception):
    pass


class Infeasible(Exception):
    """the current path condition became unsatisfiable (an assumed contract excluded the path)"""


class Oblig:
    def __init__(self, name, hyps, univ, goal, idx, apps, sums, kind='ensures', where=None):
        self.name = name
        self.hyps = hyps
        self.univ = univ
        self.goal = goal
        self.idx = idx
        self.apps = apps
        self.sums = sums
        self.kind = kind
        self.where = where
        self.extra_hyps = []


class Path:
    """state of one execution path"""

    def __init__(self, engine, prefix):
        self.engine = engine
        self.prefix = list(prefix)
        self.decisions = []
        self.forced = []
        self.pc = []
        self.univ = []
        self.idx = {}
        self.apps = {}
        self.sums = []
        self.obligs = []
        self.spec_mode = 0
        self.ops = Ops(self)
        self.exc_bases = dict(BUILTIN_EXC)
        self.dropped = []
        self.branch_log = []
        self.alloc = []            # objects allocated during the path (fresh)
        self.dims = {}
        self.qctx = []             # bound placeholders of the universal clause being frozen (definitions inside
        #                            it become functions of them)

    # ---- registries
    def strconst(self, s):
        return self.engine.strconst(s)

    def opaque_str(self):
        return SV(fresh('str', StrS))

    def note_app(self, name, targs, t):
        self.apps.setdefault(name, {})[t.get_id()] = (targs, t)

    def note_idx(self, i):
        if isinstance(i, int):
            return
        if z3.is_int_value(i):
            return
        self.idx.setdefault(i.get_id(), i)

    def fresh_def(self, prefix, sort):
        """fresh definitional symbol; inside a universal clause it is a function of the bound variables"""
        if not self.qctx:
            return fresh(prefix, sort)
        from .vals import fresh_fun
        f = fresh_fun(prefix, *([z3.IntSort()] * len(self.qctx)), sort)
        return f(*self.qctx)

    def assume(self, t):
        if isinstance(t, Forall):
            self.univ.append(self.freeze(t))
            return
        if isinstance(t, (list, tuple)):
            for x in t:
                self.assume(x)
            return
        if isinstance(t, Exists):
            w = fresh('wit', z3.IntSort())
            self.note_idx(w)
            self.spec_mode += 1
            try:
                b = t.body(SV(w))
            finally:
                self.spec_mode -= 1
            self.pc.append(z3.Implies(boolterm(t.guard), z3.And(term(t.lo) <= w, w < term(t.hi), boolterm(b))))
            return
        if t is True:
            return
        if t is False:
            raise Infeasible()
        tt = boolterm(t)
        self.pc.append(tt)

    def freeze(self, f):
        """evaluate a universal clause now (state is mutable!) into a template over bound placeholders"""
        ks = [fresh('bv', z3.IntSort()) for _ in range(f.nvars)]
        self.spec_mode += 1
        saved_idx = dict(self.idx)
        n_pc, n_univ = len(self.pc), len(self.univ)
        outer = list(self.qctx)
        self.qctx = outer + ks
        try:
            body = f.body(*[SV(k) for k in ks])
        finally:
            self.spec_mode -= 1
            self.idx = saved_idx           # index terms over the bound placeholder are not ground terms
            self.qctx = outer
        # definitions introduced while evaluating the body (fresh functions of the bound variables) hold for every
        # value of the bound variables; universal clauses assumed inside become clauses over both variable sets
        side = self.pc[n_pc:]
        del self.pc[n_pc:]
        nested = self.univ[n_univ:]
        del self.univ[n_univ:]
        if isinstance(body, Forall):
            raise Unsupported('nested Forall assumption')
        if f.nvars == 1:
            rng = z3.And(term(f.lo) <= ks[0], ks[0] < term(f.hi))
        else:
            rng = z3.And(*[z3.And(term(lo) <= k, k < term(hi)) for k, lo, hi in zip(ks, f.lo, f.hi)])
        for nu in nested:
            if len(ks) + len(nu.ks) > 2:
                raise Unsupported('universal clause nested deeper than two variables')
            self.univ.append(axioms.Frozen(ks + nu.ks, nu.tmpl))
        return axioms.Frozen(ks, z3.And(*side, z3.Implies(rng, boolterm(body))) if side else z3.Implies(rng, boolterm(body)))

    def oblige(self, name, goal, kind='ensures', where=None):
        """record proof obligation: current hypotheses => goal"""
        if goal is True:
            goal = z3.BoolVal(True)
        elif goal is False:
            goal = z3.BoolVal(False)
        elif isinstance(goal, Forall):
            # prove at a fresh index
            ks = [fresh('k', z3.IntSort()) for _ in range(goal.nvars)]
            for k in ks:
                self.note_idx(k)
            rng = z3.And(*[z3.And(term(goal.lo) <= k, k < term(goal.hi)) for k in ks]) if goal.nvars == 1 else \
                z3.And(*[z3.And(term(lo) <= k, k < term(hi)) for k, lo, hi in zip(ks, goal.lo, goal.hi)])
            self.spec_mode += 1
            try:
                body = goal.body(*[SV(k) for k in ks])
            finally:
                self.spec_mode -= 1
            if isinstance(body, Forall):
                raise Unsupported('nested Forall goal: use forall2')
            if isinstance(body, Hyp):
                self.oblige_hyp(name, body, kind, where, extra=[rng])
                return
            g = z3.Implies(rng, boolterm(body))
            self.obligs.append(Oblig(name, list(self.pc), list(self.univ), g, dict(self.idx),
                                     {k: dict(v) for k, v in self.apps.items()}, list(self.sums), kind, where))
            return
        elif isinstance(goal, Hyp):
            self.oblige_hyp(name, goal, kind, where)
            return
        elif isinstance(goal, Exists):
            # hyps /\ guard /\ (forall i: not body(i)) |- False
            neg = self.freeze(Forall(goal.lo, goal.hi, lambda i: self.ops.lnot(goal.body(i))))
            self.obligs.append(Oblig(name, list(self.pc) + [boolterm(goal.guard)], list(self.univ) + [neg],
                                     z3.BoolVal(False), dict(self.idx), {}, list(self.sums), kind, where))
            return
        elif isinstance(goal, (list, tuple)):
            for n, g in enumerate(goal):
                self.oblige(f'{name}.{n}', g, kind, where)
            return
        else:
            goal = boolterm(goal)
        self.obligs.append(Oblig(name, list(self.pc), list(self.univ), goal, dict(self.idx),
                                 {k: dict(v) for k, v in self.apps.items()}, list(self.sums), kind, where))

    def oblige_hyp(self, name, h, kind, where, extra=()):
        n_pc, n_univ = len(self.pc), len(self.univ)
        for e in extra:
            self.pc.append(e)
        for x in h.hyps:
            self.assume(x)
        try:
            self.oblige(name, h.goal, kind, where)
        finally:
            del self.pc[n_pc:]
            del self.univ[n_univ:]

    def hyps(self, extra=()):
        return axioms.build_hyps(self.engine, list(self.pc) + list(extra), self.univ, self.idx, self.apps, self.sums, self)

    def check(self, t, timeout_ms=None):
        """is pc /\\ t satisfiable? returns 'sat'/'unsat'/'unknown'"""
        s = z3.Solver()
        s.set('timeout', timeout_ms or self.engine.branch_timeout_ms)
        for h in self.hyps([t]):
            s.add(h)
        r = s.check()
        return str(r)

    def branch(self, cond):
        """decide a symbolic condition; returns python bool; forks by re-execution"""
        if isinstance(cond, bool):
            return cond
        c = z3.simplify(boolterm(cond))
        if z3.is_true(c):
            return True
        if z3.is_false(c):
            return False
        k = len(self.decisions)
        if k < len(self.prefix):
            d = self.prefix[k]
            self.decisions.append(d)
            self.forced.append(True)
            self.pc.append(c if d else z3.Not(c))
            return d
        rt = self.check(c)
        rf = self.check(z3.Not(c))
        if rt == 'unsat' and rf == 'unsat':
            raise Infeasible()
        if rt == 'unsat':
            d, alt = False, False
        elif rf == 'unsat':
            d, alt = True, False
        else:
            d, alt = True, True
        self.decisions.append(d)
        self.forced.append(not alt)
        if alt:
            self.engine.push_alt(self.decisions[:-1] + [not d])
        self.pc.append(c if d else z3.Not(c))
        return d

    def truth(self, v):
        """python truthiness, forking when symbolic"""
        if isinstance(v, bool):
            return v
        if v is None:
            return False
        if isinstance(v, SV):
            if v.kind == 'str':
                return self.branch(v.t != self.strconst(''))      # a string is true unless it is empty
            return self.branch(boolterm(v))
        if isinstance(v, Opt):
            if self.branch(v.isnone):
                return False
            return self.truth(v.val)
        if isinstance(v, (int, Fraction)):
            return v != 0
        if isinstance(v, (str, list, tuple, dict, set, frozenset)):
            return len(v) > 0
        if isinstance(v, Obj):
            return True
        if isinstance(v, SList):
            return self.branch(term(v.n) > 0)
        if isinstance(v, Vec):
            if v.n == 1:
                return self.truth(v.at(0))
            raise Unsupported('truth value of an array')
        if isinstance(v, Inf):
            return True
        if isinstance(v, (Func, Builtin, ClassRef)):
            return True
        if hasattr(v, 'nonempty'):
            return self.truth(v.nonempty(self.interp))
        if type(v).__name__ in ('EnumVal', 'EnumSym'):
            return True
        if type(v).__name__ == 'EnumValueSym':
            return self.branch(boolterm(self.interp.sbool(v)))
        raise Unsupported(f'truthiness of {type(v).__name__}')

    def unwrap(self, o, what='value'):
        """use an Opt as a non-None value: obligation that it is not None on this path"""
        if not isinstance(o, Opt):
            return o
        if self.spec_mode:
            return o.val        # specifications guard optional values themselves (implies(x is not None, ...))
        if self.branch(o.isnone):
            raise self.pyexc('TypeError')
        return o.val

    def pyexc(self, name, *args):
        return PyExc(ExcClass(name, self.exc_bases.get(name, ('Exception',))), args)

    def common_len(self, n, m):
        if isinstance(n, int) and isinstance(m, int):
            if n != m:
                if n == 1:
                    return m
                if m == 1:
                    return n
                raise self.pyexc('ValueError', 'operands could not be broadcast together')
            return n
        t = term(n) == term(m)
        s = z3.simplify(t)
        if z3.is_true(s):
            return n
        # numpy raises ValueError when lengths differ (length-1 broadcasting not modelled for symbolic lengths)
        if not self.branch(t):
            raise self.pyexc('ValueError', 'operands could not be broadcast together')
        return n

    def require_eq_len(self, n, m, what):
        self.common_len(n, m)

    def list_to_vec(self, lst):
        items = list(lst)

        def fn(i):
            if isinstance(i, int):
                return items[i]
            self.note_idx(i)
            r = items[-1]
            for k in range(len(items) - 2, -1, -1):
                r = self.ops.ite(i == k, items[k], r)
            return r
        return Vec(len(items), fn)

    def new_dim(self, name, lo=1):
        if name not in self.dims:
            d = z3.Int(f'dim_{name}')
            self.dims[name] = d
            self.pc.append(d >= lo)
        return self.dims[name]
