"""Contract verification engine: explores the paths of a real function, generates and discharges VCs."""
import ast
import json
import os
import subprocess
import tempfile
import time
import traceback
from fractions import Fraction
import z3
from .vals import (SV, Opt, Inf, Vec, Mat, Obj, SList, Forall, Func, Builtin, ClassRef, ExcClass, ModuleRef,
                   Unsupported, StrS, fresh, fresh_fun, to_frac)
from .ops import term, boolterm, mk, is_scalar, UF
from .interp import Path, PyExc, ReturnSig, Infeasible, Oblig
from .evalx import Interp, Env
from .repo import Repo
from .shapes import BCtx
from . import axioms, models, slist

I = z3.IntSort()
R = z3.RealSort()


class Contract:
    def __init__(self, qual, params=None, requires=(), ensures=(), raises=None, modifies=(), returns=None, let=None,
                 inline=False, spec=None, drops=(), props=(), name=None, exc_ensures=None, hints=(),
                 use_at_calls=True, expect_raise_paths=None, path_assumes=(), trusted=False, note=None,
                 allow_other_exc=(), overrides=None, max_paths=400, timeout_s=None, kwargs_call=None, pure=False, varargs=None, harness=None, module=None, native_patches=None, loop=None, loops=None, sum_scales=(), inline_callees=(), pure_on=None, loop_returns=(), prop_clauses=None):
        self.loop_returns = tuple(loop_returns)
        # property id -> prefixes of the clause names that carry THAT property (a contract shared by several properties is
        # judged, for each of them, on the clauses that property rests on; absent = all clauses)
        self.prop_clauses = prop_clauses or {}
        self.pure_on = pure_on
        self.inline_callees = tuple(inline_callees)
        self.sum_scales = list(sum_scales)
        self.loop = loop
        self.loops = loops or {}
        self.native_patches = native_patches or {}
        self.harness = harness
        self.module = module
        self.pure = pure
        self.varargs = varargs
        self.qual = qual
        self.name = name or qual
        self.params = params or {}
        self.requires = [(f'req{k}', r) if isinstance(r, str) else r for k, r in enumerate(requires)]
        self.ensures = [(f'ens{k}', e) if isinstance(e, str) else e for k, e in enumerate(ensures)]
        self.raises = raises or {}
        self.modifies = list(modifies)
        self.returns = returns
        self.let = let or {}
        self.inline = inline
        self.spec = spec or ''
        self.drops = list(drops)
        self.props = list(props)
        self.exc_ensures = exc_ensures or {}
        self.hints = list(hints)
        self.use_at_calls = use_at_calls
        self.path_assumes = list(path_assumes)
        self.trusted = trusted
        self.note = note
        self.allow_other_exc = tuple(allow_other_exc)
        self.overrides = overrides or {}
        self.max_paths = max_paths
        self.timeout_s = timeout_s
        self.kwargs_call = kwargs_call


class LoopCut(Exception):
    """end of the inductive-step path of a loop cut at its invariant"""


class LoopSpec:
    """while loop cut at an invariant: establish, havoc the assigned locals, assume, then either one arbitrary
    iteration (preservation, path ends) or exit (invariant and negated condition known)"""

    def __init__(self, engine, c, k, spec):
        self.engine, self.c, self.k, self.spec = engine, c, k, spec

    def clauses(self):
        return [(f'inv{n}', x) if isinstance(x, str) else x for n, x in enumerate(self.spec['invariant'])]

    def env_for(self, it, env):
        m = env.mod
        se = self.engine.spec_env(it, self.c, m, {})
        return Env(m, env, se.vars)

    def eval(self, it, ex, env):
        saved = it.old_env
        it.old_env = self.engine.cur_old_env
        try:
            return self.engine.eval_clause(it, ex, self.env_for(it, env))
        finally:
            it.old_env = saved

    def run_while(self, it, st, env):
        p = it.p
        name = f'{self.c.name}#loop{self.k}'
        for nm, ex in self.clauses():
            p.oblige(f'{name}-invariant-established:{nm}', self.eval(it, ex, env), kind='ensures', where=ex)
        assigned = sorted({n.id for s in st.body for n in ast.walk(s) if isinstance(n, ast.Name) and isinstance(n.ctx, ast.Store)})
        for nm in assigned:
            if nm in env.vars:
                env.vars[nm] = self.engine.havoc_like(p, env.vars[nm], f'loop_{nm}')
        for nm, ex in self.clauses():
            p.assume(self.eval(it, ex, env))
        cnd = it.eval(st.test, env)
        if p.truth(cnd):
            it.exec_block(st.body, env)
            for nm, ex in self.clauses():
                p.oblige(f'{name}-invariant-preserved:{nm}', self.eval(it, ex, env), kind='ensures', where=ex)
            raise LoopCut()
        it.exec_block(st.orelse, env)

    run = None


class VCResult:
    def __init__(self, name, status, backend, time_s, path_id, kind, model=None, detail=None, size=0):
        self.name = name
        self.status = status      # 'unsat' (discharged) | 'sat' | 'unknown'
        self.backend = backend
        self.time_s = time_s
        self.path_id = path_id
        self.kind = kind
        self.model = model
        self.detail = detail
        self.size = size

    def to_json(self):
        return {'name': self.name, 'status': self.status, 'backend': self.backend, 'time_s': round(self.time_s, 4),
                'path': self.path_id, 'kind': self.kind, 'model': self.model, 'detail': self.detail,
                'smt_size': self.size}


class Engine:
    def __init__(self, registry, vc_timeout_s=10, tier='quick'):
        self.repo = Repo()
        self.registry = registry          # qual -> Contract (callee contracts)
        self.vc_timeout_ms = int(vc_timeout_s * 1000)
        self.branch_timeout_ms = 3000
        self.tier = tier
        self._strs = {}
        self._alts = []
        self.drop_rules = []
        self.overrides = {}
        self.always_modular = False
        self.strict_fstrings = False
        self._strfuns = {}
        self._fstr = {}
        self.loop_specs = {}
        self.current = None

    # ---- strings
    def strconst(self, s):
        if s not in self._strs:
            self._strs[s] = z3.Const('str_' + ''.join(ch if ch.isalnum() else '_' for ch in s)[:40] + f'_{len(self._strs)}', StrS)
        return self._strs[s]

    def all_strconsts(self):
        return list(self._strs.values())

    def str_fun(self, name):
        if name not in self._strfuns:
            self._strfuns[name] = z3.Function('str_' + name, StrS, StrS)
        return self._strfuns[name]

    def fstring_value(self, path, parts):
        """f-string with symbolic holes: an injective uninterpreted constructor of its holes, keyed by the literal
        skeleton (two f-strings with different skeletons are not known to be different)"""
        skel = tuple(p if isinstance(p, str) else None for p in parts)
        holes = [p for p in parts if not isinstance(p, str)]
        if skel == (None,) and isinstance(holes[0], SV) and holes[0].t.sort() == StrS:
            return holes[0]          # f'{s}' of a string is that string
        sorts = []
        targs = []
        for h in holes:
            if isinstance(h, SV):
                sorts.append(h.t.sort())
                targs.append(h.t)
            elif isinstance(h, (int, Fraction)) and not isinstance(h, bool):
                sorts.append(R)
                targs.append(term(h, True))
            else:
                return SV(fresh('fstr', StrS))
        key = (skel, tuple(str(s) for s in sorts))
        if key not in self._fstr:
            self._fstr[key] = z3.Function(f'fstr_{len(self._fstr)}', *sorts, StrS)
        return SV(self._fstr[key](*targs))

    # ---- hooks used by the interpreter
    def push_alt(self, decisions):
        self._alts.append(list(decisions))

    def loop_spec(self, qual, node):
        c = self.current
        if c is None or not c.loops or qual != c.qual or getattr(self, 'cur_fnode', None) is None:
            return None
        loops = [n for n in ast.walk(self.cur_fnode) if isinstance(n, (ast.For, ast.While))]
        loops.sort(key=lambda n: (n.lineno, n.col_offset))
        for k, n in enumerate(loops):
            if n is node and k in c.loops:
                return LoopSpec(self, c, k, c.loops[k])
        return None

    def callee_contract(self, qual, it):
        if qual is None:
            return None
        if self.current is not None and qual in self.current.inline_callees:
            return None         # this proof looks inside the callee (its body is interpreted instead of its summary)
        c = self.registry.get(qual)
        if c is None or c.inline or not c.use_at_calls:
            return None
        return c

    def interp_model(self, it, x, xp, fp, left, right):
        raise Unsupported('np.interp (needs an assumed contract)')

    def deepcopy(self, it, v):
        memo = {}
        return self.snapshot(v, memo, register=it.p.alloc)

    def shallowcopy(self, it, v):
        if isinstance(v, list):
            return list(v)
        if isinstance(v, dict):
            return dict(v)
        if isinstance(v, Obj):
            o = Obj(v.cls, dict(v.fields), v.label)
            it.p.alloc.append(o)
            return o
        return v

    def snapshot(self, v, memo, register=None):
        """structure-preserving copy of the mutable skeleton (leaves are immutable terms)"""
        if isinstance(v, Obj):
            if id(v) in memo:
                return memo[id(v)]
            o = Obj(v.cls, {}, v.label)
            memo[id(v)] = o
            memo.setdefault('_pairs', []).append((v, o))
            if register is not None:
                register.append(o)
            for k, x in v.fields.items():
                o.fields[k] = self.snapshot(x, memo, register)
            return o
        if isinstance(v, list):
            if id(v) in memo:
                return memo[id(v)]
            l = []
            memo[id(v)] = l
            memo.setdefault('_pairs', []).append((v, l))
            l.extend(self.snapshot(x, memo, register) for x in v)
            return l
        if isinstance(v, dict):
            if id(v) in memo:
                return memo[id(v)]
            d = {}
            memo[id(v)] = d
            memo.setdefault('_pairs', []).append((v, d))
            for k, x in v.items():
                d[k] = self.snapshot(x, memo, register)
            return d
        if isinstance(v, tuple):
            return tuple(self.snapshot(x, memo, register) for x in v)
        if isinstance(v, Opt):
            return Opt(v.isnone, self.snapshot(v.val, memo, register))
        if isinstance(v, SList):
            if id(v) in memo:
                return memo[id(v)]
            s = SList(None, v.n, v.label)
            s.fn = v.fn
            s.enum = getattr(v, 'enum', None)
            memo[id(v)] = s
            memo.setdefault('_pairs', []).append((v, s))
            return s
        if isinstance(v, models.Absent):
            return models.Absent(v.absent, self.snapshot(v.val, memo, register))
        return v

    def eval_old(self, it, node, env):
        old_env = it.old_env
        saved = it.old_env
        it.old_env = None     # old(old(x)) is not meaningful
        try:
            return it.eval(node, old_env)
        finally:
            it.old_env = saved

    # ---- value equality for frame conditions
    def veq(self, it, a, b, memo_old_to_live, shallow=False):
        """a: old value, b: live value -> list of clauses (bool / SV / Forall); shallow: containers nested in a
        container are compared by identity (their contents are frame locations of their own)"""
        ops = it.ops
        if a is b:
            return [True]
        if shallow == 'inner' and isinstance(a, (list, dict, SList)) and isinstance(b, (list, dict, SList)):
            return [memo_old_to_live.get(id(a)) is b]
        if shallow:
            shallow = 'inner'
        if isinstance(a, Vec) and isinstance(b, Vec):
            return [ops.eq(a.n if isinstance(a.n, int) else SV(a.n), b.n if isinstance(b.n, int) else SV(b.n)),
                    Forall(0, a.n if isinstance(a.n, int) else SV(a.n), lambda i: ops.eq(a.at(i.t), b.at(i.t)))]
        if isinstance(a, Obj) or isinstance(b, Obj):
            return [memo_old_to_live.get(id(a)) is b]
        if isinstance(a, list) and isinstance(b, list):
            if memo_old_to_live.get(id(a)) is not b:
                return [False]
            if len(a) != len(b):
                return [False]
            out = []
            for x, y in zip(a, b):
                out += self.veq(it, x, y, memo_old_to_live, shallow)
            return out
        if isinstance(a, dict) and isinstance(b, dict):
            if memo_old_to_live.get(id(a)) is not b:
                return [False]
            if set(a.keys()) != set(b.keys()):
                return [False]
            out = []
            for k in a:
                out += self.veq(it, a[k], b[k], memo_old_to_live, shallow)
            return out
        if isinstance(a, tuple) and isinstance(b, tuple) and len(a) == len(b):
            out = []
            for x, y in zip(a, b):
                out += self.veq(it, x, y, memo_old_to_live)
            return out
        if isinstance(a, Opt) and isinstance(b, Opt) and (isinstance(a.val, Vec) or isinstance(a.val, Obj)):
            inner = self.veq(it, a.val, b.val, memo_old_to_live)
            out = [mk(a.isnone == b.isnone)]
            for cl in inner:
                out.append(models.s_implies(it, [mk(z3.Not(a.isnone)), cl], {}))
            return out
        if isinstance(a, SList) and isinstance(b, SList):
            if memo_old_to_live.get(id(a)) is not b:
                return [False]
            fa, fb = a.fn, b.fn
            return [mk(term(a.n) == term(b.n)),
                    Forall(0, SV(term(a.n)), lambda i: mk(fa(i.t) == fb(i.t)))]
        if isinstance(a, models.Absent) or isinstance(b, models.Absent):
            if isinstance(a, models.Absent) and isinstance(b, models.Absent):
                return [mk(a.absent == b.absent)] + [models.s_implies(it, [mk(z3.Not(a.absent)), c], {})
                                                     for c in self.veq(it, a.val, b.val, memo_old_to_live)]
            return [False]
        try:
            return [ops.eq(a, b)]
        except Unsupported:
            return [a is b]

    # ---- spec environment
    def spec_env(self, it, c, mod, vals):
        env = Env(mod, None, dict(vals))
        if c.spec:
            tree = ast.parse(c.spec)
            for st in tree.body:
                it.exec(st, env)
        return env

    def eval_lets(self, it, c, env, pre=False):
        """let-definitions; in the pre-state those mentioning `result` are simply not available yet"""
        saved = getattr(it, 'in_prestate', False)
        it.in_prestate = pre
        try:
            for nm, ex in c.let.items():
                if pre and 'result' in ex:
                    continue
                env.vars[nm] = self.eval_clause(it, ex, env)
        finally:
            it.in_prestate = saved

    def eval_clause(self, it, expr, env):
        node = ast.parse(expr, mode='eval').body
        it.p.spec_mode += 1
        try:
            return it.eval(node, env)
        finally:
            it.p.spec_mode -= 1

    def havoc_like(self, path, v, label):
        if isinstance(v, SV):
            return SV(fresh(label, v.t.sort()))
        if isinstance(v, bool):
            return SV(fresh(label, z3.BoolSort()))
        if isinstance(v, int):
            return SV(fresh(label, I))
        if isinstance(v, Fraction):
            return SV(fresh(label, R))
        if isinstance(v, Vec):
            kind = models.vec_kind(v)
            sort = {'real': R, 'int': I, 'bool': z3.BoolSort(), 'str': StrS}.get(kind, R)
            f = fresh_fun(label, I, sort)
            nv = Vec(v.n, lambda i: SV(f(term(i))))
            nv._kind = kind if kind in ('real', 'int', 'bool', 'str') else 'real'
            return nv
        if isinstance(v, Opt):
            return Opt(fresh(label + '?none', z3.BoolSort()), self.havoc_like(path, v.val, label))
        if v is None:
            raise Unsupported(f'havoc of a field that is None ({label}): give its builder in the modifies clause')
        if isinstance(v, str):
            return SV(fresh(label, StrS))
        if isinstance(v, SList):
            # the callee may rebind the field to a new list object: fresh object, fresh length and contents
            ns = SList(None, fresh(label + '_len', I), label)
            path.pc.append(ns.n >= 0)
            f = fresh_fun(label, I, I)
            ns.fn = lambda i: f(i)
            ns.enum = getattr(v, 'enum', None)
            path.alloc.append(ns)
            return ns
        raise Unsupported(f'havoc of {type(v).__name__} (give a builder in modifies)')

    def resolve_mod_target(self, it, entry, env):
        """'expr.field' -> (obj, field) ; 'expr.*' -> (obj, '*') ; 'expr[*]' -> (container, '[*]')"""
        builder = None
        if isinstance(entry, tuple):
            entry, builder = entry
        if entry.endswith('[*]'):
            o = self.eval_clause(it, entry[:-3], env)
            return o, '[*]', builder
        base, _, field = entry.rpartition('.')
        o = self.eval_clause(it, base, env)
        if isinstance(o, Opt):
            o = o.val
        return o, field, builder

    def apply_contract(self, it, c, vals):
        """call site of a function under contract: assert requires, havoc frame, assume ensures"""
        p = it.p
        tgt = self.find_target(c)
        if tgt is None:
            # contract on a third-party function imported into a repository module
            m = self.repo.module(c.qual.rpartition('.')[0])
        else:
            m = tgt[0]
        env = self.spec_env(it, c, m, vals)
        # a contract stated for a constant parameter value only speaks about calls with that value
        for pn, b in c.params.items():
            rc = getattr(b, 'recipe', None)
            if rc and rc[0] == 'const' and pn in vals and not p.spec_mode:
                same = it.ops.eq(vals[pn], rc[1]) if not isinstance(rc[1], (list, dict)) else True
                if same is not True:
                    p.oblige(f'call {c.qual}: parameter {pn} has the value the contract is stated for', same,
                             kind='requires', where=f'{pn} == {rc[1]!r}')
        self.eval_lets(it, c, env, pre=True)
        guard = True
        for nm, ex in c.requires:
            rv = self.eval_clause(it, ex, env)
            if p.spec_mode and not isinstance(rv, Forall):
                # a specification calling a function under contract: its postcondition is assumed only under its
                # precondition (no obligation is generated from inside a specification)
                guard = it.ops.land(guard, it.sbool(rv))
            else:
                p.oblige(f'call {c.qual}: requires {nm}', rv, kind='requires', where=ex)
        for exc, cond in c.raises.items():
            if p.spec_mode:
                break
            if cond is None:
                t = fresh('mayraise', z3.BoolSort())
            else:
                t = self.eval_clause(it, cond, env)
            if p.branch(boolterm(it.sbool(t)) if not isinstance(t, z3.ExprRef) else t):
                raise p.pyexc(exc) if exc in p.exc_bases else PyExc(self.exc_class(it, exc, m), ())
        memo = {}
        old_vals = {k: self.snapshot(v, memo) for k, v in vals.items()}
        old_env = self.spec_env(it, c, m, old_vals)
        self.eval_lets(it, c, old_env, pre=True)
        # havoc
        for entry in c.modifies:
            o, field, builder = self.resolve_mod_target(it, entry, env)
            if field == '*':
                for f, v in list(o.fields.items()):
                    o.fields[f] = self.havoc_like(p, v, f'{f}')
            elif field == '[*]':
                if isinstance(o, SList):
                    # in-place change of a list: same object, arbitrary new length and contents
                    f = fresh_fun('contents', I, I)
                    o.fn = lambda i, f=f: f(i)
                    o.n = fresh('len', I)
                    p.pc.append(o.n >= 0)
                else:
                    raise Unsupported('havoc of container contents')
            else:
                if builder is not None:
                    bc = BCtx(p, tag=f'h{next(_hv)}_')
                    bc.eval_expr = lambda e, _env=env: self.eval_clause(it, e, _env)
                    o.fields[field] = builder(bc, field)
                else:
                    if field not in o.fields:
                        raise Unsupported(f'havoc of unset field {field} (give a builder)')
                    o.fields[field] = self.havoc_like(p, o.fields[field], field)
        res = None
        if c.returns is not None:
            bc = BCtx(p, tag=f'r{next(_hv)}_')
            bc.eval_expr = lambda e, _env=env: self.eval_clause(it, e, _env)
            res = c.returns(bc, 'result')
        env.vars['result'] = res
        saved = it.old_env
        it.old_env = old_env
        try:
            for nm, ex in c.let.items():
                env.vars[nm] = self.eval_clause(it, ex, env)
            for nm, ex in c.ensures:
                ndec = len(p.decisions)
                ev = self.eval_clause(it, ex, env)
                if guard is not True:
                    ev = models.s_implies(it, [guard, ev], {})
                if ev is False and len(p.decisions) == ndec:
                    # a postcondition that is concretely false in the havoced state is a modelling error of the
                    # callee contract; silently dropping the path would make the caller's proof vacuous
                    raise Unsupported(f'postcondition {nm} of {c.name} is false in the state its own frame produces')
                p.assume(ev)
        finally:
            it.old_env = saved
        return res

    def exc_class(self, it, name, mod):
        v = it.resolve_global(name, mod) if (name in mod.imports or name in mod.classes) else None
        if isinstance(v, ExcClass):
            return v
        ci = self.repo.find_class(name, mod.name)
        if ci is not None:
            v = it.class_value(ci)
            if isinstance(v, ExcClass):
                return v
        return ExcClass(name, it.p.exc_bases.get(name, ('Exception',)))

    def find_target(self, c):
        if c.harness:
            m = self.repo.module(c.module)
            if m is None:
                return None
            tree = ast.parse(c.harness)
            node = [n for n in tree.body if isinstance(n, ast.FunctionDef)][-1]
            for n in tree.body:
                if isinstance(n, ast.FunctionDef) and n is not node:
                    m.funcs.setdefault('__harness_' + n.name, n)
            return m, None, node, 'harness'
        if c.loop is not None:
            # the body of the loop-th for/while loop of the real function, extracted mechanically as a function of
            # its free variables (= the contract's parameters): the inductive step of a loop-invariant proof
            found = self.repo.find(c.qual)
            if found is None:
                return None
            m, ci, fnode, kind = found
            loops = [n for n in ast.walk(fnode) if isinstance(n, (ast.For, ast.While))]
            loops.sort(key=lambda n: (n.lineno, n.col_offset))
            if c.loop >= len(loops):
                return None
            lp = loops[c.loop]
            args = ast.arguments(posonlyargs=[], args=[ast.arg(arg=a) for a in c.params], vararg=None, kwonlyargs=[],
                                 kw_defaults=[], kwarg=None, defaults=[])
            body = list(lp.body)
            if c.loop_returns:
                # expose the loop's local variables after one iteration as the result of the extracted function
                body = body + [ast.Return(value=ast.Tuple(elts=[ast.Name(id=v, ctx=ast.Load()) for v in c.loop_returns],
                                                          ctx=ast.Load()))]
            node = ast.FunctionDef(name=f'{fnode.name}__loop{c.loop}', args=args, body=body, decorator_list=[],
                                   returns=None, type_comment=None)
            ast.fix_missing_locations(node)
            node.lineno, node.end_lineno, node.col_offset = lp.lineno, lp.end_lineno, lp.col_offset
            return m, None, node, 'loop'
        return self.repo.find(c.qual)

    # ---- solver-chosen inputs satisfying a contract's precondition (for the CPython cross-check, tools/native_smoke.py)
    def smoke_inputs(self, c, variants=3):
        found = self.find_target(c)
        if found is None:
            return []
        m, ci, node, kind = found
        self.current = c
        self.overrides = dict(c.overrides)
        out = []
        for k in range(variants):
            path = Path(self, [])
            path.hyps = lambda extra=(), _p=path: axioms.build_hyps(self, list(_p.pc) + list(extra), _p.univ, _p.idx,
                                                                    _p.apps, _p.sums, _p)
            it = Interp(self, path)
            bc = BCtx(path)
            self.bctx = bc
            try:
                vals = {nm: b(bc, nm) for nm, b in c.params.items()}
                path.inputs = vals
                path.live = vals
                path.contract = c
                env = self.spec_env(it, c, m, vals)
                self.eval_lets(it, c, env, pre=True)
                for nm, ex in c.requires:
                    path.assume(self.eval_clause(it, ex, env))
            except (Infeasible, Unsupported, PyExc):
                return out
            s = z3.Solver()
            s.set('timeout', 5000)
            s.set('random_seed', 17 * k + 1)
            for h in path.hyps():
                s.add(h)
            # spread the variants: different array lengths, values away from zero where the precondition allows it
            for d in path.dims.values():
                s.add(d == min(1 + k, 3)) if k < 2 else s.add(d <= 4)
            if s.check() != z3.sat:
                s = z3.Solver()
                s.set('timeout', 5000)
                for h in path.hyps():
                    s.add(h)
                if s.check() != z3.sat:
                    continue
            # prefer inputs of ordinary magnitude (the solver's default choice is 0 or astronomically large values, on which
            # float rounding, not the code, decides a native comparison): one symbol at a time, kept only if still satisfiable
            consts = {}

            def _collect(v, depth=0):
                if depth > 6 or len(consts) > 80:
                    return
                if isinstance(v, SV):
                    if v.t.sort() == z3.RealSort() and not z3.is_rational_value(v.t):
                        consts.setdefault(v.t.get_id(), v.t)
                elif isinstance(v, Opt):
                    _collect(v.val, depth + 1)
                elif isinstance(v, Vec):
                    for i in range(3):
                        try:
                            _collect(v.at(z3.IntVal(i)) if not isinstance(v.n, int) else (v.at(i) if i < v.n else None), depth + 1)
                        except Exception:
                            pass
                elif isinstance(v, Obj):
                    for x in v.fields.values():
                        _collect(x, depth + 1)
                elif isinstance(v, (list, tuple)):
                    for x in v:
                        _collect(x, depth + 1)
                elif isinstance(v, dict):
                    for x in v.values():
                        _collect(x, depth + 1)
            _collect(vals)
            for h in s.assertions():
                for t in axioms.walk([h]):
                    if z3.is_const(t) and t.decl().kind() == z3.Z3_OP_UNINTERPRETED and t.sort() == z3.RealSort():
                        consts.setdefault(t.get_id(), t)
                if len(consts) > 80:
                    break
            lo, hi = [(0.25, 4), (0.5, 2), (1, 8)][k % 3]
            for t in list(consts.values())[:80]:
                for rng in ((lo, hi), (-hi, -lo)):
                    s.push()
                    s.add(t >= rng[0], t <= rng[1])
                    if s.check() == z3.sat:
                        break
                    s.pop()
            if s.check() != z3.sat:
                continue
            mdl = s.model()
            # instantiate the universal preconditions at every index of the chosen sizes so that the model is total
            try:
                import types as _types
                cm = self.extract_model(path, s, mdl, _types.SimpleNamespace(univ=list(path.univ)))
            except Exception:
                continue
            if cm and 'inputs' in cm:
                out.append(cm)
        return out

    # ---- verification of one contract
    def verify(self, c):
        t0 = time.time()
        found = self.find_target(c)
        if found is None:
            return {'contract': c.name, 'qual': c.qual, 'status': 'undecided', 'reason': 'function not found in /repo',
                    'vcs': [], 'paths': 0, 'wall_s': 0}
        m, ci, node, kind = found
        self.current = c
        self.drop_rules = [(c.qual, pfx, why) for pfx, why in c.drops]
        for cc in self.registry.values():
            if cc is not c:
                self.drop_rules += [(cc.qual, pfx, why) for pfx, why in cc.drops]
        self.overrides = dict(c.overrides)
        self._alts = [[]]
        results = []
        paths = []
        npaths = 0
        error = None
        dropped = set()
        while self._alts:
            prefix = self._alts.pop()
            npaths += 1
            if npaths > c.max_paths:
                error = f'path limit {c.max_paths} exceeded'
                break
            try:
                pr = self.run_path(c, m, ci, node, kind, prefix, npaths)
            except Unsupported as e:
                error = f'unsupported: {e}'
                tb = traceback.format_exc()
                results.append(VCResult(f'{c.name}#translate@p{npaths}', 'unknown', 'pyvc', 0, npaths, 'translate',
                                        detail=f'{e}\n{tb[-1500:]}'))
                continue
            if pr is None:
                continue
            paths.append(pr['summary'])
            results.extend(pr['vcs'])
            if sum(1 for r in results if r.status == 'sat') >= 6:
                # enough failed obligations to report; exploring the remaining paths only repeats them
                error = None
                results.append(VCResult(f'{c.name}#exploration-stopped-after-6-failures', 'unsat', 'pyvc', 0, npaths, 'note'))
                break
            for d in pr['dropped']:
                dropped.add(d)
        status = 'proved'
        if any(r.status == 'sat' for r in results):
            status = 'violated'
        elif any(r.status == 'unknown' for r in results) or error:
            status = 'undecided'
        elif not any(r.kind in ('ensures', 'frame', 'raises', 'exc_ensures') for r in results):
            status = 'vacuous'
        return {'contract': c.name, 'qual': c.qual, 'status': status, 'reason': error,
                'file': os.path.relpath(m.path, self.repo.root), 'line': node.lineno,
                'sha256': self.repo.sha_of(m, node) if not c.harness else None, 'vcs': [r.to_json() for r in results], 'paths': len(paths),
                'path_summaries': paths, 'dropped': sorted(dropped), 'wall_s': round(time.time() - t0, 3),
                'props': c.props, 'trusted': c.trusted, 'prop_clauses': c.prop_clauses,
                'replay_info': {'spec': c.spec, 'let': c.let, 'requires': c.requires, 'kind': kind, 'harness': c.harness,
                                'module': c.module, 'native_patches': c.native_patches, 'loop': c.loop,
                                'params': list(c.params.keys())}}

    def run_path(self, c, m, ci, node, kind, prefix, pid):
        path = Path(self, prefix)
        path.hyps = lambda extra=(), _p=path: axioms.build_hyps(self, list(_p.pc) + list(extra), _p.univ, _p.idx,
                                                                _p.apps, _p.sums, _p)
        it = Interp(self, path)
        bc = BCtx(path)
        self.bctx = bc
        try:
            vals = {nm: b(bc, nm) for nm, b in c.params.items()}
            path.inputs = vals
            path.live = vals           # the objects the code runs on (path.inputs becomes the pre-state snapshot below)
            path.contract = c
            env = self.spec_env(it, c, m, vals)
            self.eval_lets(it, c, env, pre=True)
            for nm, ex in c.requires:
                path.assume(self.eval_clause(it, ex, env))
            for sx in c.sum_scales:
                # factors c for the scaling schema  sum(c * s) == c * sum(s)  (proof hint only)
                sv = self.eval_clause(it, sx, env)
                path.__dict__.setdefault('sum_scales', []).append(term(sv, True))
            for hx in c.hints:
                # index terms at which the universal preconditions are to be instantiated (proof hints only)
                hv = self.eval_clause(it, hx, env)
                if isinstance(hv, SV):
                    path.note_idx(hv.t)
                    path.__dict__.setdefault('hint_terms', {})[hv.t.get_id()] = hv.t
        except Infeasible:
            return None
        vcs = []
        if not prefix:
            r = path.check(z3.BoolVal(True), timeout_ms=self.vc_timeout_ms)
            vcs.append(VCResult(f'{c.name}#precondition-satisfiable', 'unsat' if r == 'sat' else ('unknown' if r == 'unknown' else 'sat'),
                                'z3py', 0, pid, 'vacuity',
                                detail=None if r == 'sat' else 'requires clauses are contradictory' if r == 'unsat' else 'unknown'))
            if r == 'unsat':
                return {'summary': {'id': pid, 'outcome': 'vacuous'}, 'vcs': vcs, 'dropped': []}
        memo = {}
        old_vals = {k: self.snapshot(v, memo) for k, v in vals.items()}
        path.inputs = old_vals         # the pre-state is what a counter-model must be replayed from
        old_env = self.spec_env(it, c, m, old_vals)
        self.eval_lets(it, c, old_env, pre=True)
        pairs = memo.get('_pairs', [])
        old_to_live = {id(o): l for (l, o) in pairs}
        # run the body
        outcome = 'return'
        result = None
        exc = None
        self_obj = vals.get('self') if kind in ('method', 'getter', 'setter') else None
        args = {k: v for k, v in vals.items() if not (k == 'self' and self_obj is not None)}
        pos = []
        if c.varargs:
            pos = list(args.pop(c.varargs))
        kwname = node.args.kwarg.arg if getattr(node, 'args', None) is not None and node.args.kwarg is not None else None
        if kwname and isinstance(args.get(kwname), dict):
            # def f(self, **kwargs): the contract's dict parameter of that name is the set of keyword arguments
            args.update(args.pop(kwname))
        fn = Func(node, Env(m), m, self_obj=self_obj, cls=ci, name=c.qual)
        self.cur_fnode = node
        self.cur_old_env = old_env
        try:
            result = it.call_func(fn, pos, args)
        except PyExc as e:
            outcome = 'raise'
            exc = e
        except Infeasible:
            return None
        except LoopCut:
            outcome = 'loop-step'
        # post-state obligations
        env.vars['result'] = result
        it.old_env = old_env
        it.old_to_live = old_to_live
        try:
            for nm, ex in c.let.items():
                try:
                    env.vars[nm] = self.eval_clause(it, ex, env)
                except (Unsupported, PyExc):
                    pass
            if outcome == 'return':
                for exn, cond in c.raises.items():
                    if cond is not None:
                        saved = it.old_env
                        it.old_env = None
                        try:
                            cv = self.eval_clause(it, cond, old_env)
                        finally:
                            it.old_env = saved
                        path.oblige(f'{c.name}#no-{exn}-on-return', it.ops.lnot(it.sbool(cv)), kind='raises', where=cond)
                for ph in c.path_assumes:
                    path.assume(self.eval_clause(it, ph, env))
                for nm, ex in c.ensures:
                    ndec0 = len(path.decisions)
                    nob = len(path.obligs)
                    # each postcondition is evaluated in its own scope: skolem indices, named terms and other
                    # definitions it introduces are of no use to the next clause and only burden its VC
                    scope = (len(path.pc), len(path.univ), dict(path.idx), len(path.sums))
                    try:
                        cl = self.eval_clause(it, ex, env)
                        path.oblige(f'{c.name}#{nm}', cl, kind='ensures', where=ex)
                    except PyExc as pe:
                        # the clause is not even defined in this post-state (e.g. it indexes an empty result)
                        del path.obligs[nob:]
                        path.oblige(f'{c.name}#{nm}', False, kind='ensures',
                                    where=f'{ex}   [evaluation raised {pe.cls.name} on this path]')
                    finally:
                        if len(path.decisions) == ndec0:
                            del path.pc[scope[0]:]
                            del path.univ[scope[1]:]
                            path.idx = scope[2]
                            del path.sums[scope[3]:]
                self.frame_obligations(it, c, path, env, old_env, pairs, old_to_live)
            elif outcome == 'loop-step':
                pass
            else:
                en = exc.cls.name
                names = (en,) + tuple(exc.cls.bases)
                hit = [x for x in names if x in c.raises]
                if hit:
                    cond = c.raises[hit[0]]
                    if cond is not None:
                        saved = it.old_env
                        it.old_env = None
                        try:
                            cv = self.eval_clause(it, cond, old_env)
                        finally:
                            it.old_env = saved
                        path.oblige(f'{c.name}#raises-{hit[0]}-only-if', it.sbool(cv), kind='raises', where=cond)
                    for nm, ex in c.exc_ensures.get(hit[0], []) if isinstance(c.exc_ensures.get(hit[0]), list) else []:
                        path.oblige(f'{c.name}#on-{hit[0]}-{nm}', self.eval_clause(it, ex, env), kind='exc_ensures', where=ex)
                    if c.exc_ensures.get(hit[0]) == 'frame':
                        self.frame_obligations(it, c, path, env, old_env, pairs, old_to_live, exceptional=True)
                elif any(x in c.allow_other_exc for x in names):
                    pass
                else:
                    path.oblige(f'{c.name}#unexpected-{en}', False, kind='raises',
                                where=f'undeclared exception {en}{exc.eargs!r} raised at {getattr(it, "last_line", None)}')
        finally:
            it.old_env = None
        for ob in path.obligs:
            vcs.append(self.discharge(path, ob, pid))
        summ = {'id': pid, 'outcome': outcome if outcome != 'raise' else f'raise {exc.cls.name}',
                'decisions': ''.join('T' if d else 'F' for d in path.decisions), 'obligations': len(path.obligs)}
        return {'summary': summ, 'vcs': vcs, 'dropped': [(a, b, w) for a, b, w in path.dropped]}

    def frame_obligations(self, it, c, path, env, old_env, pairs, old_to_live, exceptional=False):
        allowed = set()
        for entry in c.modifies:
            try:
                saved = it.old_env
                it.old_env = None
                try:
                    o, field, _ = self.resolve_mod_target(it, entry, old_env)
                finally:
                    it.old_env = saved
            except (Unsupported, PyExc) as _e:
                if os.environ.get('PYVC_DEBUG'):
                    print('frame target unresolved:', entry, _e)
                continue
            allowed.add((id(o), field))
        for live, old in pairs:
            if isinstance(live, Obj):
                if (id(old), '*') in allowed:
                    continue
                keys = list(old.fields.keys()) + [k for k in live.fields if k not in old.fields]
                for k in keys:
                    if (id(old), k) in allowed:
                        continue
                    if k not in live.fields or k not in old.fields:
                        path.oblige(f'{c.name}#frame:{old.label or old.cls}.{k}', False, kind='frame',
                                    where=f'field {k} created/deleted outside the modifies clause')
                        continue
                    ov, lv = old.fields[k], live.fields[k]
                    if isinstance(ov, (list, dict, SList)) and isinstance(lv, (list, dict, SList)):
                        # the field must still refer to the same container object; the container's contents are a
                        # separate frame location ('expr[*]')
                        cls = [old_to_live.get(id(ov)) is lv]
                    else:
                        cls = self.veq(it, ov, lv, old_to_live)
                    for n, g in enumerate(cls):
                        if g is True:
                            continue
                        path.oblige(f'{c.name}#frame:{old.label or old.cls}.{k}' + (f'.{n}' if len(cls) > 1 else ''), g,
                                    kind='frame', where=f'{k} unchanged')
            elif isinstance(live, (list, dict)):
                if (id(old), '[*]') in allowed:
                    continue
                cls = self.veq(it, old, live, old_to_live, shallow=True)
                for n, g in enumerate(cls):
                    if g is True:
                        continue
                    path.oblige(f'{c.name}#frame:container{n}', g, kind='frame', where='container unchanged')
            elif isinstance(live, SList):
                if (id(old), '[*]') in allowed:
                    continue
                for n, g in enumerate(self.veq(it, old, live, old_to_live)):
                    if g is True:
                        continue
                    path.oblige(f'{c.name}#frame:{old.label}.{n}', g, kind='frame', where='list unchanged')

    # ---- discharge
    def discharge(self, path, ob, pid):
        t0 = time.time()
        name = f'{ob.name}@p{pid}'
        g = ob.goal
        if z3.is_true(z3.simplify(g)):
            return VCResult(name, 'unsat', 'simplify', 0, pid, ob.kind, size=0)
        hy = axioms.build_hyps(self, ob.hyps, ob.univ, dict(ob.idx), {k: dict(v) for k, v in ob.apps.items()},
                               ob.sums, path, goal=g)
        s = z3.Solver()
        quick_ms = min(2500, self.vc_timeout_ms)
        s.set('timeout', quick_ms)
        for h in hy:
            s.add(h)
        s.add(z3.Not(g))
        r = s.check()
        backend = 'z3py-5.1'
        size = sum(1 for _ in axioms.walk(hy + [g])) if len(hy) < 400 else -len(hy)
        model = None
        if r == z3.unknown and ob.sums:
            # finite sums: one lemma family at a time (equality / order / scaling / sign by witness) keeps the
            # nonlinear case splits small; each attempt uses a subset of the sound hypotheses
            for fam in ('eq', 'order', 'scale', 'nonneg', 'pos'):
                path.sum_family = fam
                try:
                    hyf = axioms.build_hyps(self, ob.hyps, ob.univ, dict(ob.idx), {}, ob.sums, path, goal=g)
                finally:
                    path.sum_family = None
                cone = axioms.cone_of_influence(hyf, g, steps=3, max_nodes=400)
                s4 = z3.Solver()
                s4.set('timeout', quick_ms * 2)
                s4.add(*cone)
                s4.add(z3.Not(g))
                if s4.check() == z3.unsat:
                    r, backend = z3.unsat, f'z3py-5.1/sum-{fam}'
                    break
        if r == z3.unknown:
            # cone of influence: small hypotheses reachable from the goal through shared ground atoms (two steps).
            # Proving from a subset of the hypotheses is sound.
            try:
                cone = axioms.cone_of_influence(hy, g, steps=2, max_nodes=160)
                for mode in ('default', 'qfnra-nlsat'):
                    if mode == 'default':
                        s3 = z3.Solver()
                        s3.set('timeout', quick_ms)
                        s3.add(*cone)
                        s3.add(z3.Not(g))
                        if s3.check() == z3.unsat:
                            r, backend = z3.unsat, 'z3py-5.1/cone'
                            break
                    else:
                        gl = z3.Goal()
                        gl.add(*cone)
                        gl.add(z3.Not(g))
                        tr = z3.TryFor(z3.Then('simplify', 'purify-arith', 'propagate-values', 'solve-eqs', mode), quick_ms * 2)(gl)
                        if len(tr) == 1 and len(tr[0]) == 1 and z3.is_false(tr[0][0]):
                            r, backend = z3.unsat, 'z3py-5.1/cone-nlsat'
            except z3.Z3Exception:
                pass
        if r == z3.unknown:
            # a subset of the hypotheses (the small ones) is often enough and much easier: sound, since fewer
            # hypotheses can only make the goal harder to prove
            small = [h for h in hy if sum(1 for _ in zip(range(161), axioms.walk([h]))) <= 160]
            if len(small) < len(hy):
                for mode in ('default', 'nlsat'):
                    try:
                        if mode == 'default':
                            s2 = z3.Solver()
                            s2.set('timeout', quick_ms)
                            s2.add(*small)
                            s2.add(z3.Not(g))
                            if s2.check() == z3.unsat:
                                r, backend = z3.unsat, 'z3py-5.1/small-hyps'
                                break
                        else:
                            gl = z3.Goal()
                            gl.add(*small)
                            gl.add(z3.Not(g))
                            tr = z3.TryFor(z3.Then('simplify', 'purify-arith', 'propagate-values', 'solve-eqs', 'qfnra-nlsat'),
                                           quick_ms * 2)(gl)
                            if len(tr) == 1 and len(tr[0]) == 1 and z3.is_false(tr[0][0]):
                                r, backend = z3.unsat, 'z3py-5.1/nlsat-small-hyps'
                    except z3.Z3Exception:
                        pass
        if r == z3.unknown:
            # nonlinear real arithmetic: the nlsat pipeline often decides at once what the default solver does not
            for last in ('qfnra-nlsat', 'smt'):
                try:
                    gl = z3.Goal()
                    gl.add(*hy)
                    gl.add(z3.Not(g))
                    tr = z3.TryFor(z3.Then('simplify', 'purify-arith', 'propagate-values', 'solve-eqs', last),
                                   min(self.vc_timeout_ms, 15000))(gl)
                    if len(tr) == 1 and len(tr[0]) == 1 and z3.is_false(tr[0][0]):
                        r = z3.unsat
                        backend = 'z3py-5.1/' + last
                        break
                except z3.Z3Exception:
                    pass
        if r == z3.unknown:
            # portfolio: the two CLI solvers side by side, then z3 5.1 again with the full budget
            rr, be = run_portfolio(s.to_smt2(), self.vc_timeout_ms)
            if rr in ('unsat', 'sat'):
                backend = be
                r = z3.unsat if rr == 'unsat' else z3.sat
            elif self.vc_timeout_ms > quick_ms:
                s.set('timeout', self.vc_timeout_ms)
                r = s.check()
        if r == z3.unsat and self.tier == 'thorough' and backend.startswith('z3py') and backend != 'simplify':
            # thorough tier: every obligation discharged by z3 5.1 is handed to the two other installed solvers
            # (z3 4.8.12 and cvc5 1.0.3, independent code bases for cvc5) as an SMT-LIB text; agreement is recorded, a
            # 'sat' from either makes the obligation undecided (solver disagreement), never a violation
            try:
                rr, be = run_portfolio(s.to_smt2(), min(self.vc_timeout_ms, 20000))
            except Exception:
                rr, be = 'unknown', ''
            if rr == 'unsat':
                backend += '+confirmed:' + be
            elif rr == 'sat':
                r = z3.unknown
                backend += '+DISAGREES:' + be
            else:
                backend += '+second-solver-unknown'
        if r == z3.sat and not backend.startswith('z3py'):
            # a model is needed for replay: ask z3 5.1 again (bounded); the verdict itself stands
            s.set('timeout', self.vc_timeout_ms)
            if s.check() != z3.sat:
                pass
        if r == z3.sat:
            try:
                mdl = s.model() if backend.startswith('z3py') else None
            except z3.Z3Exception:
                mdl = None
            model = self.extract_model(path, s, mdl, ob)
        st = str(r)
        detail = None
        if st != 'unsat':
            detail = {'clause': ob.where, 'goal': str(z3.simplify(g))[:600]}
        return VCResult(name, st, backend, time.time() - t0, pid, ob.kind, model=model, detail=detail, size=size)

    def extract_model(self, path, solver, mdl, ob=None):
        """counter-model of the inputs (concrete python values for replay), preferring small dimensions; the
        universal preconditions are instantiated at every concrete index below the cap so that the model is a
        total input satisfying them"""
        if mdl is None:
            return None
        dims = path.dims
        scopes0 = solver.num_scopes()
        for cap in (2, 3, 5):
            solver.push()
            for d in dims.values():
                solver.add(d <= cap)
            if ob is not None:
                for u in ob.univ:
                    if len(u.ks) == 1:
                        for a in range(cap):
                            solver.add(z3.substitute(u.tmpl, (u.ks[0], z3.IntVal(a))))
                    elif len(u.ks) == 2 and cap <= 3:
                        for a in range(cap):
                            for b in range(cap):
                                solver.add(z3.substitute(u.tmpl, (u.ks[0], z3.IntVal(a)), (u.ks[1], z3.IntVal(b))))
            r = solver.check()
            if r == z3.sat:
                mdl = solver.model()
                # prefer inputs of ordinary magnitude: with the solver's default choices (0, 1e-8, 1e12 ...) float rounding,
                # not the code, decides the native comparison of the replay; one symbol at a time, kept only if the
                # counter-example survives (best effort, bounded in time; the verdict does not depend on it)
                try:
                    consts = {}
                    self._real_terms(getattr(path, 'inputs', {}), consts, range(cap))
                    t_end = time.time() + 6
                    solver.set('timeout', 400)
                    for t in list(consts.values())[:60]:
                        if time.time() > t_end:
                            break
                        for rng in ((0.0625, 16), (-16, -0.0625)):
                            solver.push()
                            solver.add(t >= rng[0], t <= rng[1])
                            if solver.check() == z3.sat:
                                mdl = solver.model()
                                break
                            solver.pop()
                        else:
                            continue
                except Exception:
                    pass
                finally:
                    solver.set('timeout', self.vc_timeout_ms)
                while True:     # leave the solver as it was found
                    try:
                        solver.pop()
                    except z3.Z3Exception:
                        break
                    if solver.num_scopes() == scopes0:
                        break
                break
            solver.pop()
        out = {'dims': {nme: mdl.eval(d, model_completion=True).as_long() for nme, d in dims.items()}}
        try:
            memo = {}       # one memo for all inputs: objects shared between parameters stay shared in the replay
            out['inputs'] = {k: self.concretize(v, mdl, memo) for k, v in getattr(path, 'inputs', {}).items()}
        except Exception as e:      # replay is best effort; the verdict does not depend on it
            out['inputs_error'] = f'{type(e).__name__}: {e}'
        return out

    def _real_terms(self, v, consts, idx, depth=0):
        """the real-valued input symbols (array entries at the indices idx) of a value, by z3 id"""
        if depth > 6 or len(consts) > 80:
            return
        if isinstance(v, SV):
            if v.t.sort() == z3.RealSort() and not z3.is_rational_value(v.t):
                consts.setdefault(v.t.get_id(), v.t)
        elif isinstance(v, Opt):
            self._real_terms(v.val, consts, idx, depth + 1)
        elif isinstance(v, Vec):
            for i in idx:
                try:
                    if isinstance(v.n, int):
                        if i < v.n:
                            self._real_terms(v.at(i), consts, idx, depth + 1)
                    else:
                        self._real_terms(v.at(z3.IntVal(i)), consts, idx, depth + 1)
                except Exception:
                    pass
        elif isinstance(v, Obj):
            for x in v.fields.values():
                self._real_terms(x, consts, idx, depth + 1)
        elif isinstance(v, (list, tuple)):
            for x in v:
                self._real_terms(x, consts, idx, depth + 1)
        elif isinstance(v, dict):
            for x in v.values():
                self._real_terms(x, consts, idx, depth + 1)

    def concretize(self, v, mdl, memo):
        ev = lambda t: val_json(mdl.eval(t, model_completion=True))
        if isinstance(v, SV):
            return ev(v.t)
        if isinstance(v, (bool, int, str)) or v is None:
            return v
        if isinstance(v, Fraction):
            return float(v)
        if isinstance(v, Opt):
            if z3.is_true(mdl.eval(v.isnone, model_completion=True)):
                return None
            return self.concretize(v.val, mdl, memo)
        if isinstance(v, Vec):
            n = v.n if isinstance(v.n, int) else mdl.eval(term(v.n), model_completion=True).as_long()
            items = []
            for k in range(min(n, 64)):
                x = v.at(z3.IntVal(k)) if not isinstance(v.n, int) else v.at(k)
                items.append(self.concretize(x, mdl, memo))
            return {'__vec__': items}
        if isinstance(v, Obj):
            if id(v) in memo:
                return {'__ref__': memo[id(v)]}
            memo[id(v)] = len(memo)
            cls = v.cls if isinstance(v.cls, str) else f'{v.cls.mod}.{v.cls.name}'
            return {'__obj__': cls, '__id__': memo[id(v)],
                    'fields': {k: self.concretize(x, mdl, memo) for k, x in v.fields.items()}}
        if isinstance(v, list):
            return [self.concretize(x, mdl, memo) for x in v]
        if isinstance(v, tuple):
            return {'__tuple__': [self.concretize(x, mdl, memo) for x in v]}
        if isinstance(v, dict):
            return {'__dict__': [[self.concretize(k if not (isinstance(k, tuple) and k and k[0] == 'sv') else k[2], mdl, memo),
                                  self.concretize(x, mdl, memo)] for k, x in v.items()]}
        if isinstance(v, SList):
            n = mdl.eval(term(v.n), model_completion=True).as_long()
            return {'__ilist__': [ev(v.fn(z3.IntVal(k))) for k in range(min(n, 400))], 'enum': getattr(v, 'enum', None)}
        if isinstance(v, Inf):
            return {'__inf__': v.sign}
        if isinstance(v, models.Absent):
            if z3.is_true(mdl.eval(v.absent, model_completion=True)):
                return {'__absent__': True}
            return self.concretize(v.val, mdl, memo)
        return {'__opaque__': repr(v)[:80]}


def val_json(v):
    if z3.is_int_value(v):
        return v.as_long()
    if z3.is_rational_value(v):
        n, d = v.numerator_as_long(), v.denominator_as_long()
        return n / d if d != 1 else float(n)
    if z3.is_true(v):
        return True
    if z3.is_false(v):
        return False
    if z3.is_algebraic_value(v):
        a = v.approx(12)
        return a.numerator_as_long() / a.denominator_as_long()
    if v.sort() == StrS:
        return str(v).replace('!', '_').lower()      # uninterpreted string value -> a lower-case python string
    return str(v)


def run_portfolio(smt, timeout_ms):
    """z3 4.8.12 and cvc5 in parallel on the same SMT-LIB text; first decisive answer wins"""
    import time as _t
    if '(check-sat)' not in smt:
        smt += '\n(check-sat)\n'
    with tempfile.NamedTemporaryFile('w', suffix='.smt2', delete=False) as f:
        f.write(smt)
        fn = f.name
    procs = []
    try:
        for be, cmd in (('z3-4.8.12', ['/usr/bin/z3', '-smt2', f'-T:{max(1, timeout_ms // 1000)}', fn]),
                        ('cvc5-1.0.3', ['/usr/bin/cvc5', '--lang=smt2', f'--tlimit={timeout_ms}', fn])):
            try:
                procs.append((be, subprocess.Popen(cmd, stdout=subprocess.PIPE, stderr=subprocess.DEVNULL, text=True)))
            except OSError:
                pass
        deadline = _t.time() + timeout_ms / 1000 + 5
        pending = list(procs)
        while pending and _t.time() < deadline:
            for be, p in list(pending):
                if p.poll() is not None:
                    pending.remove((be, p))
                    out = (p.stdout.read() or '').strip().splitlines()
                    ans = out[0].strip() if out else 'unknown'
                    if ans in ('sat', 'unsat'):
                        return ans, be
            _t.sleep(0.02)
        return 'unknown', None
    finally:
        for be, p in procs:
            if p.poll() is None:
                p.kill()
        try:
            os.unlink(fn)
        except OSError:
            pass


def run_cli(cmd, smt):
    try:
        with tempfile.NamedTemporaryFile('w', suffix='.smt2', delete=False) as f:
            f.write(smt)
            if '(check-sat)' not in smt:
                f.write('\n(check-sat)\n')
            fn = f.name
        try:
            out = subprocess.run(cmd + [fn], capture_output=True, text=True, timeout=120).stdout.strip().splitlines()
        finally:
            os.unlink(fn)
        return out[0].strip() if out else 'unknown'
    except Exception:
        return 'unknown'


import itertools
_hv = itertools.count()
