"""Extraction: re-reads /repo's working tree on every run and hands out the real function ASTs."""
import ast
import hashlib
import os

REPO = os.environ.get('PYVC_REPO', '/repo')


class ClassInfo:
    def __init__(self, mod, name, node):
        self.mod = mod
        self.name = name
        self.node = node
        self.bases = []
        for b in node.bases:
            if isinstance(b, ast.Name):
                self.bases.append(b.id)
            elif isinstance(b, ast.Attribute):
                self.bases.append(b.attr)
            elif isinstance(b, ast.Call):       # namedtuple('X', '...') base
                self.bases.append('<call>')
        self.methods = {}
        self.getters = {}
        self.setters = {}
        self.class_consts = {}
        self.decorators = [ast.unparse(d) for d in node.decorator_list]
        self.ann_fields = []
        for st in node.body:
            if isinstance(st, ast.FunctionDef):
                decos = [ast.unparse(d) for d in st.decorator_list]
                if 'property' in decos:
                    self.getters[st.name] = st
                elif any(d.endswith('.setter') for d in decos):
                    self.setters[st.name] = st
                else:
                    self.methods[st.name] = st
                    st._decos = decos
            elif isinstance(st, ast.Assign) and len(st.targets) == 1 and isinstance(st.targets[0], ast.Name):
                self.class_consts[st.targets[0].id] = st.value
            elif isinstance(st, ast.AnnAssign) and isinstance(st.target, ast.Name):
                self.ann_fields.append((st.target.id, st.value))


class Module:
    def __init__(self, name, path):
        self.name = name
        self.path = path
        with open(path, encoding='utf-8') as f:
            self.src = f.read()
        self.tree = ast.parse(self.src)
        self.lines = self.src.splitlines()
        self.funcs = {}
        self.classes = {}
        self.imports = {}       # local name -> (module, attr|None)
        self.consts = {}        # name -> ast expr
        for st in self.tree.body:
            self._scan(st)

    def _scan(self, st):
        if isinstance(st, ast.FunctionDef):
            self.funcs[st.name] = st
        elif isinstance(st, ast.ClassDef):
            self.classes[st.name] = ClassInfo(self.name, st.name, st)
        elif isinstance(st, ast.ImportFrom):
            for a in st.names:
                self.imports[a.asname or a.name] = (st.module, a.name)
        elif isinstance(st, ast.Import):
            for a in st.names:
                self.imports[a.asname or a.name.split('.')[0]] = (a.name if a.asname else a.name.split('.')[0], None)
        elif isinstance(st, ast.Assign):
            for t in st.targets:
                if isinstance(t, ast.Name):
                    self.consts[t.id] = st.value
        elif isinstance(st, ast.AnnAssign) and isinstance(st.target, ast.Name) and st.value is not None:
            self.consts[st.target.id] = st.value
        elif isinstance(st, (ast.If, ast.Try)):
            for s in st.body:
                self._scan(s)


class Repo:
    def __init__(self, root=None):
        self.root = root or REPO
        self.mods = {}

    def module(self, name):
        if name not in self.mods:
            p = os.path.join(self.root, *name.split('.'))
            if os.path.isfile(p + '.py'):
                self.mods[name] = Module(name, p + '.py')
            elif os.path.isfile(os.path.join(p, '__init__.py')):
                self.mods[name] = Module(name, os.path.join(p, '__init__.py'))
            else:
                return None
        return self.mods[name]

    def find(self, qual):
        """'gnpy.core.info.SpectralInformation.add_ase' -> (module, classinfo|None, FunctionDef, kind)"""
        parts = qual.split('.')
        for k in range(len(parts) - 1, 0, -1):
            m = self.module('.'.join(parts[:k]))
            if m is None:
                continue
            rest = parts[k:]
            if len(rest) == 1 and rest[0] in m.funcs:
                return m, None, m.funcs[rest[0]], 'function'
            if len(rest) >= 2 and rest[0] in m.classes:
                ci = m.classes[rest[0]]
                nm = rest[1]
                if len(rest) == 3 and rest[2] == 'setter':
                    if nm in ci.setters:
                        return m, ci, ci.setters[nm], 'setter'
                elif nm in ci.methods:
                    return m, ci, ci.methods[nm], 'method'
                elif nm in ci.getters:
                    return m, ci, ci.getters[nm], 'getter'
            return None
        return None

    def find_class(self, name, from_mod=None):
        """class by bare name: look in from_mod (incl. its imports) first, then all loaded gnpy modules"""
        seen = set()

        def look(mn):
            if mn in seen or mn is None:
                return None
            seen.add(mn)
            m = self.module(mn)
            if m is None:
                return None
            if name in m.classes:
                return m.classes[name]
            if name in m.imports:
                src, attr = m.imports[name]
                if attr and src and src.startswith('gnpy'):
                    mm = self.module(src)
                    if mm and attr in mm.classes:
                        return mm.classes[attr]
            return None
        r = look(from_mod)
        if r:
            return r
        for mn in ('gnpy.core.elements', 'gnpy.core.info', 'gnpy.core.parameters', 'gnpy.core.network',
                   'gnpy.core.science_utils', 'gnpy.core.exceptions', 'gnpy.core.equipment',
                   'gnpy.topology.request', 'gnpy.topology.spectrum_assignment', 'gnpy.tools.json_io',
                   'gnpy.tools.convert', 'gnpy.tools.service_sheet', 'gnpy.core.utils'):
            r = look(mn)
            if r:
                return r
        return None

    def mro(self, ci):
        out = [ci]
        for b in ci.bases:
            bi = self.find_class(b, ci.mod)
            if bi is not None and bi is not ci:
                for x in self.mro(bi):
                    if x not in out:
                        out.append(x)
        return out

    def source_of(self, mod, node):
        seg = '\n'.join(mod.lines[node.lineno - 1:node.end_lineno])
        return seg

    def sha_of(self, mod, node):
        return hashlib.sha256(self.source_of(mod, node).encode()).hexdigest()
