"""Models of builtins, numpy and the few other externals the verified functions call.

Every function here is an *assumed contract* on third-party code (listed in evidence under trusted_base).
"""
import ast
from fractions import Fraction
import z3
from .vals import (PySet, SV, Opt, Inf, Vec, Mat, Obj, SList, Forall, Exists, Hyp, Func, Builtin, ClassRef, ExcClass, ModuleRef,
                   Unsupported, StrS, fresh, fresh_fun, to_frac, is_num)
from .ops import term, boolterm, mk, is_scalar, is_real, UF

I = z3.IntSort()
R = z3.RealSort()
PROBE = z3.Int('probe!idx')


class SDict:
    """read-only dict with symbolic string keys: membership predicate + value function (inputs such as the per-degree
    target maps of a ROADM)"""

    def __init__(self, has, get, label=None, wrap=None):
        self.has = has
        self.get = get
        self.label = label
        self.wrap = wrap or (lambda t: SV(t))

    def key(self, it, k):
        if isinstance(k, str):
            return it.p.strconst(k)
        if isinstance(k, SV) and k.kind == 'str':
            return k.t
        raise Unsupported('symbolic dict with non-string key')

    def contains(self, it, k):
        return mk(self.has(self.key(it, k)))

    def getitem(self, it, k):
        kt = self.key(it, k)
        if not it.p.spec_mode:
            if not it.p.truth(mk(self.has(kt))):
                raise it.p.pyexc('KeyError')
        return self.wrap(self.get(kt))


class SumTerm:
    """Sigma_{i<n} s(i) as an uninterpreted constant plus witness-skolemised lemma schemas"""

    def __init__(self, path, n, s):
        self.path = path
        self.n = n
        self.s = s
        self.c = fresh('sum', R)
        self.wit = {}
        self.j_nonneg = fresh('jn', I)
        self.j_pos = fresh('jp', I)
        path.note_idx(self.j_nonneg)
        path.note_idx(self.j_pos)

    def summand(self, j):
        # lemma instances are built while a VC is assembled: never fork there (indices are witnesses in range)
        self.path.spec_mode += 1
        try:
            return term(self.s(j), True)
        finally:
            self.path.spec_mode -= 1

    def lemmas(self, engine, path, others=()):
        n = term(self.n)
        fam = getattr(path, 'sum_family', None)
        out = []
        if fam in (None, 'nonneg'):
            j = self.j_nonneg
            out.append(z3.Implies(self.c < 0, z3.And(0 <= j, j < n, self.summand(j) < 0)))
        if fam in (None, 'pos'):
            j = self.j_pos
            out.append(z3.Implies(self.c <= 0, z3.Or(n <= 0, z3.And(0 <= j, j < n, self.summand(j) <= 0))))
        if fam in (None, 'len'):
            out.append(z3.Implies(n == 0, self.c == 0))
            out.append(z3.Implies(n == 1, self.c == self.summand(z3.IntVal(0))))
        return out

    def scale_lemmas(self, other, path, c):
        """sum_a == c * sum_b unless some summand breaks it (witness-skolemised, both orientations are tried)"""
        key = ('scale', id(other), c.get_id())
        if key not in self.wit:
            self.wit[key] = fresh('js', I)
        js = self.wit[key]
        path.note_idx(js)
        n1, n2 = term(self.n), term(other.n)
        if getattr(path, 'sum_family', None) not in (None, 'scale'):
            return []
        return [z3.Implies(z3.And(n1 == n2, self.c != c * other.c),
                           z3.And(0 <= js, js < n1, self.summand(js) != c * other.summand(js)))]

    def pair_lemmas(self, other, path):
        key = id(other)
        if key not in self.wit:
            self.wit[key] = (fresh('je', I), fresh('jl', I), fresh('jg', I))
        je, jl, jg = self.wit[key]
        for j in (je, jl, jg):
            path.note_idx(j)
        n1, n2 = term(self.n), term(other.n)
        fam = getattr(path, 'sum_family', None)
        out = []
        if fam in (None, 'eq'):
            out.append(z3.Implies(z3.And(n1 == n2, self.c != other.c),
                                  z3.And(0 <= je, je < n1, self.summand(je) != other.summand(je))))
        if fam in (None, 'order'):
            out.append(z3.Implies(z3.And(n1 == n2, self.c > other.c),
                                  z3.And(0 <= jl, jl < n1, self.summand(jl) > other.summand(jl))))
            out.append(z3.Implies(z3.And(n1 == n2, self.c < other.c),
                                  z3.And(0 <= jg, jg < n1, self.summand(jg) < other.summand(jg))))
        return out


def vec_kind(v):
    """'bool' / 'int' / 'real' / 'str' / 'other' of a Vec's elements (probed at a dummy index)"""
    if getattr(v, '_kind', None) is None:
        try:
            if isinstance(v.n, int) and v.n > 0:
                x = v.at(0)
            else:
                x = v._fn(PROBE)
        except Exception:
            x = None
        if isinstance(x, bool):
            v._kind = 'bool'
        elif isinstance(x, SV):
            v._kind = x.kind
        elif isinstance(x, int):
            v._kind = 'int'
        elif isinstance(x, Fraction):
            v._kind = 'real'
        else:
            v._kind = 'other'
    return v._kind


def as_vec(it, x):
    """list/tuple/Vec/scalar -> Vec (asarray)"""
    if isinstance(x, Vec):
        return x
    if isinstance(x, (list, tuple)):
        if x and all(isinstance(r, (list, tuple, Vec)) for r in x):
            rows = [as_vec(it, r) for r in x]
            m = rows[0].n
            return Mat(len(rows), m, lambda i, j: _pick(it, rows, i).at(j))
        return it.p.list_to_vec(list(x))
    if isinstance(x, SList):
        return Vec(x.n, lambda i: SV(z3.Select(x.arr, term(i))))
    if isinstance(x, dict):
        return as_vec(it, list(x.keys()))
    return x


def _pick(it, rows, i):
    if isinstance(i, int):
        return rows[i]
    raise Unsupported('symbolic row pick')


def np_len(it, x):
    if isinstance(x, Opt):
        x = it.p.unwrap(x)
    if isinstance(x, (list, tuple, dict, str, set, frozenset, range)):
        return len(x)
    if isinstance(x, (Vec, SList)):
        return x.n if isinstance(x.n, int) else SV(x.n)
    if isinstance(x, Mat):
        return x.n if isinstance(x.n, int) else SV(x.n)
    if isinstance(x, Obj):
        ci = it.class_of(x)
        if ci is not None:
            m = it.find_method(ci, '__len__')
            if m:
                return it.call_method(x, m, [], {})
    raise Unsupported(f'len of {type(x).__name__}')


def nterm(n):
    return n if isinstance(n, int) else (n.t if isinstance(n, SV) else n)


def mask_embedding(it, mask):
    """x[mask]: order embedding iota of the selected positions (cached on the mask object)"""
    if getattr(mask, '_embed', None) is None:
        p = it.p
        m = fresh('m', I)
        iota = fresh_fun('iota', I, I)
        rank = fresh_fun('rank', I, I)
        n = term(mask.n)
        p.assume(m >= 0)
        p.assume(m <= n)
        p.assume(Forall(0, SV(m), lambda k: mk(z3.And(0 <= iota(k.t), iota(k.t) < n, boolterm(mask.at(iota(k.t))),
                                                       rank(iota(k.t)) == k.t))))
        p.assume(Forall((0, 0), (SV(m), SV(m)),
                        lambda a, b: mk(z3.Implies(a.t < b.t, iota(a.t) < iota(b.t))), nvars=2))
        p.assume(Forall(0, mask.n if isinstance(mask.n, int) else SV(mask.n),
                        lambda j: mk(z3.Implies(boolterm(mask.at(j.t)),
                                                z3.And(0 <= rank(j.t), rank(j.t) < m, iota(rank(j.t)) == j.t)))))
        mask._embed = (m, iota, rank)
    return mask._embed


def perm_of(it, key_vec):
    """argsort(key): a permutation pi of [0,n) with key(pi(k)) non-decreasing (cached on the key object)"""
    if getattr(key_vec, '_perm', None) is None:
        p = it.p
        pi = fresh_fun('pi', I, I)
        inv = fresh_fun('pinv', I, I)
        n = term(key_vec.n)
        nn = key_vec.n if isinstance(key_vec.n, int) else SV(key_vec.n)
        p.assume(Forall(0, nn, lambda k: mk(z3.And(0 <= pi(k.t), pi(k.t) < n, inv(pi(k.t)) == k.t))))
        p.assume(Forall(0, nn, lambda k: mk(z3.And(0 <= inv(k.t), inv(k.t) < n, pi(inv(k.t)) == k.t))))
        p.assume(Forall((0, 0), (nn, nn),
                        lambda a, b: mk(z3.Implies(a.t < b.t, term(key_vec.at(pi(a.t)), True)
                                                   <= term(key_vec.at(pi(b.t)), True))), nvars=2))
        key_vec._perm = (pi, inv)
    return key_vec._perm


def getitem(it, base, idx):
    p = it.p
    if isinstance(base, Opt):
        base = p.unwrap(base)
    if isinstance(base, SDict):
        return base.getitem(it, idx)
    if isinstance(idx, Opt):
        idx = p.unwrap(idx)
    if base is None:
        raise p.pyexc('TypeError')
    if isinstance(base, dict):
        if isinstance(idx, SV):
            # symbolic key against concrete keys: first match
            for k in base.keys():
                kk = k[2] if (isinstance(k, tuple) and k and k[0] == 'sv') else k
                if p.truth(it.ops.eq(kk, idx)):
                    return base[k]
            raise p.pyexc('KeyError')
        k = it.key_of(idx)
        if k not in base:
            raise p.pyexc('KeyError')
        return base[k]
    if isinstance(base, (list, tuple, str)):
        if isinstance(idx, int):
            if not -len(base) <= idx < len(base):
                raise p.pyexc('IndexError')
            return base[idx]
        if isinstance(idx, slice):
            return base[idx]
        if isinstance(idx, SV) and idx.kind == 'int':
            n = len(base)
            for k in range(-n, n):
                if p.truth(mk(idx.t == k)):
                    return base[k]
            raise p.pyexc('IndexError')
        raise Unsupported(f'list index {type(idx).__name__}')
    if isinstance(base, Vec):
        if isinstance(idx, (int,)) and not isinstance(idx, bool):
            if isinstance(base.n, int):
                if not -base.n <= idx < base.n:
                    raise p.pyexc('IndexError')
                return base.at(idx % base.n)
            if idx >= 0:
                if not p.spec_mode and not p.truth(mk(term(base.n) > idx)):
                    raise p.pyexc('IndexError')
                return base.at(idx)
            if not p.spec_mode and not p.truth(mk(term(base.n) >= -idx)):
                raise p.pyexc('IndexError')
            i = z3.simplify(term(base.n) + idx)
            p.note_idx(i)
            return base.at(i)
        if isinstance(idx, SV) and idx.kind == 'int':
            p.note_idx(idx.t)
            if not p.spec_mode:
                if not p.truth(mk(z3.And(idx.t >= 0, idx.t < term(base.n)))):
                    raise Unsupported('negative / out-of-range symbolic array index')
            return base.at(idx.t)
        if isinstance(idx, Vec):
            # base[idx] is cached per (base, idx) object pair: the same selection is the same array object, so that
            # argsort()/mask embeddings derived from it are shared between code and contract
            cache = idx.__dict__.setdefault('_sel_cache', {})
            if id(base) in cache and cache[id(base)][0] is base:
                return cache[id(base)][1]
            r = _fancy(it, base, idx)
            cache[id(base)] = (base, r)
            return r
        if isinstance(idx, (list, tuple)) and not isinstance(idx, tuple):
            return getitem(it, base, as_vec(it, idx))
        if isinstance(idx, tuple) and len(idx) == 2 and idx[1] is None:
            # x[:, None]  -> column
            raise Unsupported('newaxis indexing')
        raise Unsupported(f'array index {type(idx).__name__}')
    if isinstance(base, Mat):
        return _mat_getitem(it, base, idx)
    if isinstance(base, SList):
        return slist_getitem(it, base, idx)
    if isinstance(base, Obj):
        r = obj_getitem(it, base, idx)
        if r is not NotImplemented:
            return r
    if hasattr(base, 'getitem'):
        return base.getitem(it, idx)
    raise Unsupported(f'subscript on {type(base).__name__}')


def _fancy(it, base, idx):
    p = it.p
    if True:
        if True:
            k = vec_kind(idx)
            if k == 'bool':
                p.common_len(idx.n, base.n)
                m, iota, rank = mask_embedding(it, idx)

                def sel(i, base=base, iota=iota):
                    t = iota(term(i))
                    p.note_idx(t)
                    return base.at(t)
                return Vec(m, sel)
            if k == 'int':
                def sel2(i, base=base, idx=idx):
                    t = term(idx.at(i))
                    p.note_idx(t)
                    return base.at(t)
                return Vec(idx.n, sel2)
            raise Unsupported(f'fancy index of kind {k}')


def _mat_getitem(it, base, idx):
    p = it.p
    if True:
        if isinstance(idx, tuple) and len(idx) == 2:
            i, j = idx
            if is_idx(i) and is_idx(j):
                return base.at(idxterm(p, i), idxterm(p, j))
            if is_full_slice(i) and is_idx(j):
                jj = idxterm(p, j, base.m)
                return Vec(base.n, lambda a: base.at(a, jj))
            if is_idx(i) and is_full_slice(j):
                ii = idxterm(p, i, base.n)
                return Vec(base.m, lambda b: base.at(ii, b))
            if isinstance(i, tuple) and len(i) == 4 and i[0] == 'slice':
                i = slice(i[1], i[2], i[3])
            if isinstance(i, slice) and i.start is None and i.step is None and is_idx(i.stop) and is_idx(j):
                # a[:k, j] - numpy clamps the stop to the number of rows (negative stop counts from the end)
                jj = idxterm(p, j, base.m)
                k, n = term(i.stop), term(base.n)
                ln = z3.simplify(z3.If(k < 0, z3.If(n + k > 0, n + k, 0), z3.If(k < n, k, n)))
                return Vec(ln, lambda a: base.at(a, jj))
        if is_idx(idx):
            ii = idxterm(p, idx, base.n)
            return Vec(base.m, lambda b: base.at(ii, b))
        raise Unsupported('matrix index form')


def is_idx(x):
    return (isinstance(x, int) and not isinstance(x, bool)) or (isinstance(x, SV) and x.kind == 'int')


def is_full_slice(x):
    return isinstance(x, slice) and x == slice(None, None, None)


def idxterm(p, x, n=None):
    if isinstance(x, int):
        if x < 0:
            if n is None:
                raise Unsupported('negative index')
            t = z3.simplify(term(n) + x)
            p.note_idx(t)
            return t if not isinstance(n, int) else n + x
        return x
    p.note_idx(x.t)
    return x.t


def getslice(it, base, sl):
    p = it.p
    if isinstance(base, Opt):
        base = p.unwrap(base)
    if isinstance(base, (list, tuple, str)):
        if isinstance(sl, slice):
            return base[sl]
        raise Unsupported('symbolic slice of concrete list')
    if isinstance(base, Vec):
        if isinstance(sl, slice) and sl.step in (None, 1):
            lo, hi = sl.start, sl.stop
            if isinstance(base.n, int):
                rng = range(base.n)[slice(lo, hi)]
                a = rng.start if len(rng) else 0
                return Vec(len(rng), lambda i: base.at(i + a if isinstance(i, int) else _n(p, i + a)))
            n = term(base.n)
            # symbolic length: common forms x[a:], x[:-b], x[a:-b] with small constants, assuming n >= a+b
            a = lo or 0
            b = 0 if hi is None else -hi
            if a >= 0 and b >= 0 and (hi is None or hi < 0):
                ln = z3.If(n - a - b > 0, n - a - b, 0)
                return Vec(z3.simplify(ln), lambda i: base.at(_n(p, term(i) + a)))
            if a >= 0 and hi is not None and hi >= 0:
                ln = z3.If(n < hi, n, hi) - a
                ln = z3.If(ln > 0, ln, 0)
                return Vec(z3.simplify(ln), lambda i: base.at(_n(p, term(i) + a)))
        raise Unsupported('array slice form')
    if isinstance(base, SList):
        return slist_slice(it, base, sl)
    raise Unsupported(f'slice of {type(base).__name__}')


def _n(p, t):
    t = z3.simplify(t) if not isinstance(t, int) else t
    p.note_idx(t)
    return t


# ---------------------------------------------------------------------- builtins

def b_len(it, a, k):
    return np_len(it, a[0])


def b_range(it, a, k):
    if all(isinstance(x, int) for x in a):
        return range(*a)
    return SRange(*[x for x in a])


class SRange:
    """range with symbolic bounds"""

    def __init__(self, *a):
        if len(a) == 1:
            self.lo, self.hi = 0, a[0]
        elif len(a) == 2:
            self.lo, self.hi = a
        else:
            raise Unsupported('symbolic range with step')


def b_isinstance(it, a, k):
    o, c = a
    cs = c if isinstance(c, tuple) else (c,)
    if isinstance(o, Opt):
        # None is an instance of none of the classes we test against
        if it.p.branch(o.isnone):
            return False
        o = o.val
    for c in cs:
        if isinstance(c, ClassRef):
            if isinstance(o, Obj):
                ci = it.class_of(o)
                if ci is not None and c.qual in it.repo.mro(ci):
                    return True
        elif isinstance(c, Builtin):
            nm = c.name
            if nm == 'int' and ((isinstance(o, int) and not isinstance(o, bool)) or (isinstance(o, SV) and o.kind == 'int')):
                return True
            if nm == 'float' and (isinstance(o, Fraction) or (isinstance(o, SV) and o.kind == 'real')):
                return True
            if nm == 'str' and (isinstance(o, str) or (isinstance(o, SV) and o.kind == 'str')):
                return True
            if nm == 'bool' and (isinstance(o, bool) or (isinstance(o, SV) and o.kind == 'bool')):
                return True
            if nm == 'list' and isinstance(o, (list, SList)):
                return True
            if nm == 'dict' and isinstance(o, dict):
                return True
            if nm == 'tuple' and isinstance(o, tuple):
                return True
            if nm in ('ndarray', 'array') and isinstance(o, (Vec, Mat)):
                return True
        elif isinstance(c, ExcClass):
            if isinstance(o, Obj) and o.cls == '<exc>':
                e = o.fields['cls']
                if e.name == c.name or c.name in e.bases:
                    return True
        else:
            raise Unsupported(f'isinstance against {c!r}')
    return False


def b_float(it, a, k):
    x = a[0]
    if isinstance(x, str):
        if x in ('inf', '+inf'):
            return Inf(1)
        if x == '-inf':
            return Inf(-1)
        return to_frac(float(x))
    if isinstance(x, Opt):
        x = it.p.unwrap(x)
    if isinstance(x, (int, Fraction)):
        return Fraction(x)
    if isinstance(x, SV):
        if x.kind == 'int':
            return SV(z3.ToReal(x.t))
        if x.kind == 'real':
            return x
    if isinstance(x, Inf):
        return x
    raise Unsupported('float() of this value')


def trunc_term(t):
    """int(x): truncation toward zero"""
    return z3.If(t >= 0, z3.ToInt(t), -z3.ToInt(-t))


def b_int(it, a, k):
    x = a[0]
    if isinstance(x, Opt):
        x = it.p.unwrap(x)
    if isinstance(x, bool):
        return int(x)
    if isinstance(x, int):
        return x
    if isinstance(x, Fraction):
        return int(x)
    if isinstance(x, str):
        # concrete text: CPython's own conversion; text that is not a number raises ValueError as it does natively
        try:
            return int(x)
        except ValueError:
            raise it.p.pyexc('ValueError')
    if isinstance(x, SV):
        if x.kind == 'int':
            return x
        if x.kind == 'real':
            return mk(trunc_term(x.t))
        if x.kind == 'bool':
            return mk(z3.If(x.t, 1, 0))
    raise Unsupported('int() of this value')


def b_bool(it, a, k):
    return it.p.truth(a[0]) if not it.p.spec_mode else it.sbool(a[0])


def b_abs(it, a, k):
    x = a[0]
    if isinstance(x, (Vec, Mat)):
        return it.ops.map1(lambda v: b_abs(it, [v], {}), x)
    if isinstance(x, (int, Fraction)):
        return abs(x)
    if isinstance(x, SV):
        return mk(z3.If(x.t >= 0, x.t, -x.t))
    raise Unsupported('abs')


def minmax(it, a, k, is_min):
    p = it.p
    key = k.get('key')
    if len(a) == 1:
        x = a[0]
        if isinstance(x, Opt):
            x = p.unwrap(x)
        if isinstance(x, Vec) and not isinstance(x.n, int):
            return vec_minmax(it, x, is_min)
        items = it.iterate(x)
        if not items:
            if 'default' in k:
                return k['default']
            raise p.pyexc('ValueError')
    else:
        items = list(a)
    best = items[0]
    bk = it.call(key, [best], {}) if key else best
    for x in items[1:]:
        xk = it.call(key, [x], {}) if key else x
        c = it.ops.compare('Lt' if is_min else 'Gt', xk, bk)
        if isinstance(c, bool):
            if c:
                best, bk = x, xk
        elif key is None and is_scalar(best) and is_scalar(x):
            best = it.ops.ite(boolterm(c), x, best)
            bk = best
        else:
            if p.truth(c):
                best, bk = x, xk
    return best


def vec_minmax(it, x, is_min):
    p = it.p
    if getattr(x, '_mm', None) is None:
        x._mm = {}
    if is_min not in x._mm:
        m = fresh('min' if is_min else 'max', R)
        w = fresh('w', I)
        n = term(x.n)
        p.note_idx(w)
        if not p.truth(mk(n > 0)):
            raise p.pyexc('ValueError')
        p.assume(z3.And(0 <= w, w < n, term(x.at(w), True) == m))
        p.assume(Forall(0, SV(n), lambda i: mk(m <= term(x.at(i.t), True)) if is_min else mk(m >= term(x.at(i.t), True))))
        x._mm[is_min] = SV(m)
    return x._mm[is_min]


def b_min(it, a, k):
    return minmax(it, a, k, True)


def b_max(it, a, k):
    return minmax(it, a, k, False)


def b_sum(it, a, k):
    x = a[0]
    start = a[1] if len(a) > 1 else 0
    if isinstance(x, Opt):
        x = it.p.unwrap(x)
    if isinstance(x, Vec) and not isinstance(x.n, int):
        return np_sum(it, [x], k)
    if isinstance(x, Mat):
        return np_sum(it, [x], k)
    acc = start
    for v in it.iterate(x):
        acc = it.ops.binop('Add', acc, v)
    return acc


def np_sum(it, a, k):
    x = a[0]
    axis = k.get('axis', a[1] if len(a) > 1 else None)
    if isinstance(x, (list, tuple)):
        if axis == 0 and x and all(isinstance(r, (Vec, list)) for r in x):
            acc = None
            for r in x:
                r = as_vec(it, r)
                acc = r if acc is None else it.ops.binop('Add', acc, r)
            return acc
        if x and all(is_scalar(r) for r in x):
            return b_sum(it, [x], {})
        if not x:
            return 0
        x = as_vec(it, x)
    if isinstance(x, Vec):
        if isinstance(x.n, int) and x.n <= 8:
            acc = 0
            for i in range(x.n):
                acc = it.ops.binop('Add', acc, x.at(i))
            return acc
        return sum_vec(it, x)
    if isinstance(x, Mat):
        if axis in (1, -1):
            return Vec(x.n, lambda i: sum_vec(it, Vec(x.m, lambda j: x.at(i if isinstance(i, int) else i, j))))
        if axis == 0:
            return Vec(x.m, lambda j: sum_vec(it, Vec(x.n, lambda i: x.at(i, j))))
        raise Unsupported('sum of a matrix without axis')
    if is_scalar(x):
        return x
    raise Unsupported('np.sum')


def sum_vec(it, v):
    if getattr(v, '_sum', None) is None:
        s = SumTerm(it.p, v.n, lambda j: v.at(j))
        it.p.sums.append(s)
        v._sum = s
    return SV(v._sum.c)


def b_any(it, a, k, is_any=True):
    x = a[0]
    p = it.p
    if isinstance(x, Opt):
        x = p.unwrap(x)
    if isinstance(x, Vec) and not isinstance(x.n, int):
        if getattr(x, '_any', None) is None:
            x._any = {}
        if is_any not in x._any:
            b = fresh('any' if is_any else 'all', z3.BoolSort())
            w = fresh('w', I)
            p.note_idx(w)
            n = term(x.n)
            if is_any:
                p.assume(z3.Implies(b, z3.And(0 <= w, w < n, boolterm(x.at(w)))))
                p.assume(Forall(0, SV(n), lambda i: mk(z3.Implies(z3.Not(b), z3.Not(boolterm(x.at(i.t)))))))
            else:
                p.assume(z3.Implies(z3.Not(b), z3.And(0 <= w, w < n, z3.Not(boolterm(x.at(w))))))
                p.assume(Forall(0, SV(n), lambda i: mk(z3.Implies(b, boolterm(x.at(i.t))))))
            x._any[is_any] = SV(b)
        return x._any[is_any]
    items = it.iterate(x)
    if p.spec_mode:
        r = not is_any
        for v in items:
            r = it.ops.lor(r, it.sbool(v)) if is_any else it.ops.land(r, it.sbool(v))
        return r
    for v in items:
        t = p.truth(v)
        if is_any and t:
            return True
        if not is_any and not t:
            return False
    return not is_any


def b_all(it, a, k):
    return b_any(it, a, k, False)


class SZip:
    def __init__(self, lists):
        self.lists = lists


def b_zip(it, a, k):
    if any(isinstance(x, SList) for x in a):
        from . import slist as SL
        return SZip([SL.as_slist(it, x) for x in a])
    if a and all(isinstance(x, Vec) and not isinstance(x.n, int) for x in a):
        # arrays of one and the same symbolic length: an array of tuples (zip of unequal lengths is not modelled)
        if not all(z3.eq(z3.simplify(term(x.n)), z3.simplify(term(a[0].n))) for x in a[1:]):
            raise Unsupported('zip over arrays of different symbolic lengths')
        return Vec(a[0].n, lambda i, a=tuple(a): tuple(x.at(i) for x in a))
    lists = [it.iterate(x) for x in a]
    return list(zip(*lists))


def b_enumerate(it, a, k):
    start = a[1] if len(a) > 1 else k.get('start', 0)
    return [(i + start, x) for i, x in enumerate(it.iterate(a[0]))]


def b_list(it, a, k):
    if not a:
        return []
    x = a[0]
    if isinstance(x, SRange):
        return slist_range(it, x)
    if isinstance(x, SList):
        return slist_copy(it, x)
    return list(it.iterate(x))


def b_tuple(it, a, k):
    return tuple(it.iterate(a[0])) if a else ()


def b_dict(it, a, k):
    d = {}
    if a:
        x = a[0]
        if isinstance(x, dict):
            d.update(x)
        else:
            for kv in it.iterate(x):
                kk, vv = it.iterate(kv)
                d[it.key_of(kk)] = vv
    d.update(k)
    return d


def make_set(it, items):
    out = []
    for x in items:
        dup = False
        for y in out:
            e = it.ops.eq(x, y)
            if e is True:
                dup = True
                break
            if e is not False:
                if it.p.truth(e):
                    dup = True
                    break
        if not dup:
            out.append(x)
    return PySet(out)   # sets are modelled as duplicate-free lists (iteration order = first occurrence; order is
    #              unspecified in python: contracts must not depend on it)


def b_set(it, a, k):
    return make_set(it, it.iterate(a[0])) if a else PySet()


def b_sorted(it, a, k):
    items = it.iterate(a[0])
    key = k.get('key')
    rev = k.get('reverse', False)
    keys = [it.call(key, [x], {}) if key else x for x in items]
    # insertion sort with symbolic comparisons (forks); stable
    out = []
    for x, kx in zip(items, keys):
        pos = len(out)
        for j in range(len(out) - 1, -1, -1):
            c = it.ops.compare('Lt' if not rev else 'Gt', kx, out[j][1])
            if it.p.truth(c):
                pos = j
            else:
                break
        out.insert(pos, (x, kx))
    return [x for x, _ in out]


def b_round(it, a, k):
    x = a[0]
    nd = a[1] if len(a) > 1 else k.get('ndigits')
    if isinstance(x, Opt):
        x = it.p.unwrap(x)
    if isinstance(x, (Vec, Mat)):
        return it.ops.map1(lambda v: b_round(it, [v, nd], {}), x)
    if isinstance(x, Inf):
        return x
    if isinstance(x, int) and nd is None:
        return x
    scale = 10 ** (nd or 0)
    if isinstance(x, (int, Fraction)):
        y = Fraction(x) * scale
        f = y.numerator // y.denominator
        r = y - f
        if r > Fraction(1, 2) or (r == Fraction(1, 2) and f % 2 == 1):
            f += 1
        return f if nd is None else Fraction(f, scale)
    if isinstance(x, SV):
        t = term(x, True) * scale
        f = z3.ToInt(t)
        r = t - z3.ToReal(f)
        half = z3.RealVal('1/2')
        up = z3.Or(r > half, z3.And(r == half, f % 2 == 1))
        q = z3.If(up, f + 1, f)
        if nd is None:
            return mk(q)
        return mk(z3.ToReal(q) / scale)
    raise Unsupported('round')


def b_hasattr(it, a, k):
    o, name = a
    if isinstance(o, Opt):
        o = it.p.unwrap(o)
    if isinstance(o, Obj):
        if name in o.fields:
            v = o.fields[name]
            if isinstance(v, Absent):
                return mk(z3.Not(v.absent))
            return True
        ci = it.class_of(o)
        if ci is not None:
            for c in it.repo.mro(ci):
                if name in c.getters or name in c.methods or name in c.class_consts:
                    return True
        return False
    raise Unsupported('hasattr on non-object')


class Absent:
    """field that may be absent (hasattr false) : Absent(absent_bool, value)"""

    def __init__(self, absent, val):
        self.absent = absent
        self.val = val


def b_getattr(it, a, k):
    o, name = a[0], a[1]
    if not isinstance(name, str):
        raise Unsupported('getattr with symbolic name')
    if len(a) > 2:
        try:
            return it.getattr(o, name)
        except Exception as e:
            from .interp import PyExc
            if isinstance(e, PyExc) and e.cls.name == 'AttributeError':
                return a[2]
            raise
    return it.getattr(o, name)


def b_setattr(it, a, k):
    o, name, v = a
    if not isinstance(name, str):
        raise Unsupported('setattr with symbolic name')
    it.setattr(o, name, v)


def b_str(it, a, k):
    x = a[0] if a else ''
    if isinstance(x, str):
        return x
    if isinstance(x, int) and not isinstance(x, bool):
        return str(x)
    if isinstance(x, SV) and x.kind == 'str':
        return x
    if isinstance(x, Obj) and x.cls == '<exc>':
        return it.p.opaque_str()
    return it.engine.fstring_value(it.p, ['', x])


def b_type(it, a, k):
    o = a[0]
    if isinstance(o, Obj):
        ci = it.class_of(o)
        if ci is not None:
            return ClassRef(ci)
        return Obj('<type>', {'__name__': o.cls})
    raise Unsupported('type() of non-object')


def b_print(it, a, k):
    return None


def b_next(it, a, k):
    x = a[0]
    items = it.iterate(x)
    if items:
        return items[0]
    if len(a) > 1:
        return a[1]
    raise it.p.pyexc('StopIteration')


def b_reversed(it, a, k):
    return list(reversed(it.iterate(a[0])))


def b_super(it, a, k):
    raise Unsupported('super() (handled in getattr of __class__ env)')


def b_id(it, a, k):
    return ('id', id(a[0]))


def b_callable(it, a, k):
    return isinstance(a[0], (Func, Builtin, ClassRef))


def b_divmod(it, a, k):
    return (it.ops.binop('FloorDiv', a[0], a[1]), it.ops.binop('Mod', a[0], a[1]))


def b_pow(it, a, k):
    return it.ops.binop('Pow', a[0], a[1])


def b_iter(it, a, k):
    return it.iterate(a[0])


def b_filter(it, a, k):
    return [x for x in it.iterate(a[1]) if it.p.truth(it.call(a[0], [x], {}))]


def b_map(it, a, k):
    return [it.call(a[0], [x], {}) for x in it.iterate(a[1])]


BUILTINS = {
    'len': b_len, 'range': b_range, 'isinstance': b_isinstance, 'float': b_float, 'int': b_int, 'bool': b_bool,
    'abs': b_abs, 'min': b_min, 'max': b_max, 'sum': b_sum, 'any': b_any, 'all': b_all, 'zip': b_zip,
    'enumerate': b_enumerate, 'list': b_list, 'tuple': b_tuple, 'dict': b_dict, 'set': b_set, 'sorted': b_sorted,
    'round': b_round, 'hasattr': b_hasattr, 'getattr': b_getattr, 'setattr': b_setattr, 'str': b_str,
    'type': b_type, 'print': b_print, 'next': b_next, 'reversed': b_reversed, 'id': b_id, 'callable': b_callable,
    'divmod': b_divmod, 'pow': b_pow, 'iter': b_iter, 'filter': b_filter, 'map': b_map, 'frozenset': b_set,
}


def builtin(name):
    if name in BUILTINS:
        return Builtin(name, BUILTINS[name])
    if name in SPEC_BUILTINS:
        return Builtin(name, SPEC_BUILTINS[name])
    if name in ('True', 'False', 'None'):
        return {'True': True, 'False': False, 'None': None}[name]
    if name == 'object':
        return Builtin('object', lambda it, a, k: Obj('<object>', {}))
    return None


# ---------------------------------------------------------------------- numpy

def np_unary(name):
    def f(it, a, k):
        x = a[0]
        if isinstance(x, Opt):
            x = it.p.unwrap(x)
        if isinstance(x, (list, tuple)):
            x = as_vec(it, x)
        if isinstance(x, (Vec, Mat)):
            return it.ops.map1(lambda v: f(it, [v], {}), x)
        if name == 'sqrt':
            if isinstance(x, (int, Fraction)) and x >= 0:
                from math import isqrt
                fx = Fraction(x)
                n, d = fx.numerator, fx.denominator
                if isqrt(n) ** 2 == n and isqrt(d) ** 2 == d:
                    return Fraction(isqrt(n), isqrt(d))
            return it.ops.uf('sqrt', x)
        if name == 'log10':
            return it.ops.binop('Div', it.ops.uf('lin2db', x), 10)
        if name == 'abs':
            return b_abs(it, [x], {})
        if name == 'ceil':
            if isinstance(x, (int, Fraction)):
                return Fraction(-((-Fraction(x).numerator) // Fraction(x).denominator))
            t = term(x, True)
            return mk(z3.ToReal(-z3.ToInt(-t)))
        if name == 'floor':
            if isinstance(x, (int, Fraction)):
                return Fraction(Fraction(x).numerator // Fraction(x).denominator)
            return mk(z3.ToReal(z3.ToInt(term(x, True))))
        if name == 'isscalar':
            return is_scalar(x)
        return it.ops.uf(name, x)
    return f


def math_ceil(it, a, k):
    x = a[0]
    if isinstance(x, (int, Fraction)):
        fx = Fraction(x)
        return -((-fx.numerator) // fx.denominator)
    return mk(-z3.ToInt(-term(x, True)))


def math_floor(it, a, k):
    x = a[0]
    if isinstance(x, (int, Fraction)):
        fx = Fraction(x)
        return fx.numerator // fx.denominator
    return mk(z3.ToInt(term(x, True)))


def np_argsort(it, a, k):
    x = as_vec(it, a[0])
    if not isinstance(x, Vec):
        raise Unsupported('argsort of non-vector')
    pi, inv = perm_of(it, x)
    v = Vec(x.n, lambda i: SV(pi(term(i))))
    v._kind = 'int'
    v._is_perm_of = x
    return v


def np_array(it, a, k):
    x = a[0]
    if isinstance(x, Opt):
        x = it.p.unwrap(x)
    return as_vec(it, x)


def np_append(it, a, k):
    x, y = as_vec(it, a[0]), as_vec(it, a[1])
    if isinstance(x, Vec) and isinstance(y, Vec):
        cache = x.__dict__.setdefault('_append_cache', {})
        if id(y) in cache and cache[id(y)][0] is y:
            return cache[id(y)][1]
        r = _np_append(it, [x, y], k)
        cache[id(y)] = (y, r)
        return r
    return _np_append(it, a, k)


def _np_append(it, a, k):
    x, y = as_vec(it, a[0]), as_vec(it, a[1])
    if not isinstance(x, Vec):
        x = Vec(1, lambda i: a[0])
    if not isinstance(y, Vec):
        y = Vec(1, lambda i: a[1])
    nx = x.n
    n = nx + y.n if isinstance(nx, int) and isinstance(y.n, int) else z3.simplify(term(nx) + term(y.n))

    def fn(i):
        if isinstance(i, int) and isinstance(nx, int):
            return x.at(i) if i < nx else y.at(i - nx)
        ti = term(i)
        j = z3.simplify(ti - term(nx))
        it.p.note_idx(j)
        return it.ops.ite(ti < term(nx), x.at(ti), y.at(j))
    return Vec(n, fn)


def np_concatenate(it, a, k):
    parts = it.iterate(a[0])
    acc = as_vec(it, parts[0])
    for q in parts[1:]:
        acc = np_append(it, [acc, q], {})
    return acc


def np_full(it, a, k):
    n, x = a[0], a[1] if len(a) > 1 else k.get('fill_value')
    if isinstance(n, tuple):
        if len(n) == 1:
            n = n[0]
        else:
            raise Unsupported('full with 2-D shape')
    n = nterm(n)
    if isinstance(x, Opt):
        x = None if it.p.branch(x.isnone) else x.val
    if isinstance(x, (list, tuple)):
        x = as_vec(it, x)
    if isinstance(x, Vec):
        ok = it.ops.eq(x.n if isinstance(x.n, int) else SV(x.n), n if isinstance(n, int) else SV(n))
        if not it.p.truth(ok):
            if not it.p.truth(it.ops.eq(x.n if isinstance(x.n, int) else SV(x.n), 1)):
                raise it.p.pyexc('ValueError', 'could not broadcast input array')
            return Vec(n, lambda i: x.at(0))
        return x
    return Vec(n, lambda i: x)


def np_ones(it, a, k):
    n = a[0]
    if isinstance(n, list):
        n = tuple(n)
    if isinstance(n, tuple):
        if len(n) == 1:
            n = n[0]
        elif len(n) == 2:
            return Mat(nterm(n[0]), nterm(n[1]), lambda i, j: 1)
    return Vec(nterm(n), lambda i: 1)


def np_zeros(it, a, k):
    n = a[0]
    if isinstance(n, list):
        n = tuple(n)
    if isinstance(n, tuple):
        if len(n) == 1:
            n = n[0]
        elif len(n) == 2:
            return Mat(nterm(n[0]), nterm(n[1]), lambda i, j: 0)
    return Vec(nterm(n), lambda i: 0)


def np_outer(it, a, k):
    x, y = as_vec(it, a[0]), as_vec(it, a[1])
    if not isinstance(x, Vec):
        x0 = x
        x = Vec(1, lambda i: x0)
    if not isinstance(y, Vec):
        y0 = y
        y = Vec(1, lambda i: y0)
    return Mat(x.n, y.n, lambda i, j: it.ops.binop('Mult', x.at(i), y.at(j)))


def np_diag(it, a, k):
    x = a[0]
    if isinstance(x, Mat):
        return Vec(x.n, lambda i: x.at(i, i))
    x = as_vec(it, x)
    return Mat(x.n, x.n, lambda i, j: x.at(i) if (isinstance(i, int) and isinstance(j, int) and i == j) else
               (0 if (isinstance(i, int) and isinstance(j, int)) else it.ops.ite(term(i) == term(j), x.at(i), 0)))


def np_where(it, a, k):
    c, x, y = a
    if isinstance(c, (Vec, Mat)) or isinstance(x, (Vec, Mat)) or isinstance(y, (Vec, Mat)):
        def f3(cc, xy):
            return it.ops.ite(boolterm(cc), xy[0], xy[1]) if isinstance(cc, SV) else (xy[0] if cc else xy[1])
        xy = it.ops.broadcast(lambda p, q: (p, q), x, y) if isinstance(x, (Vec, Mat)) or isinstance(y, (Vec, Mat)) else None
        if xy is None:
            return it.ops.map1(lambda cc: f3(cc, (x, y)), c)
        if not isinstance(c, (Vec, Mat)):
            return it.ops.map1(lambda q: f3(c, q), xy)
        return it.ops.broadcast(f3, c, xy)
    return it.ops.ite(boolterm(c), x, y) if isinstance(c, SV) else (x if c else y)


def np_mean(it, a, k):
    x = as_vec(it, a[0])
    if isinstance(x, Vec):
        s = np_sum(it, [x], {})
        return it.ops.binop('Div', s, x.n if isinstance(x.n, int) else SV(x.n))
    raise Unsupported('mean')


def np_amin(it, a, k):
    x = as_vec(it, a[0])
    if is_scalar(x):
        return x
    return minmax(it, [x], {}, True)


def np_amax(it, a, k):
    x = as_vec(it, a[0])
    if is_scalar(x):
        return x
    return minmax(it, [x], {}, False)


def np_argmin(it, a, k, is_min=True):
    """ASSUMED: numpy.argmin/argmax return an index at which the minimum/maximum is attained"""
    x = as_vec(it, a[0])
    p = it.p
    r = p.fresh_def('argmin' if is_min else 'argmax', I)
    p.note_idx(r)
    n = term(x.n)
    if not p.spec_mode and not p.truth(mk(n > 0)):
        raise p.pyexc('ValueError')
    p.assume(z3.And(0 <= r, r < n))
    p.assume(Forall(0, x.n if isinstance(x.n, int) else SV(x.n),
                    lambda i: mk(term(x.at(r), True) <= term(x.at(i.t), True)) if is_min else
                    mk(term(x.at(r), True) >= term(x.at(i.t), True))))
    return SV(r)


def np_shape(it, a, k):
    x = a[0]
    if isinstance(x, Vec):
        return (x.n if isinstance(x.n, int) else SV(x.n),)
    if isinstance(x, Mat):
        return (x.n, x.m)
    if is_scalar(x):
        return ()
    if isinstance(x, (list, tuple)):
        return (len(x),)
    raise Unsupported('shape')


def np_squeeze(it, a, k):
    x = a[0]
    if isinstance(x, Vec) and isinstance(x.n, int) and x.n == 1:
        return x.at(0)          # numpy: 0-d array, behaves as the scalar
    return x


def np_isscalar(it, a, k):
    return is_scalar(a[0])


_OBJ_FUNS = {}


def obj_fun(tag, *objs):
    """one uninterpreted real function per tuple of (array) objects: polyval(coef, .), interp(., xp, fp)"""
    key = (tag,) + tuple(id(o) for o in objs)
    if key not in _OBJ_FUNS:
        _OBJ_FUNS[key] = (objs, fresh_fun(tag, R, R))
    return _OBJ_FUNS[key][1]


def np_interp(it, a, k):
    """ASSUMED: numpy.interp(x, xp, fp) is a function of x determined by the arrays xp, fp (piecewise linear; its
    values are not interpreted).  left/right = inf (penalty tables) is handled by the caller's contract."""
    x, xp, fp = a[0], a[1], a[2]
    left = k.get('left')
    right = k.get('right')
    if left is not None or right is not None:
        return it.engine.interp_model(it, x, xp, fp, left, right)
    lin = getattr(xp, '_linspace', None)
    if lin is not None:
        # a regular grid is determined by its end points and size: two grids built from the same three terms give the
        # same interpolating function of fp (so a specification can name "the table laid over [a, b]")
        key = ('interp-lin', id(fp)) + tuple(t if isinstance(t, int) else z3.simplify(t).get_id() for t in lin)
        if key not in _OBJ_FUNS:
            _OBJ_FUNS[key] = ((xp, fp), fresh_fun('interp', R, R))
        f = _OBJ_FUNS[key][1]
    else:
        f = obj_fun('interp', xp, fp)
    return it.ops.map1(lambda v: SV(f(term(v, True))), as_vec(it, x) if isinstance(x, (list, tuple)) else x)


def np_polyval(it, a, k):
    """ASSUMED: polyval(p, x) is a function of x determined by p"""
    p, x = a
    if isinstance(p, (list, tuple)) and all(is_scalar(c) for c in p) and len(p) <= 6:
        def horner(v):
            acc = 0
            for c in p:
                acc = it.ops.binop('Add', it.ops.binop('Mult', acc, v), c)
            return acc
        return it.ops.map1(horner, x)
    f = obj_fun('polyval', p)
    return it.ops.map1(lambda v: SV(f(term(v, True))), x)


def np_cumprod(it, a, k):
    """ASSUMED: cumprod(v) is an array of len(v) determined by v (its values are constrained by contracts only)"""
    v = as_vec(it, a[0])
    key = ('cumprod', id(v))
    if key not in _OBJ_FUNS:
        _OBJ_FUNS[key] = ((v,), fresh_fun('cumprod', I, R))
    f = _OBJ_FUNS[key][1]
    r = Vec(v.n, lambda i: SV(f(term(i))))
    r._kind = 'real'
    return r


def np_linspace(it, a, k):
    start, stop, num = a[0], a[1], (a[2] if len(a) > 2 else k.get('num', 50))
    num = nterm(num)
    def fn(i):
        step = it.ops.binop('Div', it.ops.binop('Sub', stop, start), it.ops.binop('Sub', num if isinstance(num, int) else SV(num), 1))
        return it.ops.binop('Add', start, it.ops.binop('Mult', i if isinstance(i, int) else SV(i), step))
    v = Vec(num, fn)
    v._linspace = (term(start, True), term(stop, True), num)
    return v


def np_errstate(it, a, k):
    return None


def np_minimum(it, a, k):
    f = lambda x, y: minmax(it, [x, y], {}, True)
    if isinstance(a[0], (Vec, Mat)) or isinstance(a[1], (Vec, Mat)):
        return it.ops.broadcast(f, a[0], a[1])
    return f(a[0], a[1])


def np_maximum(it, a, k):
    f = lambda x, y: minmax(it, [x, y], {}, False)
    if isinstance(a[0], (Vec, Mat)) or isinstance(a[1], (Vec, Mat)):
        return it.ops.broadcast(f, a[0], a[1])
    return f(a[0], a[1])


def np_clip(it, a, k):
    x, lo, hi = a
    return np_minimum(it, [np_maximum(it, [x, lo], {}), hi], {})


def np_logical_and(it, a, k):
    return it.binop('BitAnd', a[0], a[1])


def np_isclose(it, a, k):
    x, y = a[0], a[1]
    rel = k.get('rel_tol', 0 if 'abs_tol' in k else to_frac(1e-9))
    ab = k.get('abs_tol', 0)
    d = b_abs(it, [it.ops.binop('Sub', x, y)], {})
    if rel == 0:
        return it.ops.compare('LtE', d, ab)
    mx = minmax(it, [b_abs(it, [x], {}), b_abs(it, [y], {})], {}, False)
    bound = minmax(it, [it.ops.binop('Mult', rel, mx), ab], {}, False)
    return it.ops.compare('LtE', d, bound)


NUMPY = {
    'argsort': np_argsort, 'array': np_array, 'asarray': np_array, 'append': np_append, 'ones': np_ones,
    'zeros': np_zeros, 'full': np_full, 'outer': np_outer, 'diag': np_diag, 'where': np_where, 'mean': np_mean,
    'sum': np_sum, 'any': b_any, 'all': b_all, 'amin': np_amin, 'amax': np_amax, 'min': np_amin, 'max': np_amax,
    'shape': np_shape, 'squeeze': np_squeeze, 'isscalar': np_isscalar, 'interp': np_interp,
    'errstate': np_errstate, 'minimum': np_minimum, 'maximum': np_maximum, 'clip': np_clip,
    'argmin': np_argmin, 'argmax': lambda it, a, k: np_argmin(it, a, k, False),
    'concatenate': np_concatenate, 'polyval': np_polyval, 'linspace': np_linspace, 'cumprod': np_cumprod, 'logical_and': np_logical_and, 'abs': b_abs, 'absolute': b_abs,
}
for _n_ in ('sqrt', 'log10', 'exp', 'log', 'arcsinh', 'ceil', 'floor', 'cos'):
    NUMPY[_n_] = np_unary(_n_)

CONSTANTS = {
    ('scipy.constants', 'h'): Fraction('6.62607015e-34'), ('scipy.constants', 'c'): Fraction(299792458),
    ('scipy.constants', 'k'): Fraction('1.380649e-23'), ('scipy.constants', 'pi'): None,
    ('scipy.constants', 'Planck'): Fraction('6.62607015e-34'), ('scipy.constants', 'speed_of_light'): Fraction(299792458),
    ('scipy.constants', 'Boltzmann'): Fraction('1.380649e-23'),
}
PI = z3.Real('PI')


def external(src, attr):
    if src in ('numpy', 'np'):
        if attr in NUMPY:
            return Builtin('np.' + attr, NUMPY[attr])
        if attr == 'pi':
            return SV(PI)
        if attr == 'ndarray':
            return Builtin('ndarray', None)
        if attr == 'inf':
            return Inf(1)
        if attr in ('isinf', 'isnan'):
            # reals are finite (machine arithmetic treated as mathematical); only an Inf created on purpose is infinite
            return Builtin('math.' + attr, lambda it, a, k, attr=attr: isinstance(a[0], Inf) and attr == 'isinf')
    if src == 'scipy' and attr == 'constants':
        return ModuleRef('scipy.constants')
    if (src, attr) in CONSTANTS:
        v = CONSTANTS[(src, attr)]
        return SV(PI) if v is None else v
    if src == 'math':
        if attr == 'ceil':
            return Builtin('math.ceil', math_ceil)
        if attr == 'floor':
            return Builtin('math.floor', math_floor)
        if attr == 'isclose':
            return Builtin('math.isclose', np_isclose)
        if attr in ('sqrt', 'log10', 'exp', 'log'):
            return Builtin('math.' + attr, np_unary(attr))
        if attr == 'pi':
            return SV(PI)
        if attr == 'inf':
            return Inf(1)
        if attr in ('isinf', 'isnan'):
            return Builtin('math.' + attr, lambda it, a, k, attr=attr: isinstance(a[0], Inf) and attr == 'isinf')
    if src == 'copy' and attr == 'deepcopy':
        return Builtin('deepcopy', lambda it, a, k: it.engine.deepcopy(it, a[0]))
    if src == 'copy' and attr == 'copy':
        return Builtin('copy', lambda it, a, k: it.engine.shallowcopy(it, a[0]))
    if src == 'logging' and attr == 'getLogger':
        return Builtin('getLogger', lambda it, a, k: Obj('<logger>', {}))
    if src == 'collections' and attr == 'OrderedDict':
        return Obj('<OrderedDict-class>', {})
    if src == 'collections' and attr == 'namedtuple':
        return Builtin('namedtuple', lambda it, a, k: Obj('<namedtuple-class>', {'name': a[0], 'fields': a[1]}))
    if src == 'operator' and attr in ('attrgetter', 'itemgetter'):
        def getter(it, a, k, attr=attr):
            names = a

            def g(it2, b, kk):
                o = b[0]
                vals = [it2.getattr(o, nm) if attr == 'attrgetter' else getitem(it2, o, nm) for nm in names]
                return vals[0] if len(vals) == 1 else tuple(vals)
            return Builtin('getter', g)
        return Builtin(attr, getter)
    if attr == 'pairwise' and src in ('networkx.utils', 'itertools', 'more_itertools'):
        return Builtin('pairwise', lambda it, a, k: list(zip(it.iterate(a[0]), it.iterate(a[0])[1:])))
    if src in ('networkx', 'networkx.exception') and attr in ('NetworkXNoPath', 'NetworkXError', 'NodeNotFound'):
        return ExcClass(attr, ('Exception',))
    if src == 'typing' or src == 'dataclasses' or src == 'collections.abc' or src == '__future__':
        return Builtin(f'{src}.{attr}', None)
    if src == 'warnings':
        return Builtin('warnings.' + attr, lambda it, a, k: None)
    return None


def od_fromkeys(it, a, k):
    """OrderedDict.fromkeys(iterable) for a concrete iterable of heap objects (classes without __eq__: equality is identity)
    and None: first occurrence kept, order kept.  Anything else (symbolic scalars, strings) is refused."""
    d = {}
    for x in it.iterate(a[0]):
        if isinstance(x, Opt):
            raise Unsupported('OrderedDict.fromkeys over optional items (identity not decided)')
        if x is not None and not isinstance(x, Obj):
            raise Unsupported('OrderedDict.fromkeys over items that are not heap objects')
        if isinstance(x, Obj):
            ci = it.repo.find_class(x.cls) if isinstance(x.cls, str) and not x.cls.startswith('<') else None
            if ci is None or it.find_method(ci, '__eq__') or it.find_method(ci, '__hash__'):
                raise Unsupported('OrderedDict.fromkeys over objects whose equality is not known to be identity')
        d.setdefault(x, a[1] if len(a) > 1 else None)
    return d


def obj_attr(it, o, name):
    if o.cls == '<nt>':
        if name == '_asdict':
            return Builtin('_asdict', lambda it, a, k: dict(o.fields))
        if name == '_replace':
            return Builtin('_replace', lambda it, a, k: Obj('<nt>', dict(o.fields, **k), label=o.label))
        if name == '_fields':
            return tuple(o.fields.keys())
    if o.cls == '<OrderedDict-class>' and name == 'fromkeys':
        return Builtin('OrderedDict.fromkeys', od_fromkeys)
    if o.cls == '<logger>':
        return Builtin('log', lambda it, a, k: None)
    if o.cls == '<type>' and name == '__name__':
        return o.fields['__name__']
    return NotImplemented


def obj_getitem(it, o, idx):
    return NotImplemented


def special_class(it, ci, args, kwargs):
    return NotImplemented


def vector_comp(it, n, env):
    """[f(x) for x in vec] over an array of symbolic length -> elementwise closure"""
    if len(n.generators) != 1 or n.generators[0].ifs:
        return NotImplemented
    g = n.generators[0]
    try:
        src = it.eval(g.iter, env)
    except Unsupported:
        raise
    if isinstance(src, SRange):
        lo, hi = src.lo, src.hi
        nn = z3.simplify(term(hi) - term(lo))
        from .evalx import Env

        def fn(i):
            e2 = Env(env.mod, env)
            it.assign(g.target, mk(term(i) + term(lo)), e2)
            return it.eval(n.elt, e2)
        return Vec(nn, fn)
    if isinstance(src, Vec) and not isinstance(src.n, int):
        from .evalx import Env

        def fn(i):
            e2 = Env(env.mod, env)
            it.assign(g.target, src.at(i), e2)
            return it.eval(n.elt, e2)
        return Vec(src.n, fn)
    # re-evaluating g.iter below would double side effects; hand the evaluated value back
    out = []
    from .evalx import Env
    for item in it.iterate(src):
        e2 = Env(env.mod, env)
        it.assign(g.target, item, e2)
        out.append(it.eval(n.elt, e2))
    return out


def value_attr(it, o, name):
    """attributes / methods of non-Obj values"""
    p = it.p
    if isinstance(o, Vec):
        if name == 'shape':
            return (o.n if isinstance(o.n, int) else SV(o.n),)
        if name == 'size':
            return o.n if isinstance(o.n, int) else SV(o.n)
        if name == 'copy':
            return Builtin('copy', lambda it, a, k: o)
        if name == 'tolist':
            return Builtin('tolist', lambda it, a, k: it.iterate(o))
        if name in ('min', 'max'):
            return Builtin(name, lambda it, a, k: minmax(it, [o], {}, name == 'min'))
        if name == 'sum':
            return Builtin('sum', lambda it, a, k: np_sum(it, [o], k))
        if name == 'mean':
            return Builtin('mean', lambda it, a, k: np_mean(it, [o], k))
        if name == 'any':
            return Builtin('any', lambda it, a, k: b_any(it, [o], k))
        if name == 'all':
            return Builtin('all', lambda it, a, k: b_all(it, [o], k))
        if name == 'ndim':
            return 1
    if isinstance(o, Mat):
        if name == 'shape':
            return (o.n if isinstance(o.n, int) else SV(o.n), o.m if isinstance(o.m, int) else SV(o.m))
        if name == 'T' or name == 'transpose':
            t = Mat(o.m, o.n, lambda i, j: o.at(j, i))
            return t if name == 'T' else Builtin('transpose', lambda it, a, k: t)
    if isinstance(o, list):
        return list_method(it, o, name)
    if isinstance(o, dict):
        return dict_method(it, o, name)
    if isinstance(o, str):
        return str_method(it, o, name)
    if isinstance(o, tuple):
        if name == 'index':
            return list_method(it, list(o), name)
        if name == 'count':
            return list_method(it, list(o), name)
    if isinstance(o, SList):
        return slist_method(it, o, name)
    if isinstance(o, SDict):
        if name == 'get':
            def g(it, a, k):
                kt = o.key(it, a[0])
                d = a[1] if len(a) > 1 else None
                if it.p.truth(mk(o.has(kt))):
                    return o.wrap(o.get(kt))
                return d
            return Builtin('sdict.get', g)
        if name == 'keys':
            return Builtin('sdict.keys', lambda it, a, k: o)
    if isinstance(o, SV) and o.kind == 'str':
        if name in ('lower', 'upper', 'strip'):
            f = it.engine.str_fun(name)
            return Builtin(name, lambda it, a, k: SV(f(o.t)))
        if name in ('startswith', 'endswith'):
            raise Unsupported(f'{name} on symbolic string')
    if isinstance(o, (int, Fraction, SV)) and name in ('real',):
        return o
    if isinstance(o, (int, Fraction)) or (isinstance(o, SV) and o.kind in ('int', 'real')):
        if name == 'size':
            return 1             # asarray(scalar).size
        if name == 'shape':
            return ()
    if isinstance(o, Builtin) and o.name == 'dict' and name == 'fromkeys':
        return Builtin('fromkeys', lambda it, a, k: {it.key_of(x): (a[1] if len(a) > 1 else None) for x in it.iterate(a[0])})
    return NotImplemented


def list_method(it, o, name):
    p = it.p

    def m_append(it, a, k):
        o.append(a[0])

    def m_extend(it, a, k):
        o.extend(it.iterate(a[0]))

    def m_index(it, a, k):
        for i, x in enumerate(o):
            if p.truth(it.ops.eq(x, a[0])):
                return i
        raise p.pyexc('ValueError')

    def m_pop(it, a, k):
        if not o:
            raise p.pyexc('IndexError')
        return o.pop(*a)

    def m_remove(it, a, k):
        for i, x in enumerate(o):
            if p.truth(it.ops.eq(x, a[0])):
                del o[i]
                return
        raise p.pyexc('ValueError')

    def m_insert(it, a, k):
        o.insert(a[0], a[1])

    def m_copy(it, a, k):
        return list(o)

    def m_count(it, a, k):
        c = 0
        for x in o:
            e = it.ops.eq(x, a[0])
            c = it.ops.binop('Add', c, e if isinstance(e, bool) else mk(z3.If(boolterm(e), 1, 0)))
        return c

    def m_sort(it, a, k):
        o[:] = b_sorted(it, [o], k)

    def m_reverse(it, a, k):
        o.reverse()

    def m_clear(it, a, k):
        o.clear()
    tbl = {'append': m_append, 'extend': m_extend, 'index': m_index, 'pop': m_pop, 'remove': m_remove,
           'insert': m_insert, 'copy': m_copy, 'count': m_count, 'sort': m_sort, 'reverse': m_reverse,
           'clear': m_clear}
    if name in tbl:
        return Builtin('list.' + name, tbl[name])
    return NotImplemented


def dict_method(it, o, name):
    p = it.p

    def unk(k):
        return k[2] if (isinstance(k, tuple) and k and k[0] == 'sv') else k

    def m_get(it, a, k):
        key = a[0]
        dflt = a[1] if len(a) > 1 else None
        if isinstance(key, SV):
            for kk in o.keys():
                if p.truth(it.ops.eq(unk(kk), key)):
                    return o[kk]
            return dflt
        return o.get(it.key_of(key), dflt)

    def m_items(it, a, k):
        return [(unk(kk), v) for kk, v in o.items()]

    def m_keys(it, a, k):
        return [unk(kk) for kk in o.keys()]

    def m_values(it, a, k):
        return list(o.values())

    def m_update(it, a, k):
        if a:
            src = a[0]
            if isinstance(src, dict):
                o.update(src)
            else:
                for kv in it.iterate(src):
                    kk, vv = it.iterate(kv)
                    o[it.key_of(kk)] = vv
        o.update(k)

    def m_pop(it, a, k):
        key = it.key_of(a[0])
        if key in o:
            return o.pop(key)
        if len(a) > 1:
            return a[1]
        raise p.pyexc('KeyError')

    def m_setdefault(it, a, k):
        key = it.key_of(a[0])
        if key not in o:
            o[key] = a[1] if len(a) > 1 else None
        return o[key]

    def m_copy(it, a, k):
        return dict(o)
    tbl = {'get': m_get, 'items': m_items, 'keys': m_keys, 'values': m_values, 'update': m_update, 'pop': m_pop,
           'setdefault': m_setdefault, 'copy': m_copy}
    if name in tbl:
        return Builtin('dict.' + name, tbl[name])
    return NotImplemented


def str_method(it, o, name):
    def wrap(fn):
        def g(it, a, k):
            if all(isinstance(x, (str, int)) or x is None for x in a):
                r = fn(*a)
                return list(r) if isinstance(r, list) else r
            raise Unsupported(f'str.{name} with symbolic argument')
        return Builtin('str.' + name, g)
    if name in ('lower', 'upper', 'strip', 'split', 'rsplit', 'startswith', 'endswith', 'replace', 'format', 'join',
                'lstrip', 'rstrip', 'find', 'count', 'title', 'isdigit'):
        if name == 'join':
            def j(it, a, k):
                items = it.iterate(a[0])
                if all(isinstance(x, str) for x in items):
                    return o.join(items)
                return it.engine.fstring_value(it.p, ['join', o] + items)
            return Builtin('str.join', j)
        if name == 'format':
            def fm(it, a, k):
                return it.engine.fstring_value(it.p, ['format', o] + list(a))
            return Builtin('str.format', fm)
        return wrap(getattr(o, name))
    return NotImplemented


# ---------------------------------------------------------------------- spec-only helpers

def s_forall(it, a, k):
    """forall(lambda i: body, hi)  or forall(lambda i: body, lo, hi)"""
    f = a[0]
    if len(a) == 2:
        lo, hi = 0, a[1]
    else:
        lo, hi = a[1], a[2]

    def body(i):
        return it.call(f, [i], {})
    return Forall(lo, hi, body)


def s_forall2(it, a, k):
    f, h1, h2 = a

    def body(i, j):
        return it.call(f, [i, j], {})
    return Forall((0, 0), (h1, h2), body, nvars=2)


def s_exists(it, a, k):
    f = a[0]
    lo, hi = (0, a[1]) if len(a) == 2 else (a[1], a[2])
    return Exists(lo, hi, lambda i: it.sbool(it.call(f, [i], {})))


def s_implies(it, a, k):
    x, y = a
    if x is False:
        return True
    if isinstance(y, Exists):
        return Exists(y.lo, y.hi, y.body, it.ops.land(it.sbool(y.guard), it.sbool(x)))
    if isinstance(y, Hyp):
        return Hyp([x] + list(y.hyps), y.goal)
    if isinstance(y, Forall):
        inner = y
        return Forall(inner.lo, inner.hi, lambda *ii: s_implies(it, [x, inner.body(*ii)], {}), nvars=inner.nvars)
    return it.ops.lor(it.ops.lnot(it.sbool(x)), it.sbool(y))


def s_given(it, a, k):
    """given([h1, h2, ...], goal): goal under hypotheses that may be universally quantified"""
    hyps, goal = a
    return Hyp(list(hyps), goal)


def s_named(it, a, k):
    """named(x): a fresh constant defined equal to x (conservative let-abstraction that keeps later nonlinear
    reasoning small)"""
    x = a[0]
    if not isinstance(x, SV) or x.kind not in ('real', 'int'):
        return x
    c = it.p.fresh_def('let', x.t.sort())
    it.p.assume(c == x.t)
    return SV(c)


def s_ite(it, a, k):
    c, x, y = a
    if isinstance(c, bool):
        return x if c else y
    return it.ops.ite(boolterm(c), x, y)


def s_is_none(it, a, k):
    return it.is_(a[0], None)


def s_db2lin(it, a, k):
    return it.ops.map1(lambda v: it.ops.uf('db2lin', v), a[0])


def s_lin2db(it, a, k):
    return it.ops.map1(lambda v: it.ops.uf('lin2db', v), a[0])


def s_veclen(it, a, k):
    return np_len(it, a[0])


def s_iff(it, a, k):
    x, y = it.sbool(a[0]), it.sbool(a[1])
    if isinstance(x, bool) and isinstance(y, bool):
        return x == y
    return mk(boolterm(x) == boolterm(y))


def s_mask_index(it, a, k):
    """mask_index(mask) -> (m, iota as callable) for contracts about x[mask]"""
    m, iota, rank = mask_embedding(it, a[0])
    return (SV(m), Builtin('iota', lambda it2, b, kk: _app_idx(it2, iota, b[0])),
            Builtin('rank', lambda it2, b, kk: _app_idx(it2, rank, b[0])))


def s_sort_perm(it, a, k):
    pi, inv = perm_of(it, as_vec(it, a[0]))
    return (Builtin('pi', lambda it2, b, kk: _app_idx(it2, pi, b[0])),
            Builtin('pinv', lambda it2, b, kk: _app_idx(it2, inv, b[0])))


def _app_idx(it, f, i):
    t = f(term(i))
    it.p.note_idx(t)
    return SV(t)


def s_at(it, a, k):
    x, i = a
    if isinstance(x, (Vec, list, tuple)):
        return getitem(it, x, i)
    return x


SPEC_BUILTINS = {
    'at': s_at,
    'forall': s_forall, 'exists': s_exists, 'given': s_given, 'named': s_named, 'forall2': s_forall2, 'implies': s_implies, 'ite': s_ite, 'is_none': s_is_none,
    'spec_db2lin': s_db2lin, 'spec_lin2db': s_lin2db, 'iff': s_iff, 'mask_index': s_mask_index,
    'sort_perm': s_sort_perm,
}


# ---------------------------------------------------------------------- SList (symbolic-length python lists)
# filled in by slist.py
def _ni(*a, **k):
    raise Unsupported('symbolic-length list operation')


slist_setitem = slist_binop = slist_compare = slist_contains = slist_getitem = slist_slice = slist_range = \
    slist_copy = slist_method = _ni
