"""pyvc value domain: what a Python value is during symbolic execution.

Concrete Python structure (objects, lists, dicts, tuples, strings, ints, exact rationals) is kept concrete;
only leaves are z3 terms.  numpy arrays are mathematical vectors (length + element closure).
"""
from fractions import Fraction
import itertools
import z3

StrS = z3.DeclareSort('Str')
_uid = itertools.count()


def fresh(prefix, sort):
    return z3.Const(f'{prefix}!{next(_uid)}', sort)


def fresh_fun(prefix, *sorts):
    return z3.Function(f'{prefix}!{next(_uid)}', *sorts)


class Unsupported(Exception):
    """The code uses something the translation does not model: the function is undecided, never 'violated'."""


class SV:
    """scalar symbolic value: a z3 term of sort Int, Real, Bool or Str"""
    __slots__ = ('t',)

    def __init__(self, t):
        self.t = t

    @property
    def kind(self):
        s = self.t.sort()
        if s == z3.IntSort():
            return 'int'
        if s == z3.RealSort():
            return 'real'
        if s == z3.BoolSort():
            return 'bool'
        if s == StrS:
            return 'str'
        return str(s)

    def __repr__(self):
        return f'SV({self.t})'


class Opt:
    """a value that may be None: None iff isnone"""
    __slots__ = ('isnone', 'val')

    def __init__(self, isnone, val):
        self.isnone = isnone
        self.val = val

    def __repr__(self):
        return f'Opt({self.isnone},{self.val})'


class Inf:
    """+inf / -inf as created on purpose by the code (float('inf'))"""
    __slots__ = ('sign',)

    def __init__(self, sign=1):
        self.sign = sign

    def __repr__(self):
        return 'inf' if self.sign > 0 else '-inf'


class Vec:
    """numpy 1-D array: length n (python int or z3 Int term) and element closure fn(index)->value."""

    def __init__(self, n, fn, name=None):
        self.n = n
        self._fn = fn
        self._memo = {}
        self.name = name

    def at(self, i):
        key = i if isinstance(i, int) else i.get_id()
        if key not in self._memo:
            self._memo[key] = self._fn(i)
        return self._memo[key]

    def __repr__(self):
        return f'Vec(n={self.n},{self.name})'


class Mat:
    """numpy 2-D array: shape (n, m), closure fn(i, j)"""

    def __init__(self, n, m, fn):
        self.n = n
        self.m = m
        self._fn = fn
        self._memo = {}

    def at(self, i, j):
        key = (i if isinstance(i, int) else i.get_id(), j if isinstance(j, int) else j.get_id())
        if key not in self._memo:
            self._memo[key] = self._fn(i, j)
        return self._memo[key]


class Obj:
    """instance of a repository class (or a namespace): identity = python identity, fields mutable per path"""

    def __init__(self, cls, fields=None, label=None):
        self.cls = cls
        self.fields = fields if fields is not None else {}
        self.label = label

    def __repr__(self):
        return f'<{self.cls} {self.label or hex(id(self))}>'


class PySet(list):
    """python set: a duplicate-free list (iteration order = first occurrence, unspecified in python); == is set equality"""


class SList:
    """python list of symbolic length: z3 Array Int->PyVal-ish (here Int codes) plus length; mutable ref"""

    def __init__(self, arr, n, label=None):
        self.arr = arr
        self.n = n
        self.label = label
        self.fn = (lambda i: z3.Select(arr, i)) if arr is not None else None
        self.enum = None

    def __repr__(self):
        return f'<SList {self.label} n={self.n}>'


class EnumVal:
    """member of an Enum class of the repository; inside symbolic-length lists it is represented by `code`"""

    def __init__(self, cls, name, value, code):
        self.cls, self.name, self.value, self.code = cls, name, value, code

    def __repr__(self):
        return f'{self.cls}.{self.name}'

    def __eq__(self, o):
        return isinstance(o, EnumVal) and (o.cls, o.name) == (self.cls, self.name)

    def __hash__(self):
        return hash((self.cls, self.name))


class EnumSym:
    """symbolic member of an Enum class (element read from a symbolic-length list): integer code term"""

    def __init__(self, cls, t):
        self.cls, self.t = cls, t


class EnumValueSym:
    """.value of a symbolic enum member: only its truthiness and equality with constants are observable"""

    def __init__(self, cls, t):
        self.cls, self.t = cls, t


class SDict:
    """dict with symbolic (string-sorted) keys: has(key) predicate and value function; immutable view"""

    def __init__(self, has, get, label=None):
        self.has = has
        self.get = get
        self.label = label


class Forall:
    """universally quantified clause: body(i) -> Bool term, for lo <= i < hi"""

    def __init__(self, lo, hi, body, nvars=1):
        self.lo = lo
        self.hi = hi
        self.body = body
        self.nvars = nvars


class Exists:
    """exists lo <= i < hi: body(i), under guard"""

    def __init__(self, lo, hi, body, guard=True):
        self.lo = lo
        self.hi = hi
        self.body = body
        self.guard = guard


class Hyp:
    """hypothetical clause: hyps (Bool terms / Forall) |- goal   (goals with universally quantified premises)"""

    def __init__(self, hyps, goal):
        self.hyps = hyps
        self.goal = goal


class Func:
    """a callable defined in the interpreted code (lambda or nested def) or a bound method"""

    def __init__(self, node, env, mod, self_obj=None, cls=None, name=None):
        self.node = node
        self.env = env
        self.mod = mod
        self.self_obj = self_obj
        self.cls = cls
        self.name = name


class Builtin:
    def __init__(self, name, fn):
        self.name = name
        self.fn = fn

    def __repr__(self):
        return f'<builtin {self.name}>'


class ClassRef:
    def __init__(self, qual):
        self.qual = qual

    def __repr__(self):
        return f'<class {self.qual}>'


class ExcClass:
    """an exception class (repo or builtin) by name, with its base names"""

    def __init__(self, name, bases=()):
        self.name = name
        self.bases = tuple(bases)


class ModuleRef:
    def __init__(self, name):
        self.name = name


def to_frac(x):
    if isinstance(x, bool):
        return x
    if isinstance(x, int):
        return x
    if isinstance(x, float):
        if x != x or x in (float('inf'), float('-inf')):
            raise Unsupported('non-finite float constant')
        return Fraction(repr(x))
    return x


def is_num(x):
    return isinstance(x, (int, Fraction)) and not isinstance(x, bool)


def z3num(x, real=False):
    if isinstance(x, bool):
        return z3.BoolVal(x)
    if isinstance(x, int):
        return z3.RealVal(x) if real else z3.IntVal(x)
    if isinstance(x, Fraction):
        if x.denominator == 1 and not real:
            return z3.RealVal(x.numerator)
        return z3.RealVal(f'{x.numerator}/{x.denominator}')
    raise TypeError(x)
