"""Native replay of a counter-model against the real function (runs under /venv/bin/python, no z3).

usage: replay_native.py <replay.json>
prints one JSON line: {"result": "reproduced" | "not-reproduced" | "error", ...}
"""
import ast
import copy
import importlib
import json
import math
import os
import random
import sys

import numpy as np

REPO = os.environ.get('PYVC_REPO', '/repo')
sys.path.insert(0, REPO)

SEARCH = ['gnpy.core.info', 'gnpy.core.elements', 'gnpy.core.parameters', 'gnpy.core.network',
          'gnpy.core.science_utils', 'gnpy.core.equipment', 'gnpy.topology.request',
          'gnpy.topology.spectrum_assignment', 'gnpy.tools.json_io', 'gnpy.tools.convert',
          'gnpy.tools.service_sheet', 'gnpy.core.utils']


class NS:
    """attribute bag for objects whose class is not a repository class"""

    def __init__(self, **kw):
        self.__dict__.update(kw)

    def _asdict(self):          # objects of class '<nt>' stand for namedtuples
        return dict(self.__dict__)

    def _replace(self, **kw):
        return NS(**dict(self.__dict__, **kw))


def find_class(name):
    if '.' in name:
        mod, _, cls = name.rpartition('.')
        try:
            return getattr(importlib.import_module(mod), cls)
        except Exception:
            name = cls
    for m in SEARCH:
        try:
            mod = importlib.import_module(m)
        except Exception:
            continue
        if hasattr(mod, name):
            return getattr(mod, name)
    return None


def build(v, memo):
    if isinstance(v, dict):
        if '__vec__' in v:
            items = [build(x, memo) for x in v['__vec__']]
            if items and all(isinstance(x, str) for x in items):
                return np.array(items, dtype=object)
            return np.array(items)
        if '__ilist__' in v:
            items = v['__ilist__']
            if v.get('enum'):
                cls = find_class(v['enum'])
                members = list(cls)
                out = []
                for c in items:
                    hit = [m for m in members if m.value == c]
                    if hit:
                        out.append(hit[0])
                    elif isinstance(c, int) and c >= 1000 and c - 1000 < len(members):
                        out.append(members[c - 1000])
                    else:
                        out.append(c)
                return out
            return list(items)
        if '__ref__' in v:
            return memo[v['__ref__']]
        if '__obj__' in v:
            cls = find_class(v['__obj__'])
            try:
                o = object.__new__(cls) if isinstance(cls, type) and not issubclass(cls, tuple) else NS()
            except TypeError:
                o = NS()
            memo[v['__id__']] = o
            for k, x in v['fields'].items():
                val = build(x, memo)
                if val is ABSENT:
                    continue
                try:
                    object.__setattr__(o, k, val)
                except Exception:
                    o.__dict__[k] = val
            return o
        if '__tuple__' in v:
            return tuple(build(x, memo) for x in v['__tuple__'])
        if '__dict__' in v:
            return {build(k, memo) if not isinstance(k, list) else tuple(k): build(x, memo) for k, x in v['__dict__']}
        if '__inf__' in v:
            return float('inf') * v['__inf__']
        if '__absent__' in v:
            return ABSENT
        if '__opaque__' in v:
            return None
        return {k: build(x, memo) for k, x in v.items()}
    if isinstance(v, list):
        return [build(x, memo) for x in v]
    return v


ABSENT = object()

TOL = 1e-9


def _eq(a, b):
    if isinstance(a, (float, np.floating)) or isinstance(b, (float, np.floating)):
        try:
            if math.isinf(a) or math.isinf(b):
                return a == b
            return bool(abs(a - b) <= TOL * max(1.0, abs(a), abs(b)))
        except TypeError:
            return a == b
    r = a == b
    if isinstance(r, np.ndarray):
        return bool(r.all())
    return r


def _le(a, b):
    return bool(a <= b + TOL * max(1.0, abs(a), abs(b)))


def _lt(a, b):
    return bool(a < b)


class Relax(ast.NodeTransformer):
    """float-tolerant comparisons; old(e) -> snapshot lookup"""

    def __init__(self):
        self.olds = []

    def visit_Call(self, n):
        if isinstance(n.func, ast.Name) and n.func.id == 'old':
            self.olds.append(n.args[0])
            return ast.Subscript(ast.Name('__old__', ast.Load()), ast.Constant(len(self.olds) - 1), ast.Load())
        self.generic_visit(n)
        return n

    def visit_Compare(self, n):
        self.generic_visit(n)
        if len(n.ops) == 1:
            op = n.ops[0]
            f = {'Eq': '_eq', 'LtE': '_le', 'GtE': '_ge', 'NotEq': '_ne'}.get(type(op).__name__)
            if f:
                return ast.Call(ast.Name(f, ast.Load()), [n.left, n.comparators[0]], [])
        return n


def helpers():
    def forall(f, *a):
        lo, hi = (0, a[0]) if len(a) == 1 else a
        return all(bool(f(i)) for i in range(int(lo), int(hi)))

    def exists(f, *a):
        lo, hi = (0, a[0]) if len(a) == 1 else a
        return any(bool(f(i)) for i in range(int(lo), int(hi)))

    def forall2(f, n, m):
        return all(bool(f(i, j)) for i in range(int(n)) for j in range(int(m)))

    def implies(a, b):
        return (not a) or bool(b)

    def given(hyps, goal):
        return (not all(bool(h) for h in hyps)) or bool(goal)

    def iff(a, b):
        return bool(a) == bool(b)

    def at(x, i):
        if isinstance(x, np.ndarray) and x.ndim == 0:      # squeeze() of a one-entry array
            return x[()]
        return x[i] if isinstance(x, (np.ndarray, list, tuple)) else x

    def ite(c, a, b):
        return a if c else b

    def sort_perm(key):
        pi = np.argsort(np.asarray(key), kind='stable')
        inv = np.argsort(pi)
        return (lambda k: int(pi[k])), (lambda k: int(inv[k]))

    def mask_index(mask):
        idx = [i for i, m in enumerate(mask) if m]
        rank = {j: k for k, j in enumerate(idx)}
        return len(idx), (lambda k: idx[k]), (lambda j: rank[j])
    return dict(forall=forall, exists=exists, given=given, forall2=forall2, implies=implies, iff=iff, at=at, ite=ite, sort_perm=sort_perm,
                mask_index=mask_index, is_none=lambda x: x is None, named=lambda x: x,
                spec_db2lin=lambda x: 10 ** (np.asarray(x) / 10) if not np.isscalar(x) else 10 ** (x / 10),
                spec_lin2db=lambda x: 10 * np.log10(x),
                _eq=_eq, _le=_le, _ge=lambda a, b: _le(b, a), _ne=lambda a, b: not _eq(a, b),
                np=np, math=math)


def spec_namespace(info, modname):
    ns = {}
    try:
        mod = importlib.import_module(modname)
        ns.update(mod.__dict__)
    except Exception:
        pass
    ns.update(helpers())
    if info.get('spec'):
        exec(compile(info['spec'], '<spec>', 'exec'), ns)
    return ns


def eval_clause(expr, ns, env, old_env):
    tr = Relax()
    tree = tr.visit(ast.parse(expr, mode='eval'))
    ast.fix_missing_locations(tree)
    olds = []
    for e in tr.olds:
        ee = ast.Expression(e)
        ast.fix_missing_locations(ee)
        olds.append(eval(compile(ee, '<old>', 'eval'), ns, dict(old_env)))
    loc = dict(env)
    loc['__old__'] = olds
    g = dict(ns)
    g.update(loc)
    return eval(compile(tree, '<clause>', 'eval'), g)


def run_once(info, inputs):
    """returns (status, detail): status in reproduced / held / precondition-false / error"""
    qual = info['function']
    parts = qual.split('.')
    fn = None
    for target, src in (info.get('native_patches') or {}).items():
        # assumed callee contracts realised natively (ghost parameters)
        tm, _, ta = target.rpartition('.')
        setattr(importlib.import_module(tm), ta, eval(src))
    if info.get('harness'):
        modname = info['module']
        g = dict(importlib.import_module(modname).__dict__)
        exec(compile(info['harness'], '<harness>', 'exec'), g)
        names = [n.name for n in ast.parse(info['harness']).body if isinstance(n, ast.FunctionDef)]
        fn = g[names[-1]]
        parts = []
    for k in range(len(parts) - 1, 0, -1):
        try:
            mod = importlib.import_module('.'.join(parts[:k]))
        except Exception:
            continue
        o = mod
        try:
            for p in parts[k:]:
                if p == 'setter':
                    o = o.fset
                else:
                    o = o.__dict__[p] if isinstance(o, type) and p in o.__dict__ else getattr(o, p)
            fn = o
            modname = '.'.join(parts[:k])
            break
        except Exception:
            continue
    if fn is None:
        return 'error', f'cannot resolve {qual}'
    if info.get('loop') is not None:
        # the loop body as a function of the contract's parameters, extracted from the real source like pyvc does
        import inspect
        import textwrap
        src = textwrap.dedent(inspect.getsource(fn))
        fnode = ast.parse(src).body[0]
        loops = [n for n in ast.walk(fnode) if isinstance(n, (ast.For, ast.While))]
        loops.sort(key=lambda n: (n.lineno, n.col_offset))
        lp = loops[info['loop']]
        args = ast.arguments(posonlyargs=[], args=[ast.arg(arg=a) for a in info['params']], vararg=None, kwonlyargs=[],
                             kw_defaults=[], kwarg=None, defaults=[])
        body = list(lp.body)

        class Cut(ast.NodeTransformer):
            def visit_Continue(self, n):
                return ast.Return(value=None)

            def visit_Break(self, n):
                return ast.Return(value=None)
        body = [Cut().visit(b) for b in body]
        fd = ast.FunctionDef(name='loop_body', args=args, body=body, decorator_list=[], returns=None, type_comment=None)
        mod_ast = ast.Module(body=[fd], type_ignores=[])
        ast.fix_missing_locations(mod_ast)
        g = dict(importlib.import_module(modname).__dict__)
        exec(compile(mod_ast, '<loop body>', 'exec'), g)
        fn = g['loop_body']
    if isinstance(fn, property):
        fn = fn.fget
    if isinstance(fn, (staticmethod, classmethod)):
        fn = fn.__func__
    ns = spec_namespace(info, modname)
    memo = {}
    vals = {k: build(v, memo) for k, v in inputs.items()}
    old_vals = copy.deepcopy(vals)
    env = dict(vals)
    old_env = dict(old_vals)
    try:
        for nm, ex in (info.get('let') or {}).items():
            if 'result' in ex:
                continue
            env[nm] = eval_clause(ex, ns, env, old_env)
            old_env[nm] = eval_clause(ex, ns, old_env, old_env)
        for nm, ex in info.get('requires') or []:
            if not eval_clause(ex, ns, env, old_env):
                return 'precondition-false', nm
    except Exception as e:
        return 'error', f'precondition evaluation: {type(e).__name__}: {e}'
    exc = None
    result = None
    try:
        call_vals = dict(vals)
        try:
            import inspect as _insp
            vk = [p_.name for p_ in _insp.signature(fn).parameters.values() if p_.kind == p_.VAR_KEYWORD]
            if vk and isinstance(call_vals.get(vk[0]), dict):
                call_vals.update(call_vals.pop(vk[0]))      # def f(self, **kwargs): the dict parameter is the keyword set
        except (TypeError, ValueError):
            pass
        result = fn(**call_vals)
    except Exception as e:
        exc = e
    kind = info.get('kind')
    clause = info.get('clause')
    name = info.get('obligation', '')
    if kind == 'raises':
        if '#no-' in name:
            # function returned in the model although the raise-condition holds
            cond = eval_clause(clause, ns, old_env, old_env)
            if exc is None and cond:
                return 'reproduced', 'returned normally although the declared raise condition holds'
            return 'held', f'exc={type(exc).__name__ if exc else None} cond={bool(cond)}'
        if '#raises-' in name:
            cond = eval_clause(clause, ns, old_env, old_env)
            want = name.split('#raises-')[1].split('-only-if')[0]
            if exc is not None and want not in [k.__name__ for k in type(exc).__mro__]:
                return 'held', f'native run raised {type(exc).__name__}: {exc} (not the exception of this obligation)'
            if exc is not None and not cond:
                return 'reproduced', f'raised {type(exc).__name__} although the declared condition is false'
            return 'held', f'exc={type(exc).__name__ if exc else None} cond={bool(cond)}'
        if '#unexpected-' in name:
            if exc is not None:
                return 'reproduced', f'raised undeclared {type(exc).__name__}: {exc}'
            return 'held', 'no exception natively'
    if exc is not None:
        return 'held', f'native run raised {type(exc).__name__}: {exc} (obligation is about the normal return)'
    env['result'] = result
    try:
        for nm, ex in (info.get('let') or {}).items():
            env[nm] = eval_clause(ex, ns, env, old_env)
    except Exception:
        pass
    if kind == 'frame':
        field = name.split('#frame:')[-1].split('@')[0]
        return frame_check(field, vals, old_vals)
    try:
        ok = eval_clause(clause, ns, env, old_env)
    except Exception as e:
        return 'error', f'clause evaluation: {type(e).__name__}: {e}'
    if not ok:
        return 'reproduced', 'clause is false on the real function for this input'
    return 'held', 'clause holds natively for this input'


def frame_check(field, vals, old_vals):
    lbl, _, f = field.rpartition('.')
    f = f.split('.')[0] if f.isdigit() else f
    for k in vals:
        o, oo = vals[k], old_vals[k]
        if hasattr(o, '__dict__') and f in getattr(oo, '__dict__', {}):
            a, b = o.__dict__.get(f, ABSENT), oo.__dict__[f]
            try:
                same = _eq(a, b) if not isinstance(a, np.ndarray) else (a.shape == b.shape and np.allclose(a, b, rtol=1e-9, atol=0))
            except Exception:
                same = a is b
            if not same:
                return 'reproduced', f'{k}.{f} changed outside the modifies clause'
    return 'held', 'field unchanged natively'


def smoke(path):
    """run the real function once per clause on a solver-chosen input and evaluate every postcondition natively"""
    info = json.load(open(path))
    inputs = info['counter_model']['inputs']
    out = {'clauses': []}
    raises = info.get('raises') or {}
    for nm, ex in info.get('clauses') or []:
        one = dict(info, kind='ensures', clause=ex, obligation=f"{info['contract']}#{nm}")
        try:
            st, detail = run_once(one, inputs)
        except Exception as e:
            st, detail = 'error', f'{type(e).__name__}: {e}'
        if st == 'precondition-false':
            out['precondition'] = 'false'
            break
        if st == 'held' and 'native run raised' in detail:
            # the function raised: acceptable only if a declared raises condition covers it
            exc_name = detail.split('native run raised ')[1].split(':')[0]
            declared = [k for k in raises if k == exc_name or exc_name.endswith(k)]
            st = 'held' if declared else 'failed'
            detail = f'{detail} (declared raises: {list(raises)})'
        st = {'reproduced': 'failed'}.get(st, st)
        d = str(detail)
        if st == 'failed' and ("'NS' object" in d or "has no attribute" in d or 'unexpected keyword argument' in d):
            st = 'error'          # ghost objects / call conventions of the contract that the native harness cannot rebuild
        if st == 'failed' and ' is ' in ex and 'old(' in (ex + str(info.get('let'))):
            st = 'error'          # identity against old(): the native pre-state is a deep copy, identity cannot be judged
        out['clauses'].append([nm, st, d])
    print(json.dumps(out))


def main():
    if sys.argv[1] == '--smoke':
        return smoke(sys.argv[2])
    info = json.load(open(sys.argv[1]))
    cm = info.get('counter_model') or {}
    out = {'result': 'not-reproduced'}
    if 'inputs' in cm:
        try:
            st, detail = run_once(info, cm['inputs'])
        except Exception as e:
            st, detail = 'error', f'{type(e).__name__}: {e}'
        out['model_run'] = [st, detail]
        if st == 'reproduced':
            out['result'] = 'reproduced'
    else:
        out['model_run'] = ['error', cm.get('inputs_error', 'no concrete inputs in counter-model')]
    print(json.dumps(out))


if __name__ == '__main__':
    main()
