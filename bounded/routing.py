"""Bounded stand-in for C11: routes computed by the real pipeline (correct_json_route_list + compute_path_dsjctn) on small
designed topologies against a brute-force oracle over all simple paths."""
import itertools
import time
from copy import deepcopy
import networkx as nx
from bounded.common import args, finish, mesh, design, equipment, TOPOLOGIES, service, roadm_links

a = args()
from gnpy.core.elements import Roadm, Transceiver, Fiber, Edfa
from gnpy.tools.json_io import requests_from_json, disjunctions_from_json
from gnpy.topology.request import correct_json_route_list, compute_path_dsjctn, find_reversed_path, deduplicate_disjunctions
from gnpy.topology.spectrum_assignment import build_oms_list

t0 = time.time()
wit = []
cases = nontriv = 0
# unequal link lengths so that the shortest route is unique
LENS = {('A', 'B'): [20, 100], ('B', 'C'): [50], ('C', 'D'): [70], ('D', 'A'): [90], ('A', 'C'): [200], ('B', 'D'): [60], ('C', 'A'): [200],
        ('A', 'D'): [90]}


def fibre_len(path):
    return sum(e.params.length for e in path if isinstance(e, Fiber))


names = ['ring3', 'star4', 'ring4', 'mesh4'] if a.tier == 'quick' else ['line3', 'ring3', 'star4', 'ring4', 'mesh4', 'full4']
# the same mesh with operator-placed in-line amplifiers, one of them behind a 200 km fibre (which auto-design splits)
LENS_AMP = {**LENS, ('A', 'C'): [200, 30], ('C', 'A'): [200, 30]}
for name in names + ['mesh4:in-line amplifiers given']:
    sites, links = TOPOLOGIES[name.split(':')[0]]
    lens = LENS_AMP if ':' in name else LENS
    topo = mesh(sites, links, spans={l: lens.get(l, lens.get((l[1], l[0]), [80])) for l in links}, junction='edfa' if ':' in name else 'none')
    net, eqpt = design(topo)
    build_oms_list(net, eqpt)
    by_uid = {n.uid: n for n in net.nodes()}
    for src, dst in itertools.permutations(sites, 2):
        all_paths = list(nx.all_simple_paths(net, by_uid[f'trx {src}'], by_uid[f'trx {dst}']))
        line_els = [n.uid for n in net.nodes() if isinstance(n, Edfa)][:2]
        incs = [None] + [[f'roadm {x}'] for x in sites if x not in (src, dst)] + \
            [[f'roadm {x}', f'roadm {y}'] for x, y in itertools.permutations([s for s in sites if s not in (src, dst)], 2)][:4] + \
            [[e] for e in line_els] + [['roadm ' + [s for s in sites if s not in (src, dst)][0], line_els[0]]]
        # pairs of line elements around the source / destination ROADM: lines arriving at and leaving the end sites
        near = [n.uid for n in net.nodes() if isinstance(n, Edfa) and any(isinstance(x, Roadm) and x.uid in (f'roadm {src}', f'roadm {dst}')
                                                                           for x in list(net.predecessors(n)) + list(net.successors(n)))]
        incs += [[x, y] for x, y in itertools.permutations(near, 2)][:(12 if a.tier == 'quick' else 60)]
        others = [s_ for s_ in sites if s_ not in (src, dst)]
        # three lines named one after the other that pass the destination and come back to it (and the same leaving the source
        # and coming back): the lines are adjacent, the walk along them is not a path
        for x in others:
            for walk in ([(src, dst), (dst, x), (x, dst)], [(src, x), (x, src), (src, dst)]):
                uids = [next((u for u in by_uid if u.startswith(f'fiber ({p_} -> {q_})')), None) for p_, q_ in walk]
                if all(uids):
                    incs.append(uids)
        # unknown node names given as LOOSE hops (dropped by the clean-up) in front of a real STRICT / LOOSE hop
        mixed = [(['roadm X1', 'roadm X2', f'roadm {others[0]}'], [False, False, True]),
                 (['roadm X1', f'roadm {others[0]}'], [False, True]),
                 (['roadm X1', 'roadm X2', f'roadm {others[0]}'], [False, False, False])] if others else []
        for inc, strict in [(i_, s_) for i_ in incs for s_ in (True, False)] + mixed:
                if inc is None and not strict:
                    continue
                flags = strict if isinstance(strict, list) else [strict] * len(inc or [])
                real = [(n, f) for n, f in zip(inc or [], flags) if n in by_uid]
                inc_eff = [n for n, _ in real]
                strict_eff = any(f for _, f in real)
                cases += 1
                data = {'path-request': [service(0, src, dst, include=inc, strict=strict)]}
                rqs = requests_from_json(data, eqpt)
                rqs = correct_json_route_list(net, rqs)
                pths = compute_path_dsjctn(net, eqpt, rqs, [])
                p, rq = pths[0], rqs[0]
                want_nodes = [by_uid[u] for u in inc_eff]

                def ok_constraint(path):
                    pos = [path.index(n) if n in path else -1 for n in want_nodes]
                    return all(x >= 0 for x in pos) and pos == sorted(pos)
                feas = [q for q in all_paths if ok_constraint(q)]
                prob = []
                if p:
                    if p[0].uid != f'trx {src}' or p[-1].uid != f'trx {dst}':
                        prob.append('wrong end points')
                    if len(set(id(e) for e in p)) != len(p):
                        prob.append('element visited twice')
                    if any(not net.has_edge(x, y) for x, y in zip(p, p[1:])):
                        prob.append('not along existing links')
                    if feas:
                        nontriv += 1
                        best = min(fibre_len(q) for q in feas)
                        if not ok_constraint(p):
                            prob.append(f'include nodes {inc} not crossed in order')
                        elif fibre_len(p) > best + 1e-6:
                            prob.append(f'fibre length {fibre_len(p)} but a constrained path of {best} exists')
                    else:
                        if strict_eff:
                            prob.append(f'unsatisfiable STRICT list {inc} not blocked')
                        elif fibre_len(p) > min(fibre_len(q) for q in all_paths) + 1e-6:
                            prob.append('LOOSE constraints dropped but the route is not the shortest')
                    rev = find_reversed_path(p)
                    if [e.uid for e in rev if isinstance(e, Roadm)] != [e.uid for e in reversed(p) if isinstance(e, Roadm)]:
                        prob.append('reverse path does not visit the same sites in reverse')
                else:
                    if feas:
                        prob.append(f'blocked ({getattr(rq, "blocking_reason", None)}) although a path satisfying {inc} exists')
                    elif not strict_eff and all_paths:
                        prob.append('only LOOSE constraints unsatisfiable but no path returned')
                    elif getattr(rq, 'blocking_reason', None) not in ('NO_PATH', 'NO_PATH_WITH_CONSTRAINT'):
                        prob.append('blocked without a no-path reason')
                if prob:
                    wit.append({'key': f'{name}:{src}->{dst}:{inc}:{flags}', 'problems': prob})
finish('routes are real, loop-free, constraint-respecting shortest paths', 'bounded',
       'gnpy.topology.request.correct_json_route_list + compute_path_dsjctn (compute_constrained_path) + find_reversed_path',
       f'topologies {names}, every ordered site pair, include lists of <= 2 ROADMs / line elements (pairs of amplifiers next to the end ROADMs included), walks of three adjacent lines that come back to an end site, STRICT and LOOSE',
       cases, wit, nontrivial=nontriv, t0=t0)
