"""Bounded stand-in for the graph-level claims of C08 (and the power claims of C09 with --powers): real
designed_network on enumerated small topologies, run-time contract on the result."""
import itertools
import sys
import time
from copy import deepcopy
import networkx as nx
import numpy as np
from bounded.common import args, finish, mesh, design, equipment, TOPOLOGIES, fiber, edfa

a = args()
POWERS = '--powers' in sys.argv
from gnpy.core.elements import Roadm, Transceiver, Edfa, Fiber, RamanFiber, Fused, Multiband_amplifier
from gnpy.core.network import span_loss
from gnpy.core.utils import lin2db, watt2dbm
from gnpy.core.info import create_input_spectral_information
from gnpy.tools.json_io import network_from_json

t0 = time.time()
FPROBE = np.array([186.0e12, 191.0e12, 193.5e12, 196.0e12])
wit = []
cases = 0


def roadm_reach(net):
    g = nx.DiGraph()
    for r in (n for n in net.nodes() if isinstance(n, Roadm)):
        for s in net.successors(r):
            cur, seen = s, 0
            while not isinstance(cur, (Roadm, Transceiver)) and seen < 1000:
                cur = next(net.successors(cur))
                seen += 1
            if isinstance(cur, Roadm):
                g.add_edge(r.uid, cur.uid)
    return {(x, y) for x in g for y in nx.descendants(g, x)}


def check(topo, eqpt, key, junction):
    before = network_from_json(deepcopy(topo), deepcopy(eqpt))
    reach0 = roadm_reach(before)
    total_len = {}
    for f in before.nodes():
        if isinstance(f, Fiber):
            total_len[f.uid.split('_(')[0]] = (f.params.length, float(f.loss), f.loss_coef_func(FPROBE) * f.params.length,
                                               f.chromatic_dispersion(FPROBE),
                                               sorted((round(l['position'], 6), l['loss']) for l in f.params.lumped_losses),
                                               f.params.att_in, np.atleast_1d(f.gamma(FPROBE)))
    net, eqpt = design(topo, deepcopy(eqpt))
    prob = []
    span = eqpt['Span']['default']
    uids = [n.uid for n in net.nodes()]
    if len(uids) != len(set(uids)):
        prob.append('duplicate uid')
    if roadm_reach(net) != reach0:
        prob.append('ROADM reachability changed')
    parts = {}
    table = {}
    lumped = {}
    split_parts = {}
    for n in net.nodes():
        if isinstance(n, (Roadm, Transceiver)):
            continue
        if net.in_degree(n) != 1 or net.out_degree(n) != 1:
            prob.append(f'{n.uid}: not one-in/one-out')
            continue
        nxt = next(net.successors(n))
        if isinstance(n, (Edfa,)):
            if n.params.type_variety not in eqpt['Edfa']:
                prob.append(f'{n.uid}: model {n.params.type_variety!r} not in library')
            if n.effective_gain is None or n.out_voa is None or n.in_voa is None:
                prob.append(f'{n.uid}: incomplete amplifier')
            if span.power_mode and n.delta_p is None:
                prob.append(f'{n.uid}: no power target in power mode')
        if isinstance(n, Fiber):
            if n.params.con_in is None or n.params.con_out is None:
                prob.append(f'{n.uid}: connector loss missing')
            if n.params.length > span.max_length * 1000 * 1.0000001 and span.max_length * 1000 > 0:
                prob.append(f'{n.uid}: span longer than max_length')
            base = n.uid.split('_(')[0]
            parts.setdefault(base, []).append(n.params.length)
            table.setdefault(base, []).append((n.loss_coef_func(FPROBE) * n.params.length, n.chromatic_dispersion(FPROBE)))
            k_span = int(n.uid.split('_(')[1].split('/')[0]) - 1 if '_(' in n.uid else 0
            if '_(' in n.uid:
                split_parts.setdefault(base, []).append((k_span, n))
            lumped.setdefault(base, []).extend((round(k_span * n.params.length * 1e-3 + l['position'], 6), l['loss'])
                                               for l in n.params.lumped_losses)
            if isinstance(nxt, Fiber):
                prob.append(f'{n.uid}: fibre-to-fibre junction left without amplifier')
            if isinstance(nxt, Roadm) and not isinstance(n, RamanFiber) and False:
                pass
            if not isinstance(nxt, Fused) and not isinstance(n, RamanFiber):
                sl = span_loss(net, n, eqpt)
                if sl < span.padding - 1e-9:
                    prob.append(f'{n.uid}: span loss {sl:.3f} below padding {span.padding}')
        if isinstance(n, Roadm):
            pass
    # the padding claim with the span walked here: every fibre and fused element between two amplifiers
    for amp in (n for n in net.nodes() if isinstance(n, (Edfa, Multiband_amplifier))):
        chain, cur = [], next(net.predecessors(amp))
        while isinstance(cur, (Fiber, Fused)):
            chain.append(cur)
            cur = next(net.predecessors(cur))
        if isinstance(cur, (Edfa, Multiband_amplifier)) and any(isinstance(x, Fiber) for x in chain) and \
                not any(isinstance(x, RamanFiber) for x in chain):
            own = sum(float(x.loss) for x in chain)
            if own < span.padding - 1e-9:
                prob.append(f'span {[x.uid for x in reversed(chain)]} between two amplifiers: loss {own:.3f} dB below the padding {span.padding} dB')
    for r in (n for n in net.nodes() if isinstance(n, Roadm)):
        for s in net.successors(r):
            if isinstance(s, Fiber):
                prob.append(f'{r.uid} -> {s.uid}: ROADM-to-fibre junction without amplifier')
    for base, lens in parts.items():
        if base in total_len:
            L = total_len[base][0]
            if abs(sum(lens) - L) > 1e-6 * max(1, L) or max(lens) - min(lens) > 1e-6 * max(1, L):
                prob.append(f'{base}: split spans {lens} do not add up equally to {L}')
            # ... the input attenuator of the fibre sits in front of its first span only, and every span is the same fibre
            # (same nonlinear coefficient at every probed frequency)
            for k_span, part in split_parts.get(base, []):
                if k_span > 0 and total_len[base][5] and abs(part.params.att_in - total_len[base][5]) < 1e-9 and junction == 'split':
                    prob.append(f'{part.uid}: carries the input attenuator of the whole fibre ({total_len[base][5]} dB) again')
                if not np.allclose(np.atleast_1d(part.gamma(FPROBE)), total_len[base][6], rtol=1e-9):
                    prob.append(f'{part.uid}: nonlinear coefficient {np.atleast_1d(part.gamma(FPROBE)).tolist()} 1/W/m, the fibre had {total_len[base][6].tolist()}')
            # ... each lumped loss of the fibre is found once, at its own distance from the start of the fibre
            if sorted(lumped.get(base, [])) != total_len[base][4]:
                prob.append(f'{base}: lumped losses (km from the start, dB) {sorted(lumped.get(base, []))} after the split, the fibre had {total_len[base][4]}')
            # ... and to the original loss and accumulated dispersion, at every probed frequency (per-frequency tables included)
            for k, what in ((0, 'loss'), (1, 'dispersion')):
                tot = sum(t[k] for t in table[base])
                ref = total_len[base][2 + k]
                if not np.allclose(tot, ref, rtol=1e-9, atol=1e-12):
                    prob.append(f'{base}: split spans have {what} {np.round(tot, 6).tolist()} at {FPROBE.tolist()} Hz, the fibre had {np.round(ref, 6).tolist()}')
    if POWERS and not prob:
        # C09: each amplifier gain = loss since the previous amplifier + change of target (reference channel leaves at
        # pref + offset); checked on the design values along every OMS
        from gnpy.core.network import get_oms_edge_list
        pref = watt2dbm(eqpt['SI']['default'].power_range_db and 1e-3 * 10 ** (eqpt['SI']['default'].power_dbm / 10))
        for r in (n for n in net.nodes() if isinstance(n, (Roadm, Transceiver))):
            for oms in (s for s in net.successors(r) if not isinstance(s, Transceiver)):
                prev_out = (r.get_per_degree_ref_power(degree=oms.uid) if isinstance(r, Roadm) else pref) - pref
                prev = r
                for node, nxt in get_oms_edge_list(oms, net):
                    if isinstance(node, Edfa) and span.power_mode:
                        loss = span_loss(net, prev, eqpt) if not isinstance(prev, (Roadm, Transceiver)) else \
                            (0 if isinstance(prev, Transceiver) else 0)
                        if isinstance(prev, Roadm):
                            loss = 0
                        out = node.delta_p - node.out_voa
                        want = loss + out - prev_out + node.in_voa + node.out_voa
                        if not isinstance(prev, (Roadm, Transceiver)) and abs(node.effective_gain - want) > 1e-6:
                            prob.append(f'{node.uid}: gain {node.effective_gain:.4f} != loss {loss:.4f} + target change '
                                        f'{out - prev_out:.4f} + VOAs')
                        prev_out = out
                    prev = node
    if prob:
        wit.append({'key': key, 'problems': prob[:6]})


# ([10, 12] and [8, 6, 9]: spliced short fibres, a span that needs padding as a whole)
span_sets = [[80], [20, 80], [0.001, 160], [1200], [130], [75], [10, 12], [8, 6, 9]] if a.tier == 'quick' else \
    [[80], [20, 80], [0.001, 160], [1200], [130], [75], [10, 12], [8, 6, 9], [40, 40, 40], [160, 0.001], [5]]
names = ['line2', 'ring3', 'star4', 'mesh4'] if a.tier == 'quick' else list(TOPOLOGIES)
for name in names:
    sites, links = TOPOLOGIES[name]
    for sp in span_sets:
        for junction in ('none', 'fused', 'edfa'):
            if junction != 'none' and len(sp) == 1:
                continue
            for gain_mode, max_len in itertools.product((False, True), (None, 60, 100)):
                if max_len is not None and (gain_mode or name not in ('line2', 'ring3')):
                    continue
                eq = equipment()
                eq['Span']['default'].power_mode = not gain_mode
                if max_len is not None:
                    # another maximum span length of the library: fibres between it and 90 km, and long ones, must still be
                    # split into equal spans none of which is longer
                    eq['Span']['default'].max_length = max_len
                topo = mesh(sites, links, spans={l: sp for l in links}, junction=junction)
                cases += 1
                key = f'{name}:{sp}:{junction}:{"gain" if gain_mode else "power"}' + (f':max_length{max_len}' if max_len else '')
                try:
                    check(topo, eq, key, junction)
                except Exception as e:
                    wit.append({'key': key, 'problems': [f'{type(e).__name__}: {e}']})
# a maximum span length below the 50 km that the splitting aims at as its shortest span (metro configurations): fibres between the
# two, and long ones, are still split into equal spans none of which is longer than the maximum
for max_len, sp in itertools.product((40, 20), ([45], [130], [49.9, 217])):
    sites, links = TOPOLOGIES['line2']
    eq = equipment()
    eq['Span']['default'].max_length = max_len
    cases += 1
    key = f'line2:{sp}:none:power:max_length{max_len}'
    try:
        check(mesh(sites, links, spans={l: sp for l in links}, junction='none'), eq, key, 'none')
    except Exception as e:
        wit.append({'key': key, 'problems': [f'{type(e).__name__}: {e}']})
# long fibres described by per-frequency tables (loss, dispersion): the split spans must carry the same tables
PERFREQ = {'loss': {'loss_coef': {'value': [0.19, 0.2, 0.21, 0.24], 'frequency': [186e12, 191e12, 193.5e12, 197e12]}},
           'dispersion': {'dispersion_per_frequency': {'value': [1.4e-5, 1.6e-5, 1.7e-5, 1.8e-5], 'frequency': [186e12, 191e12, 193.5e12, 197e12]}}}
PERFREQ['both'] = {**PERFREQ['loss'], **PERFREQ['dispersion']}
for name in (['line2'] if a.tier == 'quick' else ['line2', 'ring3']):
    sites, links = TOPOLOGIES[name]
    for sp in ([200], [40, 170]):
        for which, extra in PERFREQ.items():
            cases += 1
            key = f'{name}:{sp}:per-frequency-{which}'
            try:
                topo = mesh(sites, links, spans={l: sp for l in links})
                for e in topo['elements']:
                    if e['type'] == 'Fiber':
                        e['params'].update(deepcopy(extra))
                check(topo, equipment(), key, 'none')
            except Exception as e:
                wit.append({'key': key, 'problems': [f'{type(e).__name__}: {e}']})
# a splice (fused element) directly in front of an operator-placed amplifier: the short span in front of it is padded all the same
from bounded.common import trx as _trx, roadm as _roadm, fiber as _fiber, fused as _fused
for short_km, n_fused in ((10, 1), (4, 2), (30, 1)):
    cases += 1
    key = f'fibre {short_km} km - {n_fused} fused - amplifier'
    els = [_trx('trx A'), _trx('trx B'), _roadm('roadm A'), _roadm('roadm B'), _fiber('f1', short_km), edfa('E1'), _fiber('f2', 60), _fiber('back', 80)] + \
        [_fused(f'fu{k}', 1) for k in range(n_fused)]
    chain = ['roadm A', 'f1'] + [f'fu{k}' for k in range(n_fused)] + ['E1', 'f2', 'roadm B']
    cons = list(zip(chain, chain[1:])) + [('trx A', 'roadm A'), ('roadm B', 'trx B'), ('trx B', 'roadm B'), ('roadm B', 'back'), ('back', 'roadm A'),
                                          ('roadm A', 'trx A')]
    try:
        check({'elements': els, 'connections': [{'from_node': x, 'to_node': y} for x, y in cons]}, equipment(), key, 'fused')
    except Exception as e:
        wit.append({'key': key, 'problems': [f'{type(e).__name__}: {e}'[:300]]})
# gain mode, operator gain on an amplifier with an input VOA: kept unless the amplifier would really saturate (known finding F53:
# the saturation estimate of an imposed model leaves the amplifier's own input VOA out)
if POWERS:
    for in_voa, gain in ((3.0, 25.69), (0.0, 22.5)):
        cases += 1
        eq = equipment()
        eq['Span']['default'].power_mode = False
        els = [_trx('trx A'), _trx('trx B'), _roadm('roadm A'), _roadm('roadm B'), edfa('boo', 'std_medium_gain', {'gain_target': 20.0, 'tilt_target': 0, 'out_voa': 0}),
               _fiber('f1', 95), edfa('E1', 'std_medium_gain', {'gain_target': gain, 'tilt_target': 0, 'out_voa': 0, 'in_voa': in_voa}), _fiber('f2', 100),
               _fiber('back', 80)]
        chain = ['trx A', 'roadm A', 'boo', 'f1', 'E1', 'f2', 'roadm B', 'trx B']
        cons = list(zip(chain, chain[1:])) + [('trx B', 'roadm B'), ('roadm B', 'back'), ('back', 'roadm A'), ('roadm A', 'trx A')]
        try:
            net, eq = design({'elements': els, 'connections': [{'from_node': x, 'to_node': y} for x, y in cons]}, eq)
            boo = next(n for n in net.nodes() if n.uid == 'boo')
            e1 = next(n for n in net.nodes() if n.uid == 'E1')
            f1 = next(n for n in net.nodes() if n.uid == 'f1')
            nch = eq['SI']['default'].nb_channel if hasattr(eq['SI']['default'], 'nb_channel') else None
            from gnpy.core.utils import automatic_nch
            si_ = eq['SI']['default']
            tot_in_boo = si_.power_dbm + 10 * np.log10(automatic_nch(si_.f_min, si_.f_max, si_.spacing)) + (-20 - si_.power_dbm)
            out_boo = tot_in_boo + boo.effective_gain - boo.out_voa
            out_e1 = out_boo - float(f1.loss) - in_voa + gain
            p_max = eq['Edfa']['std_medium_gain'].p_max
            if out_e1 <= p_max - 0.05 and abs(e1.effective_gain - gain) > 1e-6:
                wit.append({'key': 'gain-mode-saturation-estimate-ignores-the-input-voa' if in_voa else f'gain mode: operator gain {gain} dB',
                            'problems': [f'E1: operator gain {gain} dB with in_voa {in_voa} dB would give {out_e1:.2f} dBm total (p_max {p_max} dBm), '
                                         f'yet the designed gain is {e1.effective_gain:.2f} dB']})
        except Exception as e:
            wit.append({'key': f'gain mode: operator gain {gain} dB, in_voa {in_voa}', 'problems': [f'{type(e).__name__}: {e}'[:300]]})
# long fibres with an input attenuator, and with both effective area and gamma given: the attenuator once, the same fibre in every span
for extra in ({'att_in': 3.0}, {'effective_area': 83e-12, 'gamma': 0.002}, {'att_in': 1.5, 'effective_area': 70e-12, 'gamma': 0.0011}, {'gamma': 0.0016}):
    cases += 1
    key = f'line2:[200]:{extra}'
    try:
        topo = mesh(['A', 'B'], [('A', 'B')], spans={('A', 'B'): [200]})
        for e in topo['elements']:
            if e['type'] == 'Fiber':
                e['params'].update(extra)
        check(topo, equipment(), key, 'split')
    except Exception as e:
        wit.append({'key': key, 'problems': [f'{type(e).__name__}: {e}'[:300]]})
# a splice directly behind an amplifier, in front of a short fibre: the span is padded all the same
for short_km in (10, 25):
    cases += 1
    key = f'amplifier - fused - fibre {short_km} km - amplifier'
    els = [_trx('trx A'), _trx('trx B'), _roadm('roadm A'), _roadm('roadm B'), edfa('boo'), _fused('fu', 0.5), _fiber('f1', short_km), _fiber('back', 80)]
    chain = ['trx A', 'roadm A', 'boo', 'fu', 'f1', 'roadm B', 'trx B']
    cons = list(zip(chain, chain[1:])) + [('trx B', 'roadm B'), ('roadm B', 'back'), ('back', 'roadm A'), ('roadm A', 'trx A')]
    try:
        check({'elements': els, 'connections': [{'from_node': x, 'to_node': y} for x, y in cons]}, equipment(), key, 'fused')
    except Exception as e:
        wit.append({'key': key, 'problems': [f'{type(e).__name__}: {e}'[:300]]})
# long fibres with lumped losses: each loss stays at its place
for sp, lump in (([200], [(30, 1.0)]), ([200], [(130, 1.0)]), ([200], [(30, 1.0), (130, 0.5), (199, 0.25)]), ([40, 170], [(20, 0.75)])):
    cases += 1
    key = f'line2:{sp}:lumped losses {lump}'
    try:
        topo = mesh(['A', 'B'], [('A', 'B')], spans={('A', 'B'): sp})
        for e in topo['elements']:
            if e['type'] == 'Fiber' and e['params']['length'] > lump[-1][0]:
                e['params']['lumped_losses'] = [{'position': x, 'loss': y} for x, y in lump]
        check(topo, equipment(), key, 'none')
    except Exception as e:
        wit.append({'key': key, 'problems': [f'{type(e).__name__}: {e}'[:300]]})
# a Raman span whose connector losses are left to the library defaults (its booster carries a delta_p: see known finding F24)
for con_in, con_out in ((None, 0.5), (0.35, 0.5)):
    cases += 1
    key = f'raman-span-connectors:{con_in}:{con_out}'
    try:
        eq = equipment()
        eq['Span']['default'].EOL = 0.3
        topo = mesh(['A', 'B'], [('A', 'B')], spans={('A', 'B'): [80]})
        for e in topo['elements']:
            if e['uid'] == 'fiber (A -> B)-0':
                e['type'] = 'RamanFiber'
                e['params'].update({'con_in': con_in, 'con_out': con_out})
                e['operational'] = {'temperature': 283, 'raman_pumps': [{'power': 0.2, 'frequency': 205e12, 'propagation_direction': 'counterprop'}]}
        topo['elements'].append(edfa('booster A', None, {'delta_p': 0.0, 'gain_target': None, 'tilt_target': 0, 'out_voa': None}))
        topo['connections'] = [c for c in topo['connections'] if not (c['from_node'] == 'roadm A' and c['to_node'] == 'fiber (A -> B)-0')] + \
            [{'from_node': 'roadm A', 'to_node': 'booster A'}, {'from_node': 'booster A', 'to_node': 'fiber (A -> B)-0'}]
        net, eq = design(topo, eq)
        rf = next(n for n in net.nodes() if isinstance(n, RamanFiber))
        want_in = con_in if con_in is not None else eq['Span']['default'].con_in
        want_out = con_out + 0.3
        if rf.params.con_in is None or abs(rf.params.con_in - want_in) > 1e-9 or abs(rf.params.con_out - want_out) > 1e-9:
            wit.append({'key': key, 'problems': [f'RamanFiber connector losses ({rf.params.con_in}, {rf.params.con_out}), expected ({want_in}, {want_out})']})
    except Exception as e:
        wit.append({'key': key, 'problems': [f'{type(e).__name__}: {e}'[:300]]})
# a Raman span that leaves its output connector to the library default, like any other fibre may: known finding F40
cases += 1
try:
    topo = mesh(['A', 'B'], [('A', 'B')], spans={('A', 'B'): [80]})
    for e in topo['elements']:
        if e['uid'] == 'fiber (A -> B)-0':
            e['type'] = 'RamanFiber'
            e['params'].pop('con_out')
            e['operational'] = {'temperature': 283, 'raman_pumps': [{'power': 0.2, 'frequency': 205e12, 'propagation_direction': 'counterprop'}]}
    topo['elements'].append(edfa('booster A', None, {'delta_p': 0.0, 'gain_target': None, 'tilt_target': 0, 'out_voa': None}))
    topo['connections'] = [c for c in topo['connections'] if not (c['from_node'] == 'roadm A' and c['to_node'] == 'fiber (A -> B)-0')] + \
        [{'from_node': 'roadm A', 'to_node': 'booster A'}, {'from_node': 'booster A', 'to_node': 'fiber (A -> B)-0'}]
    net, eq = design(topo, equipment())
    rf = next(n for n in net.nodes() if isinstance(n, RamanFiber))
    if rf.params.con_out is None:
        wit.append({'key': 'raman-fibre-default-output-connector', 'problems': ['con_out left undefined after the design']})
except TypeError as e:
    wit.append({'key': 'raman-fibre-without-con_out-cannot-be-loaded', 'problems': [f'the topology cannot be loaded: TypeError: {e}'[:200]]})
except Exception as e:
    wit.append({'key': 'raman-fibre-default-output-connector', 'problems': [f'{type(e).__name__}: {e}'[:300]]})
# the same Raman span behind an amplifier that is left to the design (no delta_p): known finding F24
cases += 1
try:
    eq = equipment()
    topo = mesh(['A', 'B'], [('A', 'B')], spans={('A', 'B'): [80]})
    for e in topo['elements']:
        if e['uid'] == 'fiber (A -> B)-0':
            e['type'] = 'RamanFiber'
            e['params'].update({'con_in': 0.5, 'con_out': 0.5})
            e['operational'] = {'temperature': 283, 'raman_pumps': [{'power': 0.2, 'frequency': 205e12, 'propagation_direction': 'counterprop'}]}
    design(topo, eq)
except TypeError as e:
    wit.append({'key': 'raman-span-behind-an-amplifier-without-delta_p', 'problems': [f'auto-design stops with TypeError: {e}'[:200]]})
except Exception as e:
    wit.append({'key': 'raman-span-auto-booster', 'problems': [f'{type(e).__name__}: {e}'[:300]]})
# multi-band auto-design: ROADMs designed for C+L get multi-band amplifiers everywhere, each band with its own gain / target
CL = [{'f_min': 191.3e12, 'f_max': 196.0e12, 'spacing': 50e9}, {'f_min': 186.6e12, 'f_max': 190.0e12, 'spacing': 50e9}]
for name in (['line2', 'ring3'] if a.tier == 'quick' else ['line2', 'line3', 'ring3', 'mesh4']):
    sites, links = TOPOLOGIES[name]
    # (130 km: the link on which the shipped multiband library used to be refused with 'amps do not belong to the same amp type', F37)
    for sp in ([80], [20, 80], [130]):
        cases += 1
        key = f'{name}:{sp}:multiband'
        try:
            eq = equipment('eqpt_config_multiband.json')
            topo = mesh(sites, links, spans={l: sp for l in links}, roadm_params={x: {'design_bands': CL} for x in sites})
            net, eq = design(topo, eq)
            prob = []
            for n in net.nodes():
                if isinstance(n, Edfa):
                    prob.append(f'{n.uid}: single-band amplifier in a C+L design')
                if isinstance(n, Multiband_amplifier):
                    if n.params.type_variety not in eq['Edfa'] or eq['Edfa'][n.params.type_variety].type_def != 'multi_band':
                        prob.append(f'{n.uid}: model {n.params.type_variety!r} is not a multi-band model of the library')
                    if len(n.amplifiers) != 2:
                        prob.append(f'{n.uid}: {len(n.amplifiers)} band amplifiers for two design bands')
                    for band, amp in n.amplifiers.items():
                        if amp.effective_gain is None or amp.out_voa is None or amp.delta_p is None:
                            prob.append(f'{n.uid}/{band}: incomplete band amplifier')
                        elif amp.params.type_variety not in eq['Edfa'][n.params.type_variety].multi_band:
                            prob.append(f'{n.uid}/{band}: {amp.params.type_variety} is not a member of {n.params.type_variety}')
                    covered = [[b for b in CL if amp.params.f_min <= b['f_min'] and amp.params.f_max >= b['f_max']] for amp in n.amplifiers.values()]
                    if any(len(c) != 1 for c in covered) or len({c[0]['f_min'] for c in covered if c}) != len(CL):
                        prob.append(f'{n.uid}: band amplifiers {[(a.params.type_variety, a.params.f_min, a.params.f_max) for a in n.amplifiers.values()]} '
                                    f'do not cover one design band each')
                if isinstance(n, Fiber):
                    nxt = next(net.successors(n))
                    if isinstance(nxt, (Fiber, Roadm)):
                        prob.append(f'{n.uid}: followed by {type(nxt).__name__} without amplifier')
            if prob:
                wit.append({'key': key, 'problems': prob[:5]})
        except Exception as e:
            wit.append({'key': key, 'problems': [f'{type(e).__name__}: {e}'[:300]]})
    # no design_bands on the ROADMs: they default to the two SI sections of the library (the L section set to what its amplifiers cover)
    cases += 1
    key = f'{name}:[80]:multiband by default (two SI sections)'
    try:
        eq = equipment('eqpt_config_multiband.json')
        eq['SI']['lband'].f_min, eq['SI']['lband'].f_max = 186.6e12, 190.0e12
        net, eq = design(mesh(sites, links, spans={l: [80] for l in links}), eq)
        prob = [f'{n.uid}: single-band amplifier in a design whose default is two bands' for n in net.nodes() if isinstance(n, Edfa)] + \
            [f'{n.uid}: followed by {type(next(net.successors(n))).__name__} without amplifier' for n in net.nodes()
             if isinstance(n, Fiber) and isinstance(next(net.successors(n)), (Fiber, Roadm))]
        if prob:
            wit.append({'key': key, 'problems': prob[:5]})
    except Exception as e:
        wit.append({'key': key, 'problems': [f'auto-design did not complete: {type(e).__name__}: {e}'[:300]]})
    # a single-band ROADM whose line starts with a splice (no booster is added) towards a C+L ROADM: the line follows the ROADM it
    # leaves, its preamplifier is a single-band one
    if name == 'line2':
        cases += 1
        key = 'single-band ROADM - fused - 80 km - C+L ROADM (two SI sections)'
        try:
            eq = equipment('eqpt_config_multiband.json')
            eq['SI']['lband'].f_min, eq['SI']['lband'].f_max = 186.6e12, 190.0e12
            els = [_trx('trx A'), _trx('trx B'), _roadm('roadm A', design_bands=[CL[0]]), _roadm('roadm B', design_bands=CL),
                   _fused('patch A', 0.5), _fiber('AB', 80), _fiber('BA', 80)]
            cons = [('trx A', 'roadm A'), ('roadm A', 'patch A'), ('patch A', 'AB'), ('AB', 'roadm B'), ('roadm B', 'trx B'),
                    ('trx B', 'roadm B'), ('roadm B', 'BA'), ('BA', 'roadm A'), ('roadm A', 'trx A')]
            net, eq = design({'elements': els, 'connections': [{'from_node': x, 'to_node': y} for x, y in cons]}, eq)
            pre = next(n for n in net.nodes() if n.uid.startswith('Edfa_preamp_roadm B'))
            if not isinstance(pre, Edfa) or pre.params.type_variety not in eq['Edfa'] or pre.effective_gain is None:
                wit.append({'key': key, 'problems': [f'preamplifier of the single-band line: {type(pre).__name__} {getattr(pre.params, "type_variety", None)}']})
        except Exception as e:
            wit.append({'key': key, 'problems': [f'auto-design did not complete: {type(e).__name__}: {e}'[:300]]})
    # a splice in front of an operator-placed multi-band in-line amplifier: the short span in front of it is padded all the same
    if name == 'line2':
        cases += 1
        key = 'C+L: fibre 10 km - fused - multi-band amplifier'
        try:
            eq = equipment('eqpt_config_multiband.json')
            els = [_trx('trx A'), _trx('trx B'), _roadm('roadm A', design_bands=CL), _roadm('roadm B', design_bands=CL), _fiber('f1', 10),
                   _fused('fu', 1), {'uid': 'ila', 'type': 'Multiband_amplifier', 'type_variety': 'std_medium_gain_multiband', 'amplifiers': []},
                   _fiber('f2', 70), _fiber('back', 80)]
            chain = ['trx A', 'roadm A', 'f1', 'fu', 'ila', 'f2', 'roadm B', 'trx B']
            cons = list(zip(chain, chain[1:])) + [('trx B', 'roadm B'), ('roadm B', 'back'), ('back', 'roadm A'), ('roadm A', 'trx A')]
            check({'elements': els, 'connections': [{'from_node': x, 'to_node': y} for x, y in cons]}, eq, key, 'fused')
        except Exception as e:
            wit.append({'key': key, 'problems': [f'{type(e).__name__}: {e}'[:300]]})
    # the same ROADMs with an operator-placed single-band in-line amplifier on every line: those lines stay single-band lines
    cases += 1
    key = f'{name}:[40, 60]:multiband ROADMs, single-band in-line amplifier given'
    try:
        eq = equipment('eqpt_config_multiband.json')
        topo = mesh(sites, links, spans={l: [40, 60] for l in links}, junction='edfa', amp_variety='std_medium_gain',
                    roadm_params={x: {'design_bands': CL} for x in sites})
        net, eq = design(topo, eq)
        prob = []
        for n in net.nodes():
            if isinstance(n, Multiband_amplifier):
                prob.append(f'{n.uid}: multi-band amplifier on a line whose in-line amplifier is a single-band one')
            if isinstance(n, Edfa) and (n.params.type_variety not in eq['Edfa'] or n.effective_gain is None or n.delta_p is None):
                prob.append(f'{n.uid}: incomplete amplifier')
            if isinstance(n, Fiber) and isinstance(next(net.successors(n)), (Fiber, Roadm)):
                prob.append(f'{n.uid}: followed by {type(next(net.successors(n))).__name__} without amplifier')
        if prob:
            wit.append({'key': key, 'problems': prob[:5]})
    except Exception as e:
        wit.append({'key': key, 'problems': [f'auto-design did not complete: {type(e).__name__}: {e}'[:300]]})
finish('designed network is a complete line system' + (' with closed power budget' if POWERS else ''), 'bounded',
       'gnpy.tools.worker_utils.designed_network (build_network, add_missing_elements_in_network)',
       f'topologies {names} x spans {span_sets} km x junction none/fused/edfa x power/gain mode, default eqpt_config.json (+ Span max_length 60 / 100 km on line2, ring3, 40 / 20 km on line2; + 200 km and 40+170 km fibres with per-frequency loss and dispersion tables)',
       cases, wit, t0=t0)
