"""Bounded stand-in (C13, automatic mode): without a mode the request gets the feasible mode that fits the spacing with the
highest baud rate and then the highest bit rate; none feasible -> NO_FEASIBLE_MODE; none fitting -> NO_FEASIBLE_BAUDRATE_WITH_SPACING.
Oracle: the same request planned once per mode with the mode FIXED (the fixed-mode verdict is the part of C13 proved on the real
code); cases whose metric is within 0.02 dB of a threshold are not judged (documented 'above' vs 'at least')."""
import itertools
import random
import time
from copy import deepcopy
import numpy as np
from bounded.common import args, finish, mesh, design, TOPOLOGIES, service, equipment

a = args()
from gnpy.tools.json_io import Transceiver as TrxLib
from gnpy.tools.worker_utils import planning

t0 = time.time()
wit = []
cases = nontriv = 0
rnd = random.Random(a.seed)


def library(eq, modes):
    eq = deepcopy(eq)
    eq['Transceiver']['synthetic'] = TrxLib(type_variety='synthetic', frequency={'min': 191.35e12, 'max': 196.1e12},
                                            mode=[dict(m) for m in modes])
    return eq


def plan(net0, eq, rq):
    net = deepcopy(net0)
    _, pp, rpp, rqs, _, _ = planning(net, eq, {'path-request': [deepcopy(rq)], 'synchronization': []})
    r = rqs[0]
    rx = pp[0][-1] if pp[0] else None
    metric = None
    if rx is not None and getattr(rx, 'snr_01nm', None) is not None:
        metric = round(float(np.min(rx.snr_01nm - rx.total_penalty)), 2)
    return r, metric


def mode(fmt, baud, bit, osnr, min_spacing, offset=0, penalties=None):
    d = {'format': fmt, 'baud_rate': baud, 'OSNR': osnr, 'bit_rate': bit, 'roll_off': 0.15, 'tx_osnr': 38, 'min_spacing': min_spacing,
         'cost': 1, 'equalization_offset_db': offset}
    if penalties:
        d['penalties'] = penalties
    return d


sites, links = TOPOLOGIES['line3']
configs = []
for spans in ([80, 80, 80], [100, 100, 100, 100, 100]):
    topo = mesh(sites, links, spans={l: spans for l in links}, junction='edfa')
    net0, eq0 = design(topo)
    configs.append((spans, net0, eq0))
nsets = 24 if a.tier == 'quick' else 120
for spans, net0, eq0 in configs:
    for k in range(nsets):
        # a random library: 2-3 baud rates, 1-3 modes each, thresholds spread around the path's GSNR so that some pass and some fail
        bauds = rnd.sample([28e9, 32e9, 42e9, 56e9, 64e9], rnd.randint(2, 3))
        modes = []
        for b in bauds:
            off_br = rnd.choice([0, 0, 1.0])
            for j in range(rnd.randint(1, 3)):
                # most libraries give one power offset per baud rate; every third set gives each mode its own
                off = rnd.choice([0, 1.0, -2.0, 2.0]) if k % 3 == 2 else off_br
                pen = [{'chromatic_dispersion': 4e3, 'penalty_value': 0}, {'chromatic_dispersion': 60e3, 'penalty_value': rnd.choice([0.5, 3.0])}] \
                    if rnd.random() < 0.3 else None
                modes.append(mode(f'm{len(modes)}', b, rnd.choice([100e9, 200e9, 300e9, 400e9]) + j * 1e9, rnd.choice([8, 14, 19, 23, 27, 35]),
                                  rnd.choice([37.5e9, 50e9, 75e9]) if b < 50e9 else rnd.choice([62.5e9, 75e9, 87.5e9]), off, pen))
        rnd.shuffle(modes)
        eq = library(eq0, modes)
        for spacing in (50e9, 75e9, 100e9):
            cases += 1
            key = f'{spans}:set{k}:spacing{spacing / 1e9:g}'
            base = service('r', 'A', 'C', trx='synthetic', mode=None, spacing=spacing)
            try:
                r_auto, _ = plan(net0, eq, base)
            except Exception as e:
                wit.append({'key': key, 'problems': [f'automatic mode: {type(e).__name__}: {e}'[:200]]})
                continue
            fitting = [m for m in modes if m['min_spacing'] <= spacing]
            verdicts = {}
            borderline = False
            for m in fitting:
                rq = service('r', 'A', 'C', trx='synthetic', mode=m['format'], spacing=spacing)
                try:
                    r_fix, metric = plan(net0, eq, rq)
                except Exception as e:
                    verdicts[m['format']] = None
                    continue
                thr = m['OSNR'] + eq['SI']['default'].sys_margins
                if metric is None or abs(metric - thr) < 0.02:
                    borderline = True
                verdicts[m['format']] = not hasattr(r_fix, 'blocking_reason')
            if borderline or any(v is None for v in verdicts.values()):
                continue
            nontriv += 1
            got_reason = getattr(r_auto, 'blocking_reason', None)
            feasible = [m for m in fitting if verdicts[m['format']]]
            if not fitting:
                if got_reason != 'NO_FEASIBLE_BAUDRATE_WITH_SPACING':
                    wit.append({'key': key, 'problems': [f'no mode fits the spacing but the request ends with {got_reason} / mode {r_auto.tsp_mode}']})
                continue
            if not feasible:
                if got_reason != 'NO_FEASIBLE_MODE':
                    wit.append({'key': key, 'problems': [f'no fitting mode is feasible {verdicts} but the request ends with {got_reason} / mode {r_auto.tsp_mode}']})
                continue
            best = max(feasible, key=lambda m: (m['baud_rate'], m['bit_rate']))
            ties = [m['format'] for m in feasible if (m['baud_rate'], m['bit_rate']) == (best['baud_rate'], best['bit_rate'])]
            if got_reason is not None or r_auto.tsp_mode not in ties:
                wit.append({'key': key, 'problems': [f'chosen {r_auto.tsp_mode} ({got_reason}); feasible by fixed-mode planning: '
                                                     f'{[(m["format"], m["baud_rate"] / 1e9, m["bit_rate"] / 1e9) for m in feasible]}; expected one of {ties}']})
# two modes of one baud rate with different power offsets: each is judged on the propagation of its own offset
for spans, net0, eq0 in configs:
    probe = {}
    for off in (0, 3.0):
        _, probe[off] = plan(net0, library(eq0, [mode('p', 32e9, 100e9, 5, 50e9, off)]), service('r', 'A', 'C', trx='synthetic', mode='p', spacing=50e9))
    margin = eq0['SI']['default'].sys_margins
    if None in probe.values() or abs(probe[0] - probe[3.0]) < 0.2:
        continue
    thr = round((probe[0] + probe[3.0]) / 2 - margin, 2)
    for offs in ((0, 3.0), (3.0, 0)):
        # 'big' cannot pass anywhere; 'small' passes at one of the two offsets only
        modes = [mode('big', 32e9, 200e9, 45, 50e9, offs[0]), mode('small', 32e9, 100e9, thr, 50e9, offs[1])]
        eq = library(eq0, modes)
        cases += 1
        key = f'{spans}:one baud rate, offsets big {offs[0]} dB / small {offs[1]} dB'
        verdicts = {}
        for m in modes:
            r_fix, _ = plan(net0, eq, service('r', 'A', 'C', trx='synthetic', mode=m['format'], spacing=50e9))
            verdicts[m['format']] = not hasattr(r_fix, 'blocking_reason')
        r_auto, metric = plan(net0, eq, service('r', 'A', 'C', trx='synthetic', mode=None, spacing=50e9))
        nontriv += 1
        got = None if getattr(r_auto, 'blocking_reason', None) is not None else r_auto.tsp_mode
        want = 'small' if verdicts['small'] else None
        if got != want:
            wit.append({'key': key, 'problems': [f'fixed-mode verdicts {verdicts} (metric {probe} dB by offset, threshold {thr + margin}); without a mode the request '
                                                 f'ends with mode {r_auto.tsp_mode}, {getattr(r_auto, "blocking_reason", None)}, metric {metric}']})
# a mode whose power offset saturates the amplifiers is explored before a mode that does not: the second one is judged on what
# it gives on the line as designed (known finding F58: the amplifiers keep the gain reduction of the first propagation)
for spans, net0, eq0 in configs[1:]:
    margin = eq0['SI']['default'].sys_margins
    _, fresh = plan(net0, library(eq0, [mode('p', 32e9, 100e9, 5, 50e9, 0)]), service('r', 'A', 'C', trx='synthetic', mode='p', spacing=50e9))
    modes = [mode('hot', 32e9, 200e9, 45, 50e9, 5.0), mode('small', 32e9, 100e9, round(fresh - margin - 0.3, 2), 50e9, 0)]
    eq = library(eq0, modes)
    cases += 1
    nontriv += 1
    r_fix, m_fix = plan(net0, eq, service('r', 'A', 'C', trx='synthetic', mode='small', spacing=50e9))
    r_auto, m_auto = plan(net0, eq, service('r', 'A', 'C', trx='synthetic', mode=None, spacing=50e9))
    ok_fix = not hasattr(r_fix, 'blocking_reason')
    got = None if getattr(r_auto, 'blocking_reason', None) is not None else r_auto.tsp_mode
    if ok_fix and (got != 'small' or m_auto != m_fix):
        carried = r_auto.tsp_mode == 'small' and m_auto is not None and m_auto < m_fix
        wit.append({'key': 'saturation-clamp-carried-over-between-mode-propagations' if carried else f'{spans}:saturating mode explored first',
                    'problems': [f'mode small fixed: feasible, metric {m_fix} dB (threshold {round(modes[1]["OSNR"] + margin, 2)}); without a mode, after the +5 dB mode '
                                 f'was explored on the same elements: mode {r_auto.tsp_mode}, {getattr(r_auto, "blocking_reason", None)}, metric {m_auto} dB']})
# a bidirectional request without a mode on a line whose two directions differ: feasibility of a mode includes the reverse path
# (known finding F52: the mode is selected on the forward direction only)
from bounded.common import trx as _trx, roadm as _roadm, fiber as _fiber
for back_km in (80, 100, 115):
    els = [_trx('trx A'), _trx('trx B'), _roadm('roadm A'), _roadm('roadm B')] + [_fiber(f'ab{k}', 80) for k in range(2)] + [_fiber(f'ba{k}', back_km) for k in range(2)]
    cons = [('trx A', 'roadm A'), ('roadm A', 'ab0'), ('ab0', 'ab1'), ('ab1', 'roadm B'), ('roadm B', 'trx B'),
            ('trx B', 'roadm B'), ('roadm B', 'ba0'), ('ba0', 'ba1'), ('ba1', 'roadm A'), ('roadm A', 'trx A')]
    net0, eq0 = design({'elements': els, 'connections': [{'from_node': x, 'to_node': y} for x, y in cons]})
    probe, _ = plan(net0, library(eq0, [mode('p', 32e9, 100e9, 5, 50e9)]), dict(service('r', 'A', 'B', trx='synthetic', mode='p'), bidirectional=True))
    _, pp_, rpp_, _, _, _ = planning(deepcopy(net0), library(eq0, [mode('p', 32e9, 100e9, 5, 50e9)]),
                                     {'path-request': [dict(service('r', 'A', 'B', trx='synthetic', mode='p'), bidirectional=True)], 'synchronization': []})
    g_fwd, g_rev = float(np.min(pp_[0][-1].snr_01nm)), float(np.min(rpp_[0][-1].snr_01nm))
    margin = eq0['SI']['default'].sys_margins
    lo, hi = min(g_fwd, g_rev), max(g_fwd, g_rev)
    # 'hi' passes on the better direction only, 'lo' passes on both
    modes = [mode('hi', 32e9, 200e9, round((lo + hi) / 2 - margin, 2), 50e9), mode('lo', 32e9, 100e9, round(lo - margin - 3, 2), 50e9)]
    eq = library(eq0, modes)
    cases += 1
    key = f'bidirectional, no mode: 2x80 km forward, 2x{back_km} km back'
    verdicts = {}
    for m in modes:
        r_fix, _ = plan(net0, eq, dict(service('r', 'A', 'B', trx='synthetic', mode=m['format']), bidirectional=True))
        verdicts[m['format']] = not hasattr(r_fix, 'blocking_reason')
    r_auto, _ = plan(net0, eq, dict(service('r', 'A', 'B', trx='synthetic', mode=None), bidirectional=True))
    feasible = [m for m in modes if verdicts[m['format']]]
    if hi - lo < 0.1 or not feasible:
        continue
    nontriv += 1
    best = max(feasible, key=lambda m: (m['baud_rate'], m['bit_rate']))
    if getattr(r_auto, 'blocking_reason', None) is not None or r_auto.tsp_mode != best['format']:
        fwd_only = g_fwd > g_rev and r_auto.tsp_mode == 'hi' and getattr(r_auto, 'blocking_reason', None) == 'MODE_NOT_FEASIBLE'
        wit.append({'key': 'bidirectional-automatic-mode-selected-on-the-forward-direction-only' if fwd_only else key,
                    'problems': [f'{key}: GSNR forward {g_fwd:.2f} dB, reverse {g_rev:.2f} dB; fixed-mode verdicts {verdicts}; without a mode the '
                                 f'request ends with mode {r_auto.tsp_mode}, {getattr(r_auto, "blocking_reason", None)}; expected mode {best["format"]}']})
finish('automatic mode = feasible mode fitting the spacing with highest baud rate, then highest bit rate; blocking reasons', 'bounded',
       'gnpy.topology.request.propagate_and_optimize_mode (through gnpy.tools.worker_utils.planning)',
       f'line3 with 3x80 km and 5x100 km spans, {nsets} random synthetic transceiver libraries each (2-3 baud rates, 1-3 modes per baud rate, '
       'thresholds 8..35 dB, penalties on some), spacings 50/75/100 GHz; oracle = fixed-mode planning per mode; 3 bidirectional requests on lines with '
       'unequal directions', cases, wit, nontrivial=nontriv, t0=t0)
