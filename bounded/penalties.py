"""Bounded stand-in (C13): penalty tables normalised at load; an impairment outside the table gives an infinite penalty
and therefore always blocks; inside, the penalty is the piecewise-linear interpolation; update_snr does not accumulate
over repeated calls (any number of recomputations)."""
import itertools
import math
import time
import numpy as np
from bounded.common import args, finish

a = args()
from gnpy.core.elements import Transceiver
from gnpy.tools.json_io import Transceiver as TrxLib

t0 = time.time()
wit = []
cases = 0
tables = [[(4e3, 0), (18e3, 0.5), (40e3, 2.0)], [(40e3, 2.0), (4e3, 0), (18e3, 0.5)], [(10e3, 0.3)], [(-10e3, 1.0), (0, 0), (10e3, 1.0)],
          # tables reaching below zero without an entry at zero: nothing is added, the user's table is interpolated as written
          [(-4e3, 2.0), (4e3, 0), (40e3, 0.5)], [(-1e3, 0), (4e3, 0), (18e3, 0.5), (40e3, 2.0)], [(-5e3, 1.0)]]
for tb in tables:
    mode = {'format': 'm', 'baud_rate': 32e9, 'OSNR': 11, 'bit_rate': 100e9, 'roll_off': 0.15, 'tx_osnr': 40, 'min_spacing': 37.5e9,
            'cost': 1, 'penalties': [{'chromatic_dispersion': x, 'penalty_value': y} for x, y in tb]}
    lib = TrxLib(type_variety='t', frequency={'min': 191.3e12, 'max': 196.1e12}, mode=[mode])
    pen = lib.mode[0]['penalties']['chromatic_dispersion']
    xs, ys = pen['up_to_boundary'], pen['penalty_value']
    srt = sorted(tb)
    want = ([(0, 0)] if all(x > 0 for x, _ in tb) else []) + srt
    cases += 1
    # judged as a function: same range of impairments covered, same interpolated penalty at every knot and between the knots
    # (a table stored with additional points on the same segments is the same table)
    wx, wy = zip(*want)
    probes = sorted(set(wx) | {(p + q) / 2 for p, q in zip(wx, wx[1:])} | set(xs))
    if list(xs) != sorted(xs) or xs[0] != wx[0] or xs[-1] != wx[-1] or \
            any(abs(float(np.interp(c, xs, ys)) - float(np.interp(c, wx, wy))) > 1e-12 for c in probes):
        wit.append({'key': f'normalise:{tb}', 'got': list(zip(xs, ys)), 'want': want})
        continue
    rx = Transceiver(uid='rx')
    for cd in [xs[0] - 1, xs[0], (xs[0] + xs[-1]) / 2, xs[-1], xs[-1] + 1, 1e9]:
        cases += 1
        rx.chromatic_dispersion = np.array([cd, cd])
        rx.pmd = np.array([0.0, 0.0])
        rx.pdl = np.array([0.0, 0.0])
        rx.calc_penalties(lib.mode[0]['penalties'])
        p = rx.total_penalty[0]
        inside = xs[0] <= cd <= xs[-1]
        ref = float(np.interp(cd, xs, ys)) if inside else math.inf
        if not (p == ref or abs(p - ref) < 1e-12):
            wit.append({'key': f'penalty:{tb}:{cd}', 'got': float(p), 'want': ref})
        snr = np.array([30.0, 31.0])
        metric = round(min(snr - rx.total_penalty), 2)
        if not inside and not metric < lib.mode[0]['OSNR']:
            wit.append({'key': f'outside-does-not-block:{tb}:{cd}', 'metric': float(metric)})
# successive modes on one receiver: the penalties of the previous mode must not survive (histories of any length)
rx = Transceiver(uid='rx')
rx.chromatic_dispersion = np.array([5e3, 5e3]); rx.pmd = np.array([1.0, 1.0]); rx.pdl = np.array([9.0, 9.0])
tA = {'pdl': {'up_to_boundary': [0, 0.5], 'penalty_value': [0, 1]}, 'chromatic_dispersion': {'up_to_boundary': [0, 1e4], 'penalty_value': [0, 1]}}
tB = {'chromatic_dispersion': {'up_to_boundary': [0, 1e4], 'penalty_value': [0, 1]}}
for seq in itertools.product([tA, tB], repeat=3):
    cases += 1
    for t in seq:
        rx.calc_penalties(t)
    fresh = Transceiver(uid='f')
    fresh.chromatic_dispersion, fresh.pmd, fresh.pdl = rx.chromatic_dispersion, rx.pmd, rx.pdl
    fresh.calc_penalties(seq[-1])
    if set(rx.penalties) != set(fresh.penalties) or not np.array_equal(rx.total_penalty, fresh.total_penalty):
        wit.append({'key': f'stale-penalties:{[sorted(t) for t in seq]}', 'got': sorted(rx.penalties), 'want': sorted(fresh.penalties)})
# no accumulation: k calls of update_snr == one call
from gnpy.core.info import create_arbitrary_spectral_information
si = create_arbitrary_spectral_information([193.1e12, 193.2e12], pch=1e-3, baud_rate=32e9, tx_osnr=40, slot_width=50e9)
si._ase_ratio = np.array([1e-3, 2e-3]); si._nli_ratio = np.array([5e-4, 1e-3]); si._signal_ratio = 1 - si._ase_ratio - si._nli_ratio
rx = Transceiver(uid='rx')
rx._calc_snr(si)
for seq in itertools.product([None, 35.0, 40.0], repeat=3):
    for reps in (1, 2, 5):
        cases += 1
        for _ in range(reps):
            rx.update_snr(*seq)
        got = (rx.snr_01nm.copy(), rx.osnr_ase_01nm.copy(), rx.snr.copy(), rx.osnr_ase.copy(), rx.osnr_nli.copy())
        rx2 = Transceiver(uid='rx2')
        rx2._calc_snr(si)
        rx2.update_snr(*seq)
        ref = (rx2.snr_01nm, rx2.osnr_ase_01nm, rx2.snr, rx2.osnr_ase, rx2.osnr_nli)
        if not all(np.allclose(x, y, rtol=0, atol=1e-12, equal_nan=True) for x, y in zip(got, ref)):
            wit.append({'key': f'accumulation:{seq}:{reps}'})
# end to end, fixed mode (also the reverse direction of a bidirectional request): the verdict of the planner is
# min GSNR(0.1 nm) - interpolated penalty >= OSNR + margin with the penalty of the mode asked for, out-of-table blocking
from copy import deepcopy
from bounded.common import mesh, design, equipment, service, EXAMPLE
from gnpy.tools.json_io import load_json, _equipment_from_json, DEFAULT_EXTRA_CONFIG
from gnpy.tools.worker_utils import planning
eqj = load_json(EXAMPLE / 'eqpt_config.json')
proto = next(m for t in eqj['Transceiver'] if t['type_variety'] == 'Voyager' for m in t['mode'] if m['format'] == 'mode 1')
MARGIN = eqj['SI'][0]['sys_margins']
net0, eq0 = design(mesh(['A', 'B'], [('A', 'B')], spans={('A', 'B'): [80]}))
probe_res = planning(deepcopy(net0), deepcopy(eq0), {'path-request': [service('p', 'A', 'B', mode='mode 1', bidir=True)], 'synchronization': []})
rx0 = probe_res[1][0][-1]
gsnr0, cd0 = float(min(rx0.snr_01nm)), float(max(rx0.chromatic_dispersion))
for label, table in (('no table', None), ('inside, small', [(0, 0), (4 * cd0, 1.0)]), ('inside, large', [(0, 0), (2 * cd0, 12.0)]),
                     ('outside', [(0, 0), (cd0 / 2, 0.5)])):
    for slack in (0.4, 3.4, 7.0):
        for bidir in (False, True):
            cases += 1
            j = deepcopy(eqj)
            mode = dict(deepcopy(proto), format='pen', OSNR=round(gsnr0 - MARGIN - slack, 2))
            if table is not None:
                mode['penalties'] = [{'chromatic_dispersion': x, 'penalty_value': y} for x, y in table]
            next(t for t in j['Transceiver'] if t['type_variety'] == 'Voyager')['mode'].append(mode)
            eq = _equipment_from_json(j, DEFAULT_EXTRA_CONFIG)
            try:
                _, pp, rpp, rqs, _, _ = planning(deepcopy(net0), eq, {'path-request': [service('r', 'A', 'B', mode='pen', bidir=bidir)],
                                                                       'synchronization': []})
            except Exception as e:
                wit.append({'key': f'fixed-mode-verdict:{label}:{slack}:{bidir}', 'problems': [f'{type(e).__name__}: {e}']})
                continue
            rq = rqs[0]
            feasible = True
            detail = []
            for pth in [pp[0]] + ([rpp[0]] if bidir else []):
                rx = pth[-1]
                cd = np.asarray(rx.chromatic_dispersion, dtype=float)
                if table is None:
                    pen = np.zeros_like(cd)
                else:
                    xs, ys = zip(*sorted(table))
                    pen = np.array([np.interp(v, xs, ys) if xs[0] <= v <= xs[-1] else math.inf for v in cd])
                metric = float(np.min(np.asarray(rx.snr_01nm, dtype=float) - pen))
                detail.append(round(metric, 3))
                if round(metric, 2) < mode['OSNR'] + MARGIN:
                    feasible = False
            blocked = getattr(rq, 'blocking_reason', None)
            if feasible != (blocked is None) or (blocked is not None and blocked != 'MODE_NOT_FEASIBLE'):
                wit.append({'key': f'fixed-mode-verdict:{label}:slack {slack}:bidir {bidir}',
                            'problems': [f'GSNR - penalty per direction {detail} dB against {mode["OSNR"]} + {MARGIN} dB: expected '
                                         f'{"feasible" if feasible else "MODE_NOT_FEASIBLE"}, the planner reports {blocked or "feasible"}']})
finish('penalty tables, out-of-table blocking, no accumulation of added OSNR; fixed-mode verdict of the planner with penalty tables', 'bounded',
       'gnpy.tools.json_io.Transceiver.__init__, gnpy.core.elements.Transceiver.calc_penalties/_calc_penalty/update_snr, '
       'gnpy.topology.request.propagate / compute_path_with_disjunction (fixed mode)',
       '7 penalty tables x 6 impairment values; 27 contribution tuples x 1/2/5 repeated calls; 4 tables x 3 thresholds x uni/bidirectional '
       'fixed-mode requests on an 80 km line', cases, wit, t0=t0)
