"""Bounded stand-in for the Raman-on clauses of C05: the solver reduces to the plain attenuation in the low-power limit (any
span length, any solver step), its perturbative and numerical methods agree, each lumped loss is applied once, and
counter-propagating pumps only add gain."""
import itertools
import time
import numpy as np
from bounded.common import args, finish

a = args()
from gnpy.core.elements import Fiber, RamanFiber
from gnpy.core.info import create_arbitrary_spectral_information
from gnpy.core.parameters import SimParams

t0 = time.time()
wit = []
cases = 0
FREQ = np.array([191.4e12, 192.2e12, 193.0e12, 193.8e12, 194.6e12, 195.9e12])
LUMPED = [{'position': 12.0, 'loss': 0.5}, {'position': 33.3, 'loss': 0.25}]


def run(cls, length_km, raman, pch, lumped=LUMPED, pumps=None, loss=0.21, att_in=1.0, con_in=0.3, con_out=0.4, freq=None):
    freq = FREQ if freq is None else freq
    SimParams.set_params({'raman_params': raman})
    kw = dict(uid='span', type_variety='SSMF',
              params={'length': length_km, 'length_units': 'km', 'loss_coef': loss, 'att_in': att_in, 'con_in': con_in,
                      'con_out': con_out, 'dispersion': 1.67e-5, 'effective_area': 83e-12, 'pmd_coef': 1.265e-15,
                      'lumped_losses': lumped})
    if cls is RamanFiber:
        kw['operational'] = {'temperature': 283, 'raman_pumps': pumps or []}
    fiber = cls(**kw)
    fiber.ref_pch_in_dbm = -60.0
    si = create_arbitrary_spectral_information(frequency=freq, pch=pch, baud_rate=32e9, slot_width=50e9, tx_osnr=40.0, tx_power=pch)
    pin = si.pch_dbm
    si = fiber(si)
    return pin - si.pch_dbm


try:
    lengths = [80.0, 75.0, 67.3, 41.0, 9.99, 120.5] if a.tier == 'quick' else [80.0, 75.0, 67.3, 52.5, 41.0, 9.99, 10.01, 120.5, 3.3]
    pert = [dict(flag=True, method='perturbative', order=o, **res) for o in (1, 2, 3)
            for res in ({}, {'solver_spatial_resolution': 3e3}, {'solver_spatial_resolution': 2e3, 'result_spatial_resolution': 5e3})]
    num = [dict(flag=True, method='numerical', solver_spatial_resolution=20, result_spatial_resolution=10e3)]
    # 1. low-power limit: the loss budget, for every length / step / method, with two distinct lumped losses applied once each
    for L, rp in itertools.product(lengths, pert + num):
        if rp['method'] == 'numerical' and L > 100:
            continue
        cases += 1
        lum = [l for l in LUMPED if l['position'] < L]
        want = 1.0 + 0.3 + L * 0.21 + sum(l['loss'] for l in lum) + 0.4
        got = run(Fiber, L, rp, 1e-9, lumped=lum)
        tol = 1e-4 if rp['method'] == 'perturbative' else 2e-2
        if np.max(np.abs(got - want)) > tol:
            wit.append({'key': f'low-power:{L}km:{rp}', 'problems': [f'span loss {np.round(got, 4).tolist()} dB, budget {want:.4f} dB']})
    # 1'. numerical method on a grid that is not uniform (a dozen lumped losses between the grid points, a length that is not a
    # multiple of the step): the loss budget up to the discretisation error of the explicit scheme, sum over the steps of
    # (alpha dz)^2 / 2 (tolerance: 1.5 x that bound for the nominal step)
    for L, step in itertools.product((80.0, 67.3), (20, 50)):
        cases += 1
        lum = [{'position': round(3.3337 + 6.1 * k, 4), 'loss': 0.1} for k in range(12) if 3.3337 + 6.1 * k < L]
        want = 1.0 + 0.3 + L * 0.21 + sum(l['loss'] for l in lum) + 0.4
        got = run(Fiber, L, dict(flag=True, method='numerical', solver_spatial_resolution=step, result_spatial_resolution=10e3), 1e-9, lumped=lum)
        alpha_step = 0.21e-3 / (10 * np.log10(np.e)) * step
        tol = 1.5 * 10 * np.log10(np.e) * (L * 1e3 / step) * alpha_step ** 2 / 2 + 1e-4
        if np.max(np.abs(got - want)) > tol:
            wit.append({'key': f'low-power:numerical:{L}km:{step} m steps:{len(lum)} lumped losses between grid points',
                        'problems': [f'span loss {np.round(got, 4).tolist()} dB, budget {want:.4f} dB, discretisation allowance {tol:.4f} dB']})
    # 1a. a lumped loss can only sit strictly inside the fibre (one at an end would be budgeted by Fiber.loss but never applied)
    from gnpy.core.exceptions import NetworkTopologyError
    for pos, ok in ((0.0, False), (80.0, False), (80.5, False), (-1.0, False), (1e-6, True), (79.999, True), (40.0, True)):
        cases += 1
        try:
            got = run(Fiber, 80.0, dict(flag=False), 1e-9, lumped=[{'position': pos, 'loss': 1.5}])
            if not ok:
                wit.append({'key': f'lumped-loss-position-accepted:{pos}', 'problems': [f'a lumped loss at {pos} km of an 80 km fibre was accepted; span loss '
                                                                                      f'{np.round(got, 3).tolist()} dB, Fiber.loss budget {1.0 + 0.3 + 80 * 0.21 + 1.5 + 0.4:.3f} dB']})
            elif np.max(np.abs(got - (1.0 + 0.3 + 80 * 0.21 + 1.5 + 0.4))) > 1e-4:
                wit.append({'key': f'lumped-loss-inside:{pos}', 'problems': [f'span loss {np.round(got, 4).tolist()} dB']})
        except NetworkTopologyError:
            if ok:
                wit.append({'key': f'lumped-loss-position-rejected:{pos}', 'problems': ['a position strictly inside the fibre was rejected']})
    # 1b. per-frequency loss coefficient: every channel is attenuated by the coefficient interpolated at its own frequency
    table = {'value': [0.18, 0.20, 0.25], 'frequency': [191.0e12, 193.5e12, 196.5e12]}
    for L, rp in itertools.product([50.0, 83.7], [dict(flag=False), pert[0], pert[4]]):
        cases += 1
        coef = np.interp(FREQ, table['frequency'], table['value'])
        want = 1.0 + 0.3 + L * coef + 0.4
        got = run(Fiber, L, rp, 1e-9, lumped=[], loss=table)
        if np.max(np.abs(got - want)) > 1e-4:
            wit.append({'key': f'per-frequency-loss:{L}km:{rp}', 'problems': [f'span loss {np.round(got, 4).tolist()} dB, expected per channel '
                                                                            f'{np.round(want, 4).tolist()} dB']})
    # 2. perturbative and numerical methods agree at operating powers (SRS tilt of a few tenths of a dB)
    for L, pch in itertools.product([75.0, 90.0] if a.tier == 'quick' else [50.0, 75.0, 90.0, 100.0], [1e-3, 5e-3]):
        cases += 1
        ref = run(Fiber, L, num[0], pch, lumped=[])
        for o in (3, 4):
            got = run(Fiber, L, dict(flag=True, method='perturbative', order=o), pch, lumped=[])
            if np.max(np.abs(got - ref)) > 0.05:
                wit.append({'key': f'methods-disagree:{L}km:{pch}W:order{o}',
                            'problems': [f'perturbative {np.round(got, 3).tolist()} dB vs numerical {np.round(ref, 3).tolist()} dB']})
        # the Raman transfer goes from high to low frequencies: the lowest channel loses least
        if not ref[0] <= ref[-1] + 1e-6:
            wit.append({'key': f'srs-tilt-direction:{L}km:{pch}W', 'problems': [f'loss per channel {np.round(ref, 3).tolist()} dB']})
    # 2b. a strong Raman tilt (25 channels at +15 dBm over 4.8 THz, about 10 dB of tilt): every further order of the perturbative
    # method comes closer to the numerical solution, and order 4 agrees with it
    cases += 1
    wide = np.linspace(191.4e12, 196.2e12, 25)
    ref = run(Fiber, 80.0, dict(flag=True, method='numerical', solver_spatial_resolution=5, result_spatial_resolution=10e3), 10 ** 1.5 * 1e-3,
              lumped=[], freq=wide)
    errs = {}
    for o in (1, 2, 3, 4):
        got = run(Fiber, 80.0, dict(flag=True, method='perturbative', order=o, result_spatial_resolution=10e3, solver_spatial_resolution=50),
                  10 ** 1.5 * 1e-3, lumped=[], freq=wide)
        errs[o] = float(np.max(np.abs(got - ref)))
    if a.tier == 'debug':
        print(errs)
    if errs[4] > 0.05 or not (errs[4] <= errs[3] + 5e-3 and errs[3] <= errs[2] + 5e-3 and errs[2] <= errs[1] + 5e-3):
        wit.append({'key': 'strong-tilt:orders-do-not-converge-to-the-numerical-solution',
                    'problems': [f'max |perturbative - numerical| per order: { {o: round(e, 4) for o, e in errs.items()} } dB (tilt {float(ref.max() - ref.min()):.2f} dB)']})
    # 3. counter-propagating pumps only add gain, channel by channel
    for L, ppump in itertools.product([60.0, 80.0, 100.0], [0.1, 0.25]):
        cases += 1
        rp = dict(flag=True, method='perturbative', order=2, result_spatial_resolution=10e3, solver_spatial_resolution=50)
        pumps = [{'power': ppump, 'frequency': 205e12, 'propagation_direction': 'counterprop'},
                 {'power': ppump, 'frequency': 201e12, 'propagation_direction': 'counterprop'}]
        without = run(RamanFiber, L, rp, 1e-4, lumped=[], pumps=[])
        with_p = run(RamanFiber, L, rp, 1e-4, lumped=[], pumps=pumps)
        if np.any(with_p > without + 1e-9):
            wit.append({'key': f'pumps-remove-power:{L}km:{ppump}W', 'problems': [f'loss without pumps {np.round(without, 3).tolist()}, with '
                                                                               f'pumps {np.round(with_p, 3).tolist()} dB']})
        if not np.all(without - with_p > 0.5):
            wit.append({'key': f'pumps-no-gain:{L}km:{ppump}W', 'problems': [f'on-off gain {np.round(without - with_p, 3).tolist()} dB']})
finally:
    SimParams.set_params({})
finish('Raman solver: low-power limit = loss budget, methods agree, lumped losses once, counter-propagating pumps only add gain', 'bounded',
       'gnpy.core.science_utils.RamanSolver.calculate_stimulated_raman_scattering (+ unidirectional solvers) through Fiber / RamanFiber.propagate',
       f'span lengths {lengths} km (+ a per-frequency loss table on 50 / 83.7 km) x perturbative orders 1-3 x three solver/result steps + numerical (20 m step); 6 channels; powers 1 nW, 1 mW, '
       '5 mW per channel; 25 channels at +15 dBm for the convergence of orders 1-4; pumps 0.1 / 0.25 W at 201 and 205 THz; tolerances 1e-4 dB (perturbative limit), 0.02 dB (Euler), 0.05 dB (agreement)',
       cases, wit, t0=t0)
