"""Bounded stand-in for C15's graph-level claims: build_oms_list / reversed_oms on designed small topologies."""
import itertools
import time
from copy import deepcopy
from bounded.common import args, finish, mesh, design, equipment, TOPOLOGIES, EXAMPLE

a = args()
from gnpy.core.elements import Roadm, Transceiver, Edfa, Fiber, Fused, Multiband_amplifier
from gnpy.topology.spectrum_assignment import build_oms_list, BitmapValue, frequency_to_n
from gnpy.topology.request import find_elements_common_range
from gnpy.tools.json_io import load_network, load_equipment
from gnpy.tools.worker_utils import designed_network

t0 = time.time()
wit = []
cases = 0


def check(net, eqpt, key):
    oms_list = build_oms_list(net, eqpt)
    prob = []
    line = [n for n in net.nodes() if not isinstance(n, (Roadm, Transceiver))]
    seen = {}
    for o in oms_list:
        if not isinstance(o.el_list[0], (Roadm, Transceiver)) or not isinstance(o.el_list[-1], (Roadm, Transceiver)):
            prob.append(f'OMS {o.oms_id} does not run ROADM to ROADM')
        for e in o.el_list[1:-1]:
            if isinstance(e, (Roadm, Transceiver)):
                prob.append(f'OMS {o.oms_id} crosses {e.uid}')
            seen[e.uid] = seen.get(e.uid, 0) + 1
            if getattr(e, 'oms_id', None) != o.oms_id or getattr(e, 'oms', None) is not o:
                prob.append(f'{e.uid} not tagged with its OMS')
        for x, y in zip(o.el_list, o.el_list[1:]):
            if not net.has_edge(x, y):
                prob.append(f'OMS {o.oms_id}: {x.uid} -> {y.uid} is not a link')
        r = o.reversed_oms
        if r is not None and not (r.el_id_list[0] == o.el_id_list[-1] and r.el_id_list[-1] == o.el_id_list[0]
                                  and r.reversed_oms is o):
            prob.append(f'OMS {o.oms_id}: opposite direction wrongly paired')
        if r is None:
            prob.append(f'OMS {o.oms_id}: no opposite direction')
    for e in line:
        if seen.get(e.uid, 0) != 1:
            prob.append(f'{e.uid} belongs to {seen.get(e.uid, 0)} OMS')
    ext = {(o.spectrum_bitmap.n_min, o.spectrum_bitmap.n_max, len(o.spectrum_bitmap.bitmap)) for o in oms_list}
    if len(ext) != 1:
        prob.append(f'maps of different extent {ext}')
    for o in oms_list:
        bm = o.spectrum_bitmap
        if bm.freq_index != list(range(bm.n_min, bm.n_max + 1)) or len(bm.bitmap) != len(bm.freq_index):
            prob.append(f'OMS {o.oms_id}: index not contiguous/unique')
        # the band(s) common to the amplifier models really installed on this OMS (not what the implementation declares)
        per_amp = []
        for e in o.el_list:
            if isinstance(e, Multiband_amplifier):
                per_amp.append([(x.params.f_min, x.params.f_max) for x in e.amplifiers.values()])
            elif isinstance(e, Edfa):
                per_amp.append([(e.params.f_min, e.params.f_max)])
        if per_amp:
            common = per_amp[0]
            for bands in per_amp[1:]:
                common = [(max(p, r), min(q, t)) for (p, q) in common for (r, t) in bands if max(p, r) < min(q, t)]
            cr = [{'f_min': p, 'f_max': q} for p, q in sorted(common)]
        else:
            cr = find_elements_common_range(o.el_list, eqpt)
        for k, v in enumerate(bm.bitmap):
            n = bm.n_min + k
            inside = any(frequency_to_n(b['f_min']) <= n <= frequency_to_n(b['f_max']) for b in cr)
            if (v == BitmapValue.FREE) != inside or v not in (BitmapValue.FREE, BitmapValue.UNUSABLE):
                prob.append(f'OMS {o.oms_id}: slot {n} marked {v} but inside common band = {inside}')
                break
    if prob:
        wit.append({'key': key, 'problems': prob[:5]})


span_sets = [[80], [20, 80], [0.001, 160]] if a.tier == 'quick' else [[80], [20, 80], [0.001, 160], [1200], [40, 40, 40]]
for name, (sites, links) in TOPOLOGIES.items():
    for sp in span_sets:
        for junction in ('none', 'fused', 'edfa'):
            if junction != 'none' and len(sp) == 1:
                continue
            topo = mesh(sites, links, spans={l: sp for l in links}, junction=junction)
            net, eqpt = design(topo)
            cases += 1
            check(net, eqpt, f'{name}:{sp}:{junction}')
# mixed bands: the shipped multiband example (C+L, C-only and L-only links)
eq = load_equipment(EXAMPLE / 'eqpt_config_multiband.json')
net = load_network(EXAMPLE / 'multiband_example_network.json', eq)
net, _, _ = designed_network(eq, net)
cases += 1
check(net, eq, 'multiband_example_network')
# a multi-band type variety whose library entry offers two alternative C-band models: the element holds the narrow one
import json as _json
from gnpy.tools.json_io import load_json, _equipment_from_json, DEFAULT_EXTRA_CONFIG, network_from_json
cases += 1
try:
    eqj = load_json(EXAMPLE / 'eqpt_config_multiband.json')
    by_name = {e['type_variety']: e for e in eqj['Edfa']}
    for new, old in (('demo_C_wide', 'std_low_gain_bis'), ('demo_C_narrow', 'std_low_gain_reduced_band'), ('demo_L', 'std_low_gain_L')):
        entry = deepcopy(by_name[old])
        entry['type_variety'] = new
        eqj['Edfa'].append(entry)
    eqj['Edfa'].append({'type_variety': 'demo_multiband', 'type_def': 'multi_band', 'amplifiers': ['demo_C_wide', 'demo_C_narrow', 'demo_L'],
                        'allowed_for_design': False})
    eq2 = _equipment_from_json(eqj, DEFAULT_EXTRA_CONFIG)
    topo = load_json(EXAMPLE / 'multiband_example_network.json')
    for el in topo['elements']:
        if el['uid'] == 'east edfa in Site_B to Site_C':
            el['type_variety'] = 'demo_multiband'
            el['amplifiers'] = [{'type_variety': 'demo_C_narrow', 'operational': el['amplifiers'][0]['operational']},
                                {'type_variety': 'demo_L', 'operational': el['amplifiers'][1]['operational']}]
    net2 = network_from_json(topo, eq2)
    net2, _, _ = designed_network(eq2, net2)
    check(net2, eq2, 'multiband_example_network:alternative-C-models')
except Exception as e:
    wit.append({'key': 'multiband_example_network:alternative-C-models', 'problems': [f'{type(e).__name__}: {e}'[:300]]})
finish('OMS partition / pairing / map marking on designed topologies', 'bounded',
       'gnpy.topology.spectrum_assignment.build_oms_list, reversed_oms',
       f'{len(TOPOLOGIES)} topologies <= 4 ROADM sites x spans {span_sets} x junction none/fused/edfa + multiband example',
       cases, wit, t0=t0)
