"""Bounded stand-in for the crossing-type clause of C06: on every add / drop / express crossing of a ROADM the path loss (and
PMD / PDL / OSNR contribution) is that of the crossing's own impairment set - add from a transceiver, drop to a transceiver,
express otherwise, or the set named for that pair of degrees - and each channel leaves at min(target, input - that loss)."""
import itertools
import time
from copy import deepcopy
import numpy as np
from bounded.common import args, finish, mesh, design, equipment, TOPOLOGIES, EXAMPLE

a = args()
from gnpy.core.elements import Roadm, Transceiver
from gnpy.core.info import create_arbitrary_spectral_information
from gnpy.core.utils import watt2dbm, dbm2watt
from gnpy.tools.json_io import load_json, _equipment_from_json, DEFAULT_EXTRA_CONFIG

t0 = time.time()
wit = []
cases = nontriv = 0
BAND = {'lower-frequency': 191.3e12, 'upper-frequency': 196.1e12}


def imp(kind, ident, **v):
    base = {'frequency-range': BAND, 'roadm-cd': 0, 'roadm-inband-crosstalk': 0}
    base.update({f'roadm-{k}': x for k, x in v.items()})
    return {'roadm-path-impairments-id': ident, f'roadm-{kind}-path': [base]}


SETS = {0: ('express', dict(maxloss=16.5, pmd=1e-12, pdl=0.3)), 1: ('add', dict(maxloss=11.5, pmd=2e-12, pdl=0.5, osnr=41)),
        2: ('drop', dict(maxloss=9.0, pmd=3e-12, pdl=0.7, osnr=39)), 3: ('express', dict(maxloss=6.0, pmd=4e-12, pdl=0.9)),
        4: ('drop', dict(maxloss=13.0, pmd=5e-12, pdl=1.1, osnr=33)), 5: ('add', dict(maxloss=7.0, pmd=6e-12, pdl=1.3, osnr=36))}
eq_json = load_json(EXAMPLE / 'eqpt_config.json')
eq_json['Roadm'].append({'type_variety': 'detailed', 'target_pch_out_db': -20, 'add_drop_osnr': 35, 'pmd': 0, 'pdl': 0,
                         'restrictions': {'preamp_variety_list': [], 'booster_variety_list': []},
                         'roadm-path-impairments': None})
# the sets are listed in two orders: the default of a crossing type is the first listed set of that type, a pair of degrees may
# name any other set of its type (set 0 included, also when it is not the first of its type)
for name, order in itertools.product((['ring3', 'star4'] if a.tier == 'quick' else ['ring3', 'star4', 'mesh4']), ((0, 1, 2, 3, 4, 5), (5, 4, 3, 2, 1, 0))):
    sites, links = TOPOLOGIES[name]
    eq_json['Roadm'][-1]['roadm-path-impairments'] = [imp(SETS[i][0], i, **SETS[i][1]) for i in order]
    default = {kind: next(i for i in order if SETS[i][0] == kind) for kind in ('express', 'add', 'drop')}
    other = {kind: next(i for i in order if SETS[i][0] == kind and i != default[kind]) for kind in ('express', 'add', 'drop')}
    for special in (None, 'express-pair-with-own-set', 'add-pair-with-own-set', 'drop-pair-with-own-set'):
        topo = mesh(sites, links, spans={l: [60] for l in links})
        hub = sites[0]
        for e in topo['elements']:
            if e['uid'] == f'roadm {hub}':
                e['type_variety'] = 'detailed'
        eq = _equipment_from_json(deepcopy(eq_json), DEFAULT_EXTRA_CONFIG)
        net, eq = design(topo, eq)
        r = next(n for n in net.nodes() if n.uid == f'roadm {hub}')
        ins = [n.uid for n in net.predecessors(r)]
        outs = [n.uid for n in net.successors(r)]
        trx = {n.uid for n in net.nodes() if isinstance(n, Transceiver)}
        own = {}
        if special:
            skind = special.split('-')[0]
            fr = next(i for i in ins if (i in trx) == (skind == 'add'))
            to = next(o for o in outs if (o in trx) == (skind == 'drop') and (o in trx or o.split('to')[-1] != fr.split('from')[-1]))
            # re-load with the pair declared on the element
            j = deepcopy(topo)
            net0, _ = net, None
            from gnpy.tools.json_io import network_to_json, network_from_json
            jj = network_to_json(net)
            for e in jj['elements']:
                if e['uid'] == r.uid:
                    e['params']['per_degree_impairments'] = [{'from_degree': fr, 'to_degree': to, 'impairment_id': other[skind]}]
            eq = _equipment_from_json(deepcopy(eq_json), DEFAULT_EXTRA_CONFIG)
            net, eq = design(jj, eq)
            r = next(n for n in net.nodes() if n.uid == f'roadm {hub}')
            own[(fr, to)] = other[skind]
        freq = np.array([191.4e12, 193.0e12, 195.9e12])
        for fr, to in itertools.product(ins, outs):
            if fr in trx and to in trx:
                continue
            cases += 1
            kind = 'add' if fr in trx else 'drop' if to in trx else 'express'
            ident = own.get((fr, to), default[kind])
            exp = SETS[ident][1]
            prob = []
            for key in ('maxloss', 'pmd', 'pdl'):
                got = r.get_impairment(f'roadm-{key}', freq, fr, to)
                if got is None or not np.allclose(got, exp[key]):
                    prob.append(f'{kind} crossing {fr} -> {to}: roadm-{key} {got} instead of {exp[key]} (impairment set {ident})')
            if 'osnr' in exp:
                got = r.get_impairment('roadm-osnr', freq, fr, to)
                if got is None or not np.allclose(got, exp['osnr']):
                    prob.append(f'{kind} crossing: roadm-osnr {got} instead of {exp["osnr"]}')
            # propagation: channels far above, just above and below (target + loss)
            target = r.get_per_degree_ref_power(degree=to) if to not in trx else r.ref_pch_out_dbm if hasattr(r, 'ref_pch_out_dbm') else -20
            pin_dbm = np.array([target + exp['maxloss'] + 5.0, target + exp['maxloss'] + 0.2, target + exp['maxloss'] - 3.0])
            si = create_arbitrary_spectral_information(frequency=freq, pch=dbm2watt(pin_dbm), baud_rate=32e9, slot_width=50e9, tx_osnr=40,
                                                       tx_power=dbm2watt(pin_dbm))
            try:
                so = r(deepcopy(si), degree=to, from_degree=fr)
                pout = watt2dbm(so.pch)
                want = np.minimum(target, pin_dbm - exp['maxloss'])
                if to not in trx:
                    nontriv += 1
                    if not np.allclose(pout, want, atol=1e-9):
                        prob.append(f'{kind} crossing {fr} -> {to}: out {np.round(pout, 3).tolist()} dBm, expected min(target {target}, in - '
                                    f'{exp["maxloss"]}) = {np.round(want, 3).tolist()}')
                if np.any(pout > pin_dbm + 1e-9):
                    prob.append('a channel leaves with more power than it entered')
                if not np.allclose(so.pmd, exp['pmd']) or not np.allclose(so.pdl, exp['pdl']):
                    prob.append(f'PMD/PDL after the crossing {so.pmd[0]:.2e}/{so.pdl[0]:.2f}, expected {exp["pmd"]:.2e}/{exp["pdl"]:.2f}')
            except Exception as e:
                prob.append(f'{type(e).__name__}: {e}'[:200])
            if prob:
                wit.append({'key': f'{name}:sets listed {order}:{special}:{fr}->{to}', 'problems': prob[:3]})
finish('ROADM crossings use the impairments of their own type (add / drop / express / per-pair set): loss, PMD, PDL, OSNR; output = min(target, in - loss)',
       'bounded', 'gnpy.core.network.set_roadm_internal_paths, gnpy.core.elements.Roadm.get_impairment / get_roadm_path / propagate',
       'hub ROADM of ring3, star4[, mesh4] with six impairment sets (two each of express, add, drop) listed in two orders, every '
       'ingress x egress pair, one express / add / drop pair re-declared with the other set of its type (set id 0 included); three channels '
       'above / at / below target + loss', cases, wit,
       nontrivial=nontriv, t0=t0)
