"""Bounded stand-in for C20: converting a Nodes / Links / Eqpt / Roadms (/ Service) workbook.

Workbooks are generated with openpyxl from a small in-memory description, converted with the real code
(gnpy.tools.convert.xls_to_json_data, gnpy.tools.json_io.load_network / load_requests) and the result is compared with
an oracle computed from the description only:

* one Roadm + one Transceiver per ROADM site (an ILA / untyped site whose degree is not 2 is a ROADM), two Fused elements
  per FUSED site, two Edfa per ILA site, two elements per Eqpt row; exactly one Fiber per link row and direction with the
  sheet's values (west cell blank -> east value, explicit west zeros kept);
* unique uids, every connection end exists, both directions of every link are wired site A -> fibre -> site Z;
* an Eqpt row's east settings are on the element just before fibre (A -> Z), its west settings on the element just after
  fibre (Z -> A); a Roadms row's target power is filed under the element between 'roadm A' and fibre (A -> Z);
* malformed workbooks raise NetworkTopologyError and nothing else;
* every Service row becomes one request (units converted, route list in order with its strictness, own end transceivers
  dropped) and one synchronization entry per non-blank 'disjoint from'.

Route lists naming a site that the topology conversion re-typed to ROADM (declared / defaulting to ILA, degree not 2) are
kept in three dedicated workbooks reported under the single witness key 'route-list-names-site-retyped-to-roadm' (finding
F20: convert.corresp_names read the declared types again, so such a site was not mapped to its 'roadm <site>'; repaired in
/repo, the workbooks stay in the family).
Set C20_TRACE=1 to get every witness on stderr.
"""
import contextlib
import io
import itertools
import logging
import math
import os
import random
import shutil
import tempfile
import time
from copy import deepcopy
from pathlib import Path

from bounded.common import args, finish, equipment, REPO, EXAMPLE, TESTDATA

a = args()
import openpyxl
from gnpy.core.exceptions import NetworkTopologyError
from gnpy.tools.convert import xls_to_json_data
from gnpy.tools.json_io import load_network, load_requests, requests_from_json
from gnpy.tools.worker_utils import designed_network

logging.disable(logging.CRITICAL)
t0 = time.time()
rnd = random.Random(a.seed)
QUICK = a.tier == 'quick'
TMP = tempfile.mkdtemp(prefix='c20_')
wit = []
cases = 0
nontriv = 0
ARROW = '→'

# ------------------------------------------------------------------------------------------------ workbook writer
NODE_H = ['City', 'State', 'Country', 'Region', 'Latitude', 'Longitude', 'Type', 'Booster_restriction', 'Preamp_restriction']
LINK_KEYS = ['distance', 'fiber', 'lineic', 'con_in', 'con_out', 'pmd', 'cable']
LINK_SUB = ['Distance (km)', 'Fiber type', 'lineic att', 'Con_in', 'Con_out', 'PMD', 'Cable id']
EQPT_KEYS = ['type', 'att_in', 'gain', 'tilt', 'att_out', 'dp']
EQPT_SUB = ['amp type', 'att_in', 'amp gain', 'tilt', 'att_out', 'delta p']
ROADM_H = ['Node A', 'Node Z', 'per degree target power (dBm)', 'type_variety', 'from degrees', 'from degree to degree impairment id']
SERVICE_KEYS = ['id', 'src', 'dst', 'trx', 'mode', 'spacing', 'power', 'nch', 'disjoint', 'path', 'loose', 'bw']
SERVICE_H = ['route id', 'Source', 'Destination', 'TRX type', 'Mode', 'System: spacing', 'System: input power (dBm)',
             'System: nb of channels', 'routing: disjoint from', 'routing: path', 'routing: is loose?', 'path bandwidth']


def put(ws, r, c, v):
    """0-based row / column; None leaves the cell blank"""
    if v is not None:
        ws.cell(row=r + 1, column=c + 1, value=v)


def write_workbook(d, path):
    wb = openpyxl.Workbook()
    ws = wb.active
    ws.title = 'Nodes'
    for c, h in enumerate(NODE_H):
        put(ws, 4, c, h)
    for r, n in enumerate(d['nodes']):
        city, typ = n[0], n[1]
        lat, lon = (n[2], n[3]) if len(n) > 2 else (None, None)
        for c, v in enumerate([city, 'st', 'Fr', 'RLD', lat, lon, typ, None, None]):
            put(ws, 5 + r, c, v)
    ws = wb.create_sheet('Links')
    put(ws, 0, 0, 'generated network')
    if d.get('links_east_header', True):
        put(ws, 3, 2, 'east cable (from a to z)')
    put(ws, 3, 9, 'west (from z to a)')
    for c, h in enumerate(['Node A', 'Node Z'] + LINK_SUB + LINK_SUB):
        put(ws, 4, c, h)
    for r, l in enumerate(d['links']):
        put(ws, 5 + r, 0, l['a'])
        put(ws, 5 + r, 1, l['z'])
        for c, k in enumerate(LINK_KEYS):
            put(ws, 5 + r, 2 + c, l.get('east', {}).get(k))
            put(ws, 5 + r, 9 + c, l.get('west', {}).get(k))
    if d.get('eqpt') is not None:
        ws = wb.create_sheet('Eqpt')
        put(ws, 0, 0, 'OPTIONAL')
        put(ws, 3, 2, 'Node a egress/east amp (from a to z)')
        put(ws, 3, 8, 'Node a ingress/west amp (from z to a)')
        for c, h in enumerate(['Node A', 'Node Z'] + EQPT_SUB + EQPT_SUB):
            put(ws, 4, c, h)
        for r, e in enumerate(d['eqpt']):
            put(ws, 5 + r, 0, e['a'])
            put(ws, 5 + r, 1, e['z'])
            for c, k in enumerate(EQPT_KEYS):
                put(ws, 5 + r, 2 + c, e.get('east', {}).get(k))
                put(ws, 5 + r, 8 + c, e.get('west', {}).get(k))
    if d.get('roadms') is not None:
        ws = wb.create_sheet('Roadms')
        put(ws, 0, 0, 'OPTIONAL')
        for c, h in enumerate(ROADM_H):
            put(ws, 4, c, h)
        for r, (x, y, p) in enumerate(d['roadms']):
            put(ws, 5 + r, 0, x)
            put(ws, 5 + r, 1, y)
            put(ws, 5 + r, 2, p)
    if d.get('services') is not None:
        ws = wb.create_sheet('Service')
        put(ws, 3, 8, 'optional')
        for c, h in enumerate(SERVICE_H):
            put(ws, 4, c, h)
        for r, s in enumerate(d['services']):
            for c, k in enumerate(SERVICE_KEYS):
                v = s.get(k)
                if k == 'path' and v is not None:
                    v = ' | '.join(v)
                put(ws, 5 + r, c, v)
    wb.save(path)


# ------------------------------------------------------------------------------------------------ oracle
def neighbours(d):
    nb = {n[0]: [] for n in d['nodes']}
    for l in d['links']:
        nb[l['a']].append(l['z'])
        nb[l['z']].append(l['a'])
    return nb


def site_types(d):
    nb = neighbours(d)
    out = {}
    for n in d['nodes']:
        t = n[1] if n[1] in ('ROADM', 'ILA', 'FUSED') else 'ILA'
        if t in ('ILA', 'FUSED') and len(nb[n[0]]) != 2:
            # a line site (amplifier or splice) has exactly two neighbours: with another degree the site can only be a ROADM
            t = 'ROADM'
        out[n[0]] = t
    return out


EAST_DEFAULT = {'distance': 80, 'fiber': 'SSMF', 'lineic': 0.2, 'con_in': None, 'con_out': None, 'cable': ''}


def fibre_values(l):
    """(east values, west values) of a Links row"""
    east = {k: (l.get('east', {}).get(k) if l.get('east', {}).get(k) is not None else EAST_DEFAULT[k]) for k in EAST_DEFAULT}
    west = {k: (l.get('west', {}).get(k) if l.get('west', {}).get(k) is not None else east[k]) for k in EAST_DEFAULT}
    return east, west


def fibre_uid(x, y, cable):
    return f'fiber ({x} {ARROW} {y})-{cable}'


def directed_fibres(d):
    """{(x, y): (uid, values)} for both directions of every link row"""
    out = {}
    for l in d['links']:
        e, w = fibre_values(l)
        out[(l['a'], l['z'])] = (fibre_uid(l['a'], l['z'], e['cable']), e)
        out[(l['z'], l['a'])] = (fibre_uid(l['z'], l['a'], w['cable']), w)
    return out


def amp_expect(side):
    """what an Eqpt row side becomes"""
    typ = side.get('type') or ''
    if typ.lower() == 'fused':
        return {'type': 'Fused', 'params': {'loss': 0}}
    exp = {'type': 'Edfa', 'operational': {'gain_target': side.get('gain'), 'delta_p': side.get('dp'), 'tilt_target': side.get('tilt'),
                                          'out_voa': side.get('att_out'), 'in_voa': side.get('att_in') if side.get('att_in') is not None else 0}}
    if typ:
        exp['type_variety'] = typ
    return exp


def same(x, y):
    if isinstance(x, bool) or isinstance(y, bool) or x is None or y is None or isinstance(x, str) or isinstance(y, str):
        return x == y and type(x) is type(y) or (x is None and y is None)
    return math.isclose(x, y, rel_tol=1e-12, abs_tol=0)


def check_topology(d, js):
    """problems of the converted JSON against the description"""
    prob = []
    types = site_types(d)
    nb = neighbours(d)
    fib = directed_fibres(d)
    els = js['elements']
    uids = [e['uid'] for e in els]
    if len(set(uids)) != len(uids):
        prob.append(f'uids are not unique: {sorted(u for u in set(uids) if uids.count(u) > 1)}')
    by = {e['uid']: e for e in els}
    cons = [(c['from_node'], c['to_node']) for c in js['connections']]
    if len(set(cons)) != len(cons):
        prob.append('a connection is listed twice')
    for f, t in cons:
        for x in (f, t):
            if x not in by:
                prob.append(f'connection end {x!r} is not an element')
    succ, pred = {}, {}
    for f, t in cons:
        succ.setdefault(f, []).append(t)
        pred.setdefault(t, []).append(f)
    eq_rows = {(e['a'], e['z']): e for e in d.get('eqpt') or []}
    # ---- expected elements
    expect = {}
    for s, t in types.items():
        if t == 'ROADM':
            expect[f'roadm {s}'] = 'Roadm'
            expect[f'trx {s}'] = 'Transceiver'
        elif t == 'FUSED':
            expect[f'west fused spans in {s}'] = 'Fused'
            expect[f'east fused spans in {s}'] = 'Fused'
        elif not any(k[0] == s for k in eq_rows):
            expect[f'west edfa in {s}'] = 'Edfa'
            expect[f'east edfa in {s}'] = 'Edfa'
    for (x, y), (uid, _) in fib.items():
        expect[uid] = 'Fiber'
    for (x, y), row in eq_rows.items():
        expect[f'east edfa in {x} to {y}'] = amp_expect(row.get('east', {}))['type']
        expect[f'west edfa in {x} to {y}'] = amp_expect(row.get('west', {}))['type']
    for u, t in expect.items():
        if u not in by:
            prob.append(f'missing element {u!r} ({t})')
        elif by[u].get('type') != t:
            prob.append(f'element {u!r} is a {by[u].get("type")}, expected {t}')
    for u in uids:
        if u not in expect:
            prob.append(f'unexpected element {u!r} ({by[u].get("type")})')
    for t in ('Roadm', 'Transceiver'):
        n = sum(1 for e in els if e.get('type') == t)
        if n != sum(1 for v in types.values() if v == 'ROADM'):
            prob.append(f'{n} {t} elements for {sum(1 for v in types.values() if v == "ROADM")} ROADM sites')
    n = sum(1 for e in els if e.get('type') == 'Fiber')
    if n != 2 * len(d['links']):
        prob.append(f'{n} Fiber elements for {len(d["links"])} link rows')
    if prob:
        return prob
    # ---- fibre values
    for (x, y), (uid, v) in fib.items():
        e = by[uid]
        p = e.get('params', {})
        got = {'length': p.get('length'), 'length_units': p.get('length_units'), 'type_variety': e.get('type_variety'),
               'loss_coef': p.get('loss_coef'), 'con_in': p.get('con_in'), 'con_out': p.get('con_out')}
        want = {'length': v['distance'], 'length_units': 'km', 'type_variety': v['fiber'], 'loss_coef': v['lineic'],
                'con_in': v['con_in'], 'con_out': v['con_out']}
        for k in want:
            if not same(got[k], want[k]) and not (isinstance(want[k], (int, float)) and isinstance(got[k], (int, float))
                                                  and not isinstance(got[k], bool) and got[k] == want[k]):
                prob.append(f'{uid}: {k} = {got[k]!r}, sheet says {want[k]!r}')
    # ---- wiring: every directed fibre is fed from an element of site x and feeds an element of site y
    def city(u):
        return by[u].get('metadata', {}).get('location', {}).get('city')

    def hop(u, table, what):
        nxt = table.get(u, [])
        if len(nxt) != 1:
            prob.append(f'{u!r} has {len(nxt)} {what} ({nxt})')
            return None
        return nxt[0]

    line_use = {}
    for (x, y), (uid, _) in fib.items():
        # upstream side
        up = hop(uid, pred, 'predecessors')
        dn = hop(uid, succ, 'successors')
        if up is None or dn is None:
            continue
        row = eq_rows.get((x, y))
        if types[x] == 'ROADM':
            if row is not None:
                want_up = f'east edfa in {x} to {y}'
                if up != want_up:
                    prob.append(f'{uid} is fed by {up!r}, not by the east element of Eqpt row {x}->{y}')
                elif pred.get(up, []) != [f'roadm {x}']:
                    prob.append(f'{up!r} is fed by {pred.get(up)}, expected roadm {x}')
            elif up != f'roadm {x}':
                prob.append(f'{uid} is fed by {up!r}, expected roadm {x}')
        else:
            other = [n for n in nb[x] if n != y][0]
            if by[up].get('type') not in ('Edfa', 'Fused') or city(up) != x:
                prob.append(f'{uid} is fed by {up!r} which is not a line element of site {x}')
            elif pred.get(up, []) != [fib[(other, x)][0]]:
                prob.append(f'{up!r} (feeding {uid}) is fed by {pred.get(up)}, expected the fibre {other}->{x}')
            line_use.setdefault(x, []).append(up)
            if row is not None and up != f'east edfa in {x} to {y}':
                prob.append(f'{uid} is fed by {up!r}, not by the east element of Eqpt row {x}->{y}')
        row = eq_rows.get((y, x))
        if types[y] == 'ROADM':
            if row is not None:
                want_dn = f'west edfa in {y} to {x}'
                if dn != want_dn:
                    prob.append(f'{uid} feeds {dn!r}, not the west element of Eqpt row {y}->{x}')
                elif succ.get(dn, []) != [f'roadm {y}']:
                    prob.append(f'{dn!r} feeds {succ.get(dn)}, expected roadm {y}')
            elif dn != f'roadm {y}':
                prob.append(f'{uid} feeds {dn!r}, expected roadm {y}')
        else:
            other = [n for n in nb[y] if n != x][0]
            if by[dn].get('type') not in ('Edfa', 'Fused') or city(dn) != y:
                prob.append(f'{uid} feeds {dn!r} which is not a line element of site {y}')
            elif succ.get(dn, []) != [fib[(y, other)][0]]:
                prob.append(f'{dn!r} (fed by {uid}) feeds {succ.get(dn)}, expected the fibre {y}->{other}')
            if row is not None and dn != f'west edfa in {y} to {x}':
                prob.append(f'{uid} feeds {dn!r}, not the west element of Eqpt row {y}->{x}')
    for s, used in line_use.items():
        if len(used) == 2 and used[0] == used[1]:
            prob.append(f'both directions through {s} use the same element {used[0]!r}')
    # ---- ROADM <-> transceiver, degree and total connection count
    n_expected = 0
    for s, t in types.items():
        if t == 'ROADM':
            if f'roadm {s}' not in succ.get(f'trx {s}', []) or f'trx {s}' not in succ.get(f'roadm {s}', []):
                prob.append(f'trx {s} and roadm {s} are not connected both ways')
            want_out = sorted([f'trx {s}'] + [f'east edfa in {s} to {n}' if (s, n) in eq_rows else fib[(s, n)][0] for n in nb[s]])
            if sorted(succ.get(f'roadm {s}', [])) != want_out:
                prob.append(f'roadm {s} feeds {sorted(succ.get(f"roadm {s}", []))}, expected {want_out}')
            n_expected += 2 + sum(2 * (2 if (s, n) in eq_rows else 1) for n in nb[s])
        else:
            n_expected += 4
    if len(cons) != n_expected:
        prob.append(f'{len(cons)} connections, expected {n_expected}')
    # ---- Eqpt settings
    for (x, y), row in eq_rows.items():
        for side in ('east', 'west'):
            e = by[f'{side} edfa in {x} to {y}']
            want = amp_expect(row.get(side, {}))
            if want['type'] == 'Fused':
                continue
            if e.get('type_variety') != want.get('type_variety'):
                prob.append(f'{e["uid"]}: type_variety {e.get("type_variety")!r}, Eqpt row says {want.get("type_variety")!r}')
            op = e.get('operational', {})
            for k, v in want['operational'].items():
                if k not in op or not (same(op[k], v) or (v is not None and op[k] is not None and not isinstance(op[k], str) and op[k] == v)):
                    prob.append(f'{e["uid"]}: {k} = {op.get(k, "<absent>")!r}, Eqpt row says {v!r}')
    # ---- ILA without Eqpt row: automatic settings
    for s, t in types.items():
        if t == 'ILA' and not any(k[0] == s for k in eq_rows):
            for side in ('east', 'west'):
                e = by[f'{side} edfa in {s}']
                if e.get('type_variety') or any(v is not None for v in e.get('operational', {}).values()):
                    prob.append(f'{e["uid"]} carries settings although no Eqpt row names {s}')
    # ---- Roadms rows
    per_roadm = {}
    for x, y, p in d.get('roadms') or []:
        per_roadm.setdefault(x, {})
        if p is not None:
            per_roadm[x][(x, y)] = p
    for x, rows in per_roadm.items():
        got = by[f'roadm {x}'].get('params', {}).get('per_degree_pch_out_db')
        if got is None:
            prob.append(f'roadm {x}: no per_degree_pch_out_db although the Roadms sheet has rows')
            continue
        want = {}
        for (_, y), p in rows.items():
            egress = [u for u in succ.get(f'roadm {x}', []) if u != f'trx {x}' and
                      (u == fib[(x, y)][0] or succ.get(u, []) == [fib[(x, y)][0]])]
            if len(egress) != 1:
                prob.append(f'roadm {x}: no single egress element towards {y}')
                continue
            want[egress[0]] = p
        if set(got) != set(want) or any(not (same(got[k], want[k]) or got[k] == want[k]) for k in want if k in got):
            prob.append(f'roadm {x}: per_degree_pch_out_db {got}, Roadms sheet gives {want}')
    for s, t in types.items():
        if t == 'ROADM' and s not in per_roadm and by[f'roadm {s}'].get('params', {}).get('per_degree_pch_out_db'):
            prob.append(f'roadm {s} has per degree powers without a Roadms row')
    return prob


def check_loaded(d, net, js):
    """the network loaded from the workbook has the JSON's elements, links and fibre values"""
    from gnpy.core.elements import Fiber
    prob = []
    uids = sorted(n.uid for n in net.nodes())
    if uids != sorted(e['uid'] for e in js['elements']):
        prob.append('loaded network nodes differ from the converted elements')
    edges = sorted((x.uid, y.uid) for x, y in net.edges())
    if edges != sorted((c['from_node'], c['to_node']) for c in js['connections']):
        prob.append('loaded network edges differ from the converted connections')
    fib = {uid: v for uid, v in directed_fibres(d).values()}
    for n in net.nodes():
        if isinstance(n, Fiber) and n.uid in fib:
            v = fib[n.uid]
            if not math.isclose(n.params.length, v['distance'] * 1e3, rel_tol=1e-9):
                prob.append(f'loaded {n.uid}: length {n.params.length} m, sheet {v["distance"]} km')
            if n.type_variety != v['fiber']:
                prob.append(f'loaded {n.uid}: type {n.type_variety}, sheet {v["fiber"]}')
            lc = n.params.loss_coef
            lc = float(lc[0]) if hasattr(lc, '__len__') else float(lc)
            if not math.isclose(lc * 1e3, v['lineic'], rel_tol=1e-9):
                prob.append(f'loaded {n.uid}: loss coefficient {lc * 1e3} dB/km, sheet {v["lineic"]}')
            for k, attr in (('con_in', 'con_in'), ('con_out', 'con_out')):
                if v[k] is not None and not math.isclose(getattr(n.params, attr), v[k], rel_tol=1e-9, abs_tol=1e-12):
                    prob.append(f'loaded {n.uid}: {k} {getattr(n.params, attr)}, sheet {v[k]}')
    return prob


def next_station(d, x, via):
    """first ROADM / ILA site reached from x through neighbour `via`, stepping over FUSED sites"""
    types, nb = site_types(d), neighbours(d)
    prev, cur = x, via
    while types[cur] == 'FUSED':
        nxt = [n for n in nb[cur] if n != prev][0]
        prev, cur = cur, nxt
    return cur


def check_services(d, data, js):
    prob = []
    types, nb, fib = site_types(d), neighbours(d), directed_fibres(d)
    by = {e['uid']: e for e in js['elements']}
    succ = {}
    for c in js['connections']:
        succ.setdefault(c['from_node'], []).append(c['to_node'])
    rows = d['services']
    reqs = data.get('path-request', [])
    if len(reqs) != len(rows):
        return [f'{len(reqs)} requests for {len(rows)} Service rows']
    want_sync = []
    for s, r in zip(rows, reqs):
        rid = s['id'] if isinstance(s['id'], str) else str(int(s['id']))
        tag = f'request {rid}'
        if r.get('request-id') != rid:
            prob.append(f'{tag}: request-id {r.get("request-id")!r}')
        for k, v in (('source', f'trx {s["src"]}'), ('destination', f'trx {s["dst"]}'), ('src-tp-id', f'trx {s["src"]}'),
                     ('dst-tp-id', f'trx {s["dst"]}')):
            if r.get(k) != v:
                prob.append(f'{tag}: {k} = {r.get(k)!r}, expected {v!r}')
        te = r.get('path-constraints', {}).get('te-bandwidth', {})
        if te.get('trx_type') != s['trx']:
            prob.append(f'{tag}: trx_type {te.get("trx_type")!r}, sheet {s["trx"]!r}')
        if te.get('trx_mode') != s.get('mode'):
            prob.append(f'{tag}: trx_mode {te.get("trx_mode")!r}, sheet {s.get("mode")!r}')
        if not isinstance(te.get('spacing'), (int, float)) or not math.isclose(te['spacing'], s['spacing'] * 1e9, rel_tol=1e-12):
            prob.append(f'{tag}: spacing {te.get("spacing")!r}, sheet {s["spacing"]} GHz')
        if s.get('power') is None:
            if te.get('output-power', 'absent') is not None:
                prob.append(f'{tag}: output-power {te.get("output-power", "absent")!r} for a blank power cell')
        elif not isinstance(te.get('output-power'), float) or \
                not math.isclose(te['output-power'], 10 ** (s['power'] / 10) * 1e-3, rel_tol=1e-12):
            prob.append(f'{tag}: output-power {te.get("output-power")!r}, sheet {s["power"]} dBm')
        if s.get('nch') is None:
            if te.get('max-nb-of-channel', 'absent') is not None:
                prob.append(f'{tag}: max-nb-of-channel {te.get("max-nb-of-channel", "absent")!r} for a blank cell')
        elif te.get('max-nb-of-channel') != int(s['nch']) or not isinstance(te.get('max-nb-of-channel'), int):
            prob.append(f'{tag}: max-nb-of-channel {te.get("max-nb-of-channel")!r}, sheet {s["nch"]}')
        if not isinstance(te.get('path_bandwidth'), (int, float)) or not math.isclose(te['path_bandwidth'], s['bw'] * 1e9, rel_tol=1e-12):
            prob.append(f'{tag}: path_bandwidth {te.get("path_bandwidth")!r}, sheet {s["bw"]} Gbit/s')
        # route list
        toks = list(s.get('path') or [])
        if toks and toks[0] == f'trx {s["src"]}':
            toks.pop(0)
        if toks and toks[-1] == f'trx {s["dst"]}':
            toks.pop(-1)
        hop_type = 'LOOSE' if s.get('loose') in (None, 'yes', 'Yes', 'YES') else 'STRICT'
        got = r.get('explicit-route-objects', {}).get('route-object-include-exclude', [])
        got = sorted(got, key=lambda o: o['index'])
        if len(got) != len(toks):
            prob.append(f'{tag}: route list {[o["num-unnum-hop"]["node-id"] for o in got]} for the sheet path {s.get("path")}')
        else:
            if [o['index'] for o in got] != list(range(len(toks))):
                prob.append(f'{tag}: route indices {[o["index"] for o in got]}')
            for i, (tok, o) in enumerate(zip(toks, got)):
                nid = o['num-unnum-hop']['node-id']
                if o['num-unnum-hop'].get('hop-type') != hop_type:
                    prob.append(f'{tag}: hop {i} is {o["num-unnum-hop"].get("hop-type")}, sheet says {hop_type}')
                if o.get('explicit-route-usage') != 'route-include-ero':
                    prob.append(f'{tag}: hop {i} usage {o.get("explicit-route-usage")!r}')
                if types.get(tok) == 'ROADM':
                    if nid != f'roadm {tok}':
                        prob.append(f'{tag}: hop {i} {nid!r}, expected roadm {tok}')
                elif types.get(tok) == 'ILA':
                    nxt = toks[i + 1] if i + 1 < len(toks) else s['dst']
                    via = [n for n in nb[tok] if next_station(d, tok, n) == nxt]
                    e = by.get(nid)
                    if e is None or e.get('type') != 'Edfa' or e.get('metadata', {}).get('location', {}).get('city') != tok:
                        prob.append(f'{tag}: hop {i} {nid!r} is not an amplifier of site {tok}')
                    elif len(via) == 1 and succ.get(nid, []) != [fib[(tok, via[0])][0]]:
                        prob.append(f'{tag}: hop {i} {nid!r} does not face {via[0]} (next named node {nxt})')
                else:
                    prob.append(f'{tag}: internal: token {tok!r} not handled by the oracle')
        if s.get('disjoint') is not None:
            dj = s['disjoint']
            ids = dj.split(' | ') if isinstance(dj, str) else [str(int(dj))]
            want_sync.append((rid, [rid] + ids))
    got_sync = [(y.get('synchronization-id'), y.get('svec', {}).get('request-id-number')) for y in data.get('synchronization', [])]
    if got_sync != want_sync:
        prob.append(f'synchronization {got_sync}, expected {want_sync}')
    return prob


# ------------------------------------------------------------------------------------------------ the family
def km(x):
    return round(x + rnd.randint(0, 40) + rnd.choice([0, 0.25, 0.5, 0.125]), 3)


TOPOS = {
    # name: (nodes [(city, declared type, lat, long)], link pairs in sheet orientation)
    'line': ([('A', 'ROADM', 1, 0), ('x', 'ILA', 1, 1), ('B', 'ROADM', 1, 2)], [('A', 'x'), ('x', 'B')]),
    'line_rev': ([('A', 'ROADM', 1, 0), ('x', 'ILA', 1, 1), ('B', 'ROADM', 1, 2)], [('B', 'x'), ('A', 'x')]),
    'ring': ([('A', 'ROADM', 0, 0), ('B', 'ROADM', 0, 2), ('C', 'ROADM', 2, 1), ('i1', 'ILA', 0, 1), ('f1', 'FUSED', 1, 1.5)],
             [('A', 'i1'), ('i1', 'B'), ('C', 'f1'), ('f1', 'B'), ('C', 'A')]),
    'star': ([('H', 'ROADM', 0, 0), ('L1', 'ROADM', 1, 0), ('L2', None, 0, 1), ('L3', 'ROADM', -1, 0)],
             [('H', 'L1'), ('L2', 'H'), ('H', 'L3')]),
    'bad_ila': ([('A', 'ROADM', 0, 0), ('B', 'ROADM', 0, 2), ('C', 'ROADM', 2, 1), ('X', 'ILA', 1, 1)],
                [('A', 'X'), ('X', 'B'), ('C', 'X')]),
    'bad_fused': ([('A', 'ROADM', 0, 0), ('B', 'ROADM', 0, 2), ('C', 'ROADM', 2, 1), ('X', 'FUSED', 1, 1), ('Y', 'FUSED', 3, 3)],
                  [('A', 'X'), ('X', 'B'), ('C', 'X'), ('C', 'Y')]),
    'chain': ([('A', 'ROADM', 0, 0), ('i1', 'ILA', 0, 1), ('i2', None, 0, 2), ('f1', 'FUSED', 0, 3), ('i3', 'ILA', 0, 4),
               ('B', 'ROADM', 0, 5), ('C', 'ROADM', 1, 5)],
              [('A', 'i1'), ('i2', 'i1'), ('i2', 'f1'), ('f1', 'i3'), ('B', 'i3'), ('B', 'C'), ('C', 'A')]),
}

LINK_VARIANTS = ['east_only', 'west_differs', 'west_zeros', 'west_partial', 'east_minimal']
EQPT_VARIANTS = ['no_sheet', 'empty_sheet', 'east_only', 'two_sided', 'two_sided_far', 'fused_booster']


def make_links(pairs, variant):
    links = []
    for k, (x, y) in enumerate(pairs):
        east = {'distance': km(40 + 10 * k), 'fiber': 'SSMF', 'lineic': 0.2 + 0.001 * k, 'con_in': 0.5, 'con_out': 0.5 + 0.05 * k,
                'cable': f'F{k:02d}'}
        west = {}
        if variant == 'west_differs':
            west = {'distance': km(45 + 10 * k), 'fiber': 'NZDF', 'lineic': 0.22, 'con_in': 0.25, 'con_out': 0.75, 'cable': f'G{k:02d}'}
        elif variant == 'west_zeros':
            west = {'distance': km(30 + 10 * k), 'fiber': 'NZDF', 'lineic': 0.22, 'con_in': 0, 'con_out': 0}
        elif variant == 'west_partial':
            west = [{'con_in': 0}, {'con_out': 0, 'lineic': 0.22}, {'distance': km(50), 'fiber': 'NZDF'}, {'con_in': 0, 'con_out': 0.3}][k % 4]
        elif variant == 'east_minimal':
            east = {'distance': east['distance']}
            if k % 2:
                west = {'con_in': 0, 'con_out': 0}
        links.append({'a': x, 'z': y, 'east': east, 'west': west})
    return links


def eqpt_sides(k):
    east = [{'type': 'std_medium_gain', 'gain': 21.5, 'dp': 1.5, 'tilt': 0.5, 'att_out': 1, 'att_in': 0.5},
            {'type': 'std_low_gain', 'gain': 14, 'dp': 0, 'tilt': 0, 'att_out': 0, 'att_in': 0},
            {'type': 'std_medium_gain', 'gain': 19.25},
            {'gain': 18, 'dp': -1, 'att_out': 0.5}][k % 4]
    west = [{'type': 'std_low_gain', 'gain': 12.5, 'dp': -0.5, 'tilt': 0, 'att_out': 0, 'att_in': 1.5},
            {'type': 'std_medium_gain', 'gain': 22, 'dp': 2, 'tilt': -0.5, 'att_out': 2, 'att_in': 0},
            {'type': 'std_low_gain', 'att_in': 0.75},
            {'type': 'std_medium_gain', 'gain': 0, 'tilt': 1}][k % 4]
    return deepcopy(east), deepcopy(west)


def make_eqpt(nodes, pairs, variant):
    """(eqpt rows or None, roadms rows or None)"""
    if variant == 'no_sheet':
        return None, None
    if variant == 'empty_sheet':
        return [], []
    d = {'nodes': nodes, 'links': [{'a': x, 'z': y} for x, y in pairs]}
    types, nb = site_types(d), neighbours(d)
    declared = {n[0]: n[1] for n in nodes}
    rows, roadms = [], []
    k = 0
    for s, t in types.items():
        if t == 'FUSED':
            continue
        if t == 'ILA' or declared[s] in ('ILA', None):
            # a site declared (or defaulting to) ILA may have a single Eqpt row
            targets = [nb[s][-1] if variant == 'two_sided_far' else nb[s][0]]
        else:
            targets = nb[s] if variant != 'east_only' else nb[s][:1]
        for n in targets:
            east, west = eqpt_sides(k)
            if variant == 'east_only':
                west = {}
            if variant == 'fused_booster' and t == 'ROADM' and k % 2 == 0:
                east = {'type': 'fused'}
            rows.append({'a': s, 'z': n, 'east': east, 'west': west})
            if t == 'ROADM' and (east.get('type') or '').lower() != 'fused' and k % 3 != 2:
                roadms.append((s, n, [-18.5, -21, 0, None][k % 4]))
            k += 1
    if variant == 'two_sided_far':
        rows.reverse()
    return rows, roadms


SERVICES = {
    'line': [
        {'id': 'main', 'src': 'A', 'dst': 'B', 'trx': 'Voyager', 'mode': 'mode 1', 'spacing': 50, 'power': 0, 'nch': 80, 'bw': 100,
         'path': ['A', 'x', 'B'], 'loose': 'no'},
        {'id': 1, 'src': 'B', 'dst': 'A', 'trx': 'Voyager', 'spacing': 37.5, 'bw': 200, 'path': ['trx B', 'x', 'A', 'trx A'], 'loose': 'no',
         'disjoint': 'main'},
        {'id': 2.0, 'src': 'A', 'dst': 'B', 'trx': 'vendorA_trx-type1', 'mode': 'mode 2', 'spacing': 75, 'power': -1.5, 'bw': 60,
         'path': ['trx A', 'x', 'B', 'trx B'], 'loose': 'yes', 'disjoint': 1},
        {'id': 3, 'src': 'B', 'dst': 'A', 'trx': 'Voyager', 'mode': 'mode 3', 'spacing': 62.5, 'power': 2.5, 'nch': 40.0, 'bw': 150,
         'path': ['x', 'A'], 'disjoint': 'main | 2'},
    ],
    'ring': [
        {'id': 0, 'src': 'A', 'dst': 'B', 'trx': 'Voyager', 'mode': 'mode 1', 'spacing': 50, 'power': 1, 'nch': 76, 'bw': 100,
         'path': ['A', 'i1', 'B'], 'loose': 'no'},
        {'id': 1, 'src': 'A', 'dst': 'B', 'trx': 'Voyager', 'spacing': 50, 'bw': 300, 'path': ['trx A', 'C', 'trx B'], 'loose': 'no',
         'disjoint': 0},
        {'id': 'r3', 'src': 'B', 'dst': 'C', 'trx': 'vendorA_trx-type1', 'mode': 'mode 1', 'spacing': 50, 'power': -3, 'bw': 100,
         'path': ['i1', 'A'], 'loose': 'yes', 'disjoint': '0 | 1'},
        {'id': 4, 'src': 'C', 'dst': 'A', 'trx': 'Voyager', 'mode': 'mode 2', 'spacing': 75, 'nch': 20, 'bw': 400, 'disjoint': 'r3'},
        {'id': 5, 'src': 'C', 'dst': 'A', 'trx': 'Voyager', 'mode': 'mode 1', 'spacing': 50, 'power': 0.5, 'bw': 100,
         'path': ['trx C', 'B', 'i1', 'A', 'trx A']},
    ],
    'star': [
        {'id': 10, 'src': 'L1', 'dst': 'L3', 'trx': 'Voyager', 'mode': 'mode 1', 'spacing': 50, 'power': 3, 'nch': 90, 'bw': 100,
         'path': ['L1', 'H', 'L3'], 'loose': 'no'},
        {'id': 11, 'src': 'L3', 'dst': 'L1', 'trx': 'Voyager', 'spacing': 50, 'bw': 100, 'path': ['trx L3', 'H', 'trx L1'], 'loose': 'no',
         'disjoint': '10'},
        {'id': 12, 'src': 'L2', 'dst': 'L3', 'trx': 'Voyager', 'mode': 'mode 4', 'spacing': 87.5, 'power': -2.25, 'bw': 500, 'loose': 'yes'},
    ],
    'bad_ila': [
        {'id': 7, 'src': 'A', 'dst': 'X', 'trx': 'Voyager', 'mode': 'mode 1', 'spacing': 50, 'power': 0, 'bw': 100},
        {'id': 8, 'src': 'A', 'dst': 'C', 'trx': 'Voyager', 'spacing': 50, 'nch': 10, 'bw': 100, 'path': ['trx A', 'trx C'],
         'loose': 'no', 'disjoint': '7 | 9'},
        {'id': 9, 'src': 'C', 'dst': 'B', 'trx': 'Voyager', 'mode': 'mode 1', 'spacing': 50, 'power': 1.25, 'bw': 200, 'path': ['C', 'B'],
         'disjoint': 7},
    ],
    'chain': [
        {'id': 1, 'src': 'A', 'dst': 'B', 'trx': 'Voyager', 'mode': 'mode 1', 'spacing': 50, 'power': 0, 'nch': 80, 'bw': 100,
         'path': ['A', 'i1', 'i2', 'i3', 'B'], 'loose': 'no'},
        {'id': 2, 'src': 'B', 'dst': 'A', 'trx': 'Voyager', 'spacing': 50, 'bw': 100, 'path': ['trx B', 'i3', 'i2', 'i1', 'A', 'trx A'],
         'loose': 'no', 'disjoint': 1},
        {'id': 3, 'src': 'A', 'dst': 'C', 'trx': 'Voyager', 'mode': 'mode 1', 'spacing': 50, 'power': -0.75, 'bw': 100,
         'path': ['trx A', 'i1', 'i2', 'i3', 'B', 'trx C'], 'loose': 'no', 'disjoint': '1 | 2'},
        {'id': 'last', 'src': 'C', 'dst': 'A', 'trx': 'vendorA_trx-type1', 'mode': 'mode 1', 'spacing': 50, 'nch': 33, 'bw': 60,
         'path': ['B', 'i3', 'i2', 'i1', 'A'], 'loose': 'yes'},
        {'id': 5, 'src': 'B', 'dst': 'C', 'trx': 'Voyager', 'mode': 'mode 1', 'spacing': 50, 'power': 1, 'bw': 100,
         'path': ['i3', 'i2', 'i1', 'A'], 'loose': 'no'},
    ],
}
SERVICES['line_rev'] = SERVICES['line']
SERVICES['bad_fused'] = SERVICES['bad_ila']
# route lists naming a site that the topology conversion re-typed from ILA / blank to ROADM (its degree is not 2)
RETYPED = {
    'star': [
        {'id': 10, 'src': 'L1', 'dst': 'L2', 'trx': 'Voyager', 'mode': 'mode 1', 'spacing': 50, 'power': 3, 'nch': 90, 'bw': 100,
         'path': ['L1', 'H', 'L2'], 'loose': 'no'},
    ],
    'bad_ila': [
        {'id': 8, 'src': 'A', 'dst': 'C', 'trx': 'Voyager', 'spacing': 50, 'nch': 10, 'bw': 100, 'path': ['trx A', 'X', 'trx C'],
         'loose': 'no'},
        {'id': 9, 'src': 'C', 'dst': 'B', 'trx': 'Voyager', 'mode': 'mode 1', 'spacing': 50, 'power': 1.25, 'bw': 200, 'path': ['C', 'X', 'B']},
    ],
}


def quiet(fn, *args_, **kw):
    with contextlib.redirect_stdout(io.StringIO()), contextlib.redirect_stderr(io.StringIO()):
        return fn(*args_, **kw)


def describe(d):
    return {k: d.get(k) for k in ('nodes', 'links', 'eqpt', 'roadms')}


def run_positive(key, d, with_services=True, collect=None):
    global cases, nontriv
    cases += 1
    path = Path(TMP) / (key.replace('/', '_') + '.xlsx')
    prob = []
    try:
        write_workbook(d, path)
        js = quiet(xls_to_json_data, path)
        prob += check_topology(d, js)
        eq = equipment()
        net = quiet(load_network, path, eq)
        if not prob:
            prob += check_loaded(d, net, js)
        if d.get('eqpt') or any(l.get('west') for l in d['links']):
            nontriv += 1
        if with_services and d.get('services') and not prob:
            # gnpy converts the Service sheet against the designed network (cli_examples.path_requests_run)
            # the zero / very small per degree powers of the family are irrelevant to the request conversion
            quiet(designed_network, eq, net)
            data = quiet(load_requests, path, eq, False, net, path)
            prob += check_services(d, data, js)
            quiet(requests_from_json, data, eq)
    except Exception as e:  # the property says every workbook of the family converts
        prob.append(f'{type(e).__name__}: {str(e)[:300]}')
    finally:
        for p in Path(TMP).glob('*'):
            p.unlink()
    if prob and collect is not None:
        collect.append((key, prob, d))
    elif prob:
        wit.append({'key': key, 'problems': prob[:6], 'workbook': describe(d)})


def run_negative(key, d):
    global cases, nontriv
    cases += 1
    nontriv += 1
    path = Path(TMP) / (key.replace('/', '_') + '.xlsx')
    prob = []
    try:
        write_workbook(d, path)
        for name, fn in (('xls_to_json_data', lambda: xls_to_json_data(path)), ('load_network', lambda: load_network(path, equipment()))):
            try:
                quiet(fn)
                prob.append(f'{name} converted the workbook instead of raising NetworkTopologyError')
            except NetworkTopologyError:
                pass
            except Exception as e:
                prob.append(f'{name} raised {type(e).__name__}: {str(e)[:200]} instead of NetworkTopologyError')
    finally:
        for p in Path(TMP).glob('*'):
            p.unlink()
    if prob:
        wit.append({'key': key, 'problems': prob, 'workbook': describe(d)})


def base(topo='line', lv='east_only', ev='two_sided'):
    nodes, pairs = TOPOS[topo]
    eq, ro = make_eqpt(nodes, pairs, ev)
    return {'nodes': list(nodes), 'links': make_links(pairs, lv), 'eqpt': eq, 'roadms': ro}


try:
    # ---- positive family
    topo_names = list(TOPOS)
    for tn in topo_names:
        nodes, pairs = TOPOS[tn]
        combos = list(itertools.product(range(len(LINK_VARIANTS)), range(len(EQPT_VARIANTS))))
        if QUICK and tn not in ('ring', 'bad_ila'):
            # a cover of every Links variant and every Eqpt variant (each at least twice) instead of the full product
            combos = [(li, ei) for li, ei in combos if li == ei % len(LINK_VARIANTS) or ei == (li + 3) % len(EQPT_VARIANTS)]
        for li, ei in combos:
            lv, ev = LINK_VARIANTS[li], EQPT_VARIANTS[ei]
            d = base(tn, lv, ev)
            d['services'] = deepcopy(SERVICES[tn])
            # the request conversion needs a design run: in the quick tier once per topology and Eqpt variant
            with_srv = (not QUICK) or lv == LINK_VARIANTS[(EQPT_VARIANTS.index(ev)) % len(LINK_VARIANTS)]
            run_positive(f'{tn}/{lv}/{ev}', d, with_services=with_srv)
    # no Service, Eqpt or Roadms sheet at all; Roadms sheet without power cells
    d = base('ring', 'west_zeros', 'no_sheet')
    run_positive('ring/west_zeros/topology-sheets-only', d)
    d = base('star', 'west_differs', 'two_sided')
    d['roadms'] = [(x, y, None) for x, y, _ in d['roadms']]
    run_positive('star/west_differs/roadms-rows-without-power', d)
    # known finding candidate: a Service route list naming a site that was re-typed to ROADM by the topology conversion
    got = []
    for tn, ev in (('star', 'no_sheet'), ('bad_ila', 'no_sheet'), ('bad_ila', 'two_sided')):
        d = base(tn, 'east_only', ev)
        d['services'] = deepcopy(RETYPED[tn])
        run_positive(f'{tn}/east_only/{ev}', d, collect=got)
    if got:
        wit.append({'key': 'route-list-names-site-retyped-to-roadm',
                    'problems': [f'{k}: {p}' for k, pr, _ in got for p in pr][:6], 'workbook': describe(got[0][2]),
                    'services': got[0][2]['services']})
    if not QUICK:
        for k in range(40):
            tn = rnd.choice(topo_names)
            d = base(tn, rnd.choice(LINK_VARIANTS), rnd.choice(EQPT_VARIANTS))
            rnd.shuffle(d['links'])
            if d['eqpt']:
                rnd.shuffle(d['eqpt'])
            run_positive(f'shuffled-{k}/{tn}', d)

    # ---- negative family
    NEG = []
    d = base(); d['nodes'].append(('A', 'ROADM', 3, 3)); NEG.append(('duplicate-city', d))
    d = base(); d['nodes'].insert(0, ('x', 'ILA', 3, 3)); NEG.append(('duplicate-city-ila', d))
    d = base(); d['links'][1]['z'] = 'nowhere'; NEG.append(('link-to-unknown-node', d))
    d = base(); d['links'][0]['a'] = 'nowhere'; NEG.append(('link-from-unknown-node', d))
    d = base(); d['links'].append(deepcopy(d['links'][0])); NEG.append(('duplicate-link-same-orientation', d))
    d = base(); l = deepcopy(d['links'][1]); l['a'], l['z'] = l['z'], l['a']; d['links'].append(l); NEG.append(('duplicate-link-reversed', d))
    d = base('ring'); l = deepcopy(d['links'][4]); l['a'], l['z'] = l['z'], l['a']; l['east']['cable'] = 'other'; d['links'].insert(0, l)
    NEG.append(('duplicate-link-reversed-other-cable', d))
    d = base(); d['nodes'].append(('lonely', 'ROADM', 3, 3)); NEG.append(('node-not-in-links', d))
    d = base(ev='no_sheet'); d['nodes'].append(('lonely', 'ILA', 3, 3)); NEG.append(('ila-node-not-in-links', d))
    d = base(); d['eqpt'].append({'a': 'nowhere', 'z': 'A', 'east': {'type': 'std_low_gain'}}); NEG.append(('eqpt-from-unknown-node', d))
    d = base(); d['eqpt'].append({'a': 'A', 'z': 'nowhere', 'east': {'type': 'std_low_gain'}}); NEG.append(('eqpt-to-unknown-node', d))
    d = base(ev='no_sheet'); d['eqpt'] = [{'a': 'A', 'z': 'B', 'east': {'type': 'std_low_gain'}}]; NEG.append(('eqpt-pair-without-link', d))
    d = base('ring', ev='no_sheet'); d['eqpt'] = [{'a': 'i1', 'z': 'C', 'east': {'type': 'std_low_gain'}}]
    NEG.append(('eqpt-ila-pair-without-link', d))
    d = base(); d['eqpt'].append(deepcopy([e for e in d['eqpt'] if e['a'] == 'A'][0])); NEG.append(('duplicate-eqpt-row', d))
    d = base('star'); e = deepcopy([e for e in d['eqpt'] if e['a'] == 'H'][1]); e['east'] = {'type': 'std_low_gain'}; d['eqpt'].append(e)
    NEG.append(('duplicate-eqpt-row-other-values', d))
    d = base(ev='no_sheet'); d['eqpt'] = [{'a': 'x', 'z': 'A', 'east': {'type': 'std_low_gain'}}, {'a': 'x', 'z': 'B', 'east': {'type': 'std_low_gain'}}]
    NEG.append(('two-eqpt-rows-for-one-ila', d))
    d = base('ring', ev='no_sheet'); d['eqpt'] = [{'a': 'i1', 'z': 'B', 'west': {'type': 'std_low_gain'}}, {'a': 'i1', 'z': 'A'}]
    NEG.append(('two-eqpt-rows-for-one-ila-reverse', d))
    d = base(); d['links_east_header'] = False; NEG.append(('links-sheet-without-east-header', d))
    d = base('ring', ev='no_sheet'); d['eqpt'] = [{'a': 'f1', 'z': 'B', 'east': {'type': 'std_low_gain'}, 'west': {'type': 'std_low_gain'}}]
    NEG.append(('eqpt-row-for-a-fused-site', d))
    for key, d in NEG:
        run_negative('reject/' + key, d)
    # ---- an amplifier site whose Eqpt row declares both amplifiers 'fused': a route list may still name the site
    from gnpy.topology.request import correct_json_route_list as _correct
    from gnpy.core.exceptions import ServiceError as _ServiceError
    for loose_cell, want in (('no', 'STRICT'), ('yes', 'LOOSE'), (None, 'LOOSE')):
        # (the direction of a line site is taken from the next site named in the list: each list names it)
        for src, dst, path in (('A', 'C', ['A', 'B', 'C']), ('C', 'A', ['C', 'B', 'A']), ('A', 'C', ['B', 'C'])):
            cases += 1
            key = f'ila-site-with-fused-amplifiers/{src}{dst}/{path}/is loose? {loose_cell}'
            d = {'nodes': [('A', 'ROADM', 1, 0), ('B', 'ILA', 1, 1), ('C', 'ROADM', 1, 2)],
                 'links': [{'a': 'A', 'z': 'B', 'east': {'distance': 40}}, {'a': 'B', 'z': 'C', 'east': {'distance': 40}}],
                 'eqpt': [{'a': 'B', 'z': 'C', 'east': {'type': 'fused'}, 'west': {'type': 'fused'}}],
                 'services': [{'id': 0, 'src': src, 'dst': dst, 'trx': 'Voyager', 'mode': 'mode 1', 'spacing': 50, 'bw': 100, 'path': path,
                               'loose': loose_cell}]}
            p = Path(TMP) / f'fusedila_{cases}.xlsx'
            write_workbook(d, p)
            try:
                eq = equipment()
                net = quiet(load_network, p, eq)
                net, _, _ = quiet(designed_network, eq, net)
                rq = quiet(lambda: _correct(net, requests_from_json(load_requests(p, eq, bidir=False, network=net, network_filename=p), eq)))[0]
            except _ServiceError as e:
                wit.append({'key': key, 'problems': [f'the route list through site B is refused: {" ".join(str(e).split())[:160]}']})
                continue
            # the elements that stand for site B in each direction
            site_b = {'A': 'west edfa in B to C', 'C': 'east edfa in B to C'}[dst]
            hops = [(n, l) for n, l in zip(rq.nodes_list, rq.loose_list) if ' B' in n or 'in B' in n]
            if [n for n, _ in hops] != [site_b] or any(l != want for _, l in hops):
                wit.append({'key': key, 'problems': [f'route list {list(zip(rq.nodes_list, rq.loose_list))}: site B should appear once as '
                                                      f'{site_b!r} with hop type {want}']})
finally:
    shutil.rmtree(TMP, ignore_errors=True)
if os.environ.get('C20_TRACE'):
    import sys
    for w in wit:
        print(w['key'], w['problems'], file=sys.stderr)

finish('workbook conversion: sites, fibres (west defaulting to east, zeros kept), wiring, Eqpt / Roadms placement, rejections, Service rows',
       'bounded',
       'gnpy.tools.convert.xls_to_json_data / parse_excel / sanity_check, gnpy.tools.service_sheet.read_service_sheet / '
       'correct_xls_route_list, gnpy.tools.json_io.load_network / load_requests',
       f'{len(TOPOS)} topologies (line, reversed-row line, ring with ILA and FUSED, star with untyped leaf, degree-3 ILA, chain of ILAs) x '
       f'{len(LINK_VARIANTS)} Links variants x {len(EQPT_VARIANTS)} Eqpt / Roadms variants'
       + (' (full product on 2 topologies, a pairwise cover on the others)' if QUICK else '')
       + f', 3-5 Service rows each, 3 workbooks with route lists naming a re-typed site, 9 naming an amplifier site declared fused, {len(NEG)} malformed workbooks'
       + ('' if QUICK else ', 40 row-shuffled workbooks'),
       cases, wit, nontrivial=nontriv, t0=t0)
