"""Bounded stand-in for the 'honours what the user fixed' clause of C14, end to end: service documents whose
effective-freq-slot entries fix N, M, both or neither (1 - 3 entries, every mix) are loaded and planned on a designed line;
every entry the user fixed is used as given or the request is refused / blocked - never a crash, never a planner that does not
come back."""
import itertools
import signal
import time
from copy import deepcopy
from bounded.common import args, finish, mesh, design, service

a = args()
from gnpy.core.exceptions import ServiceError
from gnpy.tools.worker_utils import planning

t0 = time.time()
wit = []
cases = nontriv = 0
net0, eq0 = design(mesh(['A', 'B', 'C'], [('A', 'B'), ('B', 'C')], spans={('A', 'B'): [80], ('B', 'C'): [60]}))


class Stuck(Exception):
    pass


def _alarm(*_):
    raise Stuck()


signal.signal(signal.SIGALRM, _alarm)
# Voyager mode 1 at 50 GHz: 4 slots per channel, 100 Gbit/s per channel
NS = [None, -100, -276, 0, 600]          # 600: beyond the last slot of the C band maps (-292 .. 484)
MS = [None, 4, 8, 12, 0, 2]
entries = [(n, m) for n in NS for m in MS]
combos = [[e] for e in entries] + [list(c) for c in itertools.product(entries, repeat=2)]
if a.tier == 'quick':
    combos = combos[:len(entries)] + combos[len(entries)::5]
else:
    import random
    rnd = random.Random(a.seed)
    combos += [[rnd.choice(entries) for _ in range(3)] for _ in range(150)]
for slots in combos:
    for bw, mode in ((100e9, 'mode 1'), (300e9, 'mode 1'), (100e9, None)):
        cases += 1
        key = f'slots {slots}, {bw * 1e-9:.0f} Gbit/s' + ('' if mode else ', mode left to the planner')
        r = service('r', 'A', 'C', mode=mode, bw=bw)
        r['path-constraints']['te-bandwidth']['effective-freq-slot'] = [{'N': n, 'M': m} for n, m in slots]
        signal.alarm(30)
        try:
            _, pp, rpp, rqs, _, _ = planning(deepcopy(net0), deepcopy(eq0), {'path-request': [deepcopy(r)], 'synchronization': []})
        except ServiceError:
            continue        # refused when loaded (overlapping / insufficient / empty slots): a stated outcome
        except Stuck:
            wit.append({'key': key, 'problems': ['the planner did not come back within 30 s']})
            continue
        except Exception as e:
            wit.append({'key': key, 'problems': [f'{type(e).__name__}: {e}'[:200]]})
            continue
        finally:
            signal.alarm(0)
        rq = rqs[0]
        if getattr(rq, 'blocking_reason', None) is not None:
            continue        # blocked: nothing may be assigned (proved on pth_assign_spectrum)
        nontriv += 1
        prob = []
        fixed_n = [n for n, _ in slots if n is not None]
        # every N the user fixed that ends up carrying slots is one of the assigned centres, with its own M when that was fixed too
        got = dict(zip(rq.N, rq.M))
        if len(got) != len(rq.N):
            prob.append(f'the same centre assigned twice: N {rq.N}')
        for n, m in slots:
            if n is not None and m is not None and got.get(n) != m:
                prob.append(f'user entry N={n}, M={m} is served as N={n}, M={got.get(n)}')
        for n in rq.N:
            if fixed_n and all(x is not None for x, _ in slots) and n not in fixed_n:
                prob.append(f'centre {n} assigned although every entry fixes its N ({fixed_n})')
        fixed_m = sorted(m for _, m in slots if m is not None)
        if all(m is not None for _, m in slots) and sorted(rq.M) != fixed_m:
            prob.append(f'every entry fixes M ({fixed_m}) but M {sorted(rq.M)} was assigned')
        for n, m in zip(rq.N, rq.M):
            if not (-292 <= n - m and n + m - 1 <= 484):
                prob.append(f'N={n}, M={m} assigned outside the slot range of the line (-292 .. 484)')
        spans = sorted((n - m, n + m - 1) for n, m in zip(rq.N, rq.M))
        if any(x[1] >= y[0] for x, y in zip(spans, spans[1:])):
            prob.append(f'assigned ranges overlap: {spans}')
        need = 4 * int(-(-bw // 100e9))
        if mode is not None and sum(rq.M) < need:
            prob.append(f'{sum(rq.M)} slots assigned, {need} needed for {bw * 1e-9:.0f} Gbit/s')
        if prob:
            wit.append({'key': key, 'problems': prob[:3], 'assigned': {'N': rq.N, 'M': rq.M}})
# the guard band at both ends of the amplified band: a service may not reach into it (known finding F43: the upper one is a slot short)
from gnpy.core.elements import Edfa
from gnpy.topology.spectrum_assignment import DEFAULT_GUARDBAND
amps = [n for n in net0.nodes() if isinstance(n, Edfa)]
f_lo, f_hi = max(x.params.f_min for x in amps) + DEFAULT_GUARDBAND, min(x.params.f_max for x in amps) - DEFAULT_GUARDBAND
for n_fixed in list(range(-290, -282)) + list(range(470, 482)):
    cases += 1
    r = service('r', 'A', 'C', mode='mode 1')
    r['path-constraints']['te-bandwidth']['effective-freq-slot'] = [{'N': n_fixed, 'M': 4}]
    try:
        _, pp, rpp, rqs, _, _ = planning(deepcopy(net0), deepcopy(eq0), {'path-request': [r], 'synchronization': []})
    except Exception as e:
        wit.append({'key': f'guard band: N={n_fixed}, M=4', 'problems': [f'{type(e).__name__}: {e}'[:200]]})
        continue
    if getattr(rqs[0], 'blocking_reason', None) is None:
        lo, hi = 193.1e12 + (n_fixed - 4) * 6.25e9, 193.1e12 + (n_fixed + 4) * 6.25e9
        if lo < f_lo - 1 or hi > f_hi + 1:
            wit.append({'key': 'upper-guard-band-one-slot-short' if hi > f_hi + 1 and hi <= f_hi + 6.25e9 + 1 else f'guard band: N={n_fixed}, M=4',
                        'problems': [f'N={n_fixed}, M=4 accepted: it occupies {lo * 1e-12:.5f} .. {hi * 1e-12:.5f} THz, the amplified band less the '
                                     f'{DEFAULT_GUARDBAND * 1e-9:.0f} GHz guard bands is {f_lo * 1e-12:.5f} .. {f_hi * 1e-12:.5f} THz']})
finish('user-fixed N / M entries of a service document: used as given, or refused / blocked', 'bounded',
       'gnpy.tools.json_io.requests_from_json / _check_one_request, gnpy.topology.spectrum_assignment.pth_assign_spectrum / compute_n_m (through planning)',
       f'{len(combos)} effective-freq-slot lists (1 - 2 entries exhaustively' + (', 3 entries sampled' if a.tier != 'quick' else ', every 5th pair') +
       f') over N in {NS} x M in {MS}, 100 and 300 Gbit/s, Voyager mode 1 on a two-hop designed line', cases, wit, nontrivial=nontriv, t0=t0)
