"""Bounded check of the general permutation contract of gnpy.core.utils.order_slots / restore_order (C14); the one- and two-entry cases are proved (contracts/c_spectrum.py)."""
import itertools
import time
from bounded.common import args, finish

a = args()
from gnpy.core.utils import order_slots, restore_order

t0 = time.time()
vals_n = [None, -8, 0, 8]
vals_m = [None, 1, 4, 8]
wit = []
cases = 0
for k in (1, 2, 3):
    for ns in itertools.product(vals_n, repeat=k):
        for ms in itertools.product(vals_m, repeat=k):
            cases += 1
            slots = [{'N': n, 'M': m} for n, m in zip(ns, ms)]
            N, M, order = order_slots(slots)
            ok = sorted(order) == list(range(k)) and all(N[j] == ns[order[j]] and M[j] == ms[order[j]] for j in range(k))
            if k == 1:
                ok = ok and (N, M, order) == ([ns[0]], [ms[0]], [0])
            # M defined first, larger M first
            defined = [m for m in M if m is not None]
            ok = ok and defined == sorted(defined, reverse=True) and all(m is None for m in M[len(defined):])
            # restore_order is the inverse permutation, dropping None
            back = restore_order(N, order)
            ok = ok and back == [n for n in ns if n is not None]
            if slots != [{'N': n, 'M': m} for n, m in zip(ns, ms)]:
                ok = False          # must not modify its argument
            if not ok:
                wit.append({'key': f'order_slots:{ns}:{ms}', 'N': N, 'M': M, 'order': order})
finish('order_slots/restore_order general permutation contract (1-2 entries are proved)', 'bounded', 'gnpy.core.utils.order_slots, restore_order',
       'all requests with 1..3 (N, M) entries, N in {None,-8,0,8}, M in {None,1,4,8}', cases, wit, t0=t0)
