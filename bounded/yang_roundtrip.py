"""Bounded stand-in for C18: legacy <-> YANG conversion of topology, equipment, service, spectrum and simulation-parameter
documents is idempotent, value preserving to the declared precision and structure preserving; loading either form gives
the same library / network / requests; multi-name equipment entries expand to identical entries reporting their name."""
import glob
import json
import math
import os
import tempfile
import time
from copy import deepcopy
from pathlib import Path
import numpy as np
from bounded.common import args, finish, mesh, TOPOLOGIES, service, sync, EXAMPLE, TESTDATA, REPO

a = args()
from gnpy.core.parameters import SimParams
from gnpy.tools.convert_legacy_yang import legacy_to_yang, yang_to_legacy
from gnpy.tools.json_io import (load_json, load_equipment, load_network, network_to_json, requests_from_json, load_initial_spectrum,
                                load_gnpy_json, save_json, _equipment_from_json, disjunctions_from_json, DEFAULT_EXTRA_CONFIG)
from gnpy.yang.precision_dict import PRECISION_DICT

t0 = time.time()
wit = []
cases = 0
skipped = []
TMP = tempfile.mkdtemp(prefix='c18_')
EMPTY = (None, [], {})


def kind(d):
    if 'elements' in d:
        return 'topology'
    if any(k in d for k in ('Edfa', 'Transceiver', 'Fiber', 'Roadm')):
        return 'equipment'
    if 'path-request' in d:
        return 'service'
    if 'spectrum' in d:
        return 'spectrum'
    if any(k in d for k in ('raman_params', 'nli_params')):
        return 'sim-params'
    return None


def _yang_fraction_digits():
    import re
    digits = {}
    for f in glob.glob(os.path.join(REPO, 'gnpy', 'yang', '*.yang')):
        txt = open(f).read()
        for m in re.finditer(r'\bleaf(?:-list)?\s+([\w\-]+)\s*\{', txt):
            i, depth = m.end(), 1
            while depth and i < len(txt):
                depth += {'{': 1, '}': -1}.get(txt[i], 0)
                i += 1
            fd = [int(x) for x in re.findall(r'fraction-digits\s+(\d+)', txt[m.end():i])]
            if fd:
                digits.setdefault(m.group(1), set()).update(fd)
    return digits


YANG_DIGITS = _yang_fraction_digits()


def cmp(x, y, pre='', key=None):
    """differences between an original legacy document x and its converted-back form y"""
    if isinstance(x, dict) and isinstance(y, dict):
        for k in sorted(set(x) | set(y), key=str):
            if k not in y:
                if x[k] not in EMPTY:
                    yield f'{pre}.{k}: {str(x[k])[:60]} -> <absent>'
            elif k not in x:
                # a missing type_variety is filled with the loaders' own default name (add_missing_default_type_variety)
                if y[k] not in EMPTY and not (k == 'type_variety' and y[k] == 'default'):
                    yield f'{pre}.{k}: <absent> -> {str(y[k])[:60]}'
            else:
                # a value keyed by a free name (a degree of a per-degree dictionary) has the precision of the dictionary's leaf
                named = k in YANG_DIGITS or k in PRECISION_DICT or key is None
                yield from cmp(x[k], y[k], f'{pre}.{k}', k if named else key)
    elif isinstance(x, list) and isinstance(y, list):
        if len(x) != len(y):
            yield f'{pre}: list of {len(x)} -> list of {len(y)}'
        else:
            for i, (p, q) in enumerate(zip(x, y)):
                yield from cmp(p, q, f'{pre}[{i}]', key)
    elif isinstance(x, bool) or isinstance(y, bool) or isinstance(x, str) or isinstance(y, str) or x is None or y is None:
        if x != y and not (x in EMPTY and y in EMPTY):
            yield f'{pre}: {x!r} -> {y!r}'
    elif isinstance(x, (int, float)) and isinstance(y, (int, float)):
        # declared precision: the fraction-digits of the leaf in the YANG modules themselves (the loosest where a name is declared
        # more than once); the converter's own table only for leaves of modules that are not shipped under gnpy/yang
        digits = min(YANG_DIGITS[key]) if key in YANG_DIGITS else PRECISION_DICT.get(key, 2)
        tol = 0.5000001 * 10.0 ** (-digits) if digits > 0 else 0
        if abs(x - y) > tol + 1e-15 * abs(x):
            yield f'{pre}: {x!r} -> {y!r} (declared fraction digits of {key!r}: {digits})'
    elif x != y:
        yield f'{pre}: {x!r} -> {y!r}'


def state(o, depth=0):
    """comparable deep state of loaded objects"""
    if depth > 12:
        return repr(o)
    if isinstance(o, np.ndarray):
        return ('nd', [round(float(v), 9) if isinstance(v, (float, np.floating)) else v for v in o.ravel().tolist()])
    if isinstance(o, float):
        return float(f'{o:.9g}')
    if isinstance(o, (int, str, bool)) or o is None:
        return o
    if isinstance(o, dict):
        return {str(k): state(v, depth + 1) for k, v in o.items()}
    if isinstance(o, (list, tuple)):
        return [state(v, depth + 1) for v in o]
    if hasattr(o, '__dict__'):
        return {'__class__': type(o).__name__, **{k: state(v, depth + 1) for k, v in vars(o).items()}}
    return repr(o)


def sdiff(x, y, pre=''):
    if isinstance(x, dict) and isinstance(y, dict):
        for k in sorted(set(x) | set(y)):
            if k not in x or k not in y:
                yield f'{pre}.{k}: only in one form'
            else:
                yield from sdiff(x[k], y[k], f'{pre}.{k}')
    elif isinstance(x, list) and isinstance(y, list) and len(x) == len(y):
        for i, (p, q) in enumerate(zip(x, y)):
            yield from sdiff(p, q, f'{pre}[{i}]')
    elif isinstance(x, float) and isinstance(y, (float, int)) or isinstance(y, float) and isinstance(x, (float, int)):
        if not math.isclose(x, y, rel_tol=1e-5, abs_tol=1e-6):
            yield f'{pre}: {x!r} vs {y!r}'
    elif x != y:
        yield f'{pre}: {str(x)[:60]} vs {str(y)[:60]}'


def loaded(knd, path, eqpt_file=None):
    if knd == 'equipment':
        return state(load_equipment(Path(path)))
    if knd == 'topology':
        eq = load_equipment(Path(eqpt_file or EXAMPLE / 'eqpt_config.json'))
        net = load_network(Path(path), eq)
        j = network_to_json(net)
        return state({'elements': sorted(j['elements'], key=lambda e: e['uid']),
                      'connections': sorted((c['from_node'], c['to_node']) for c in j['connections'])})
    if knd == 'service':
        eq = load_equipment(Path(eqpt_file or EXAMPLE / 'eqpt_config.json'))
        data = load_gnpy_json(Path(path))
        return state({'requests': requests_from_json(data, eq), 'disjunctions': disjunctions_from_json(data)})
    if knd == 'spectrum':
        return state(load_initial_spectrum(Path(path)))
    if knd == 'sim-params':
        SimParams.set_params(load_gnpy_json(Path(path)))
        s = state({'nli': vars(SimParams().nli_params), 'raman': vars(SimParams().raman_params)})
        SimParams.set_params({})
        return s


def check_doc(name, d, eqpt_file=None, load=True):
    global cases
    knd = kind(d)
    if knd is None:
        return
    cases += 1
    if os.environ.get('C18_TRACE'):
        print('DOC', name, file=__import__('sys').stderr, flush=True)
    prob = []
    try:
        canon = lambda o: json.dumps(o, sort_keys=True)
        rt = lambda o: json.loads(json.dumps(o))          # what a file round trip does (key order kept)
        try:
            y = rt(legacy_to_yang(deepcopy(d)))
            l = yang_to_legacy(rt(y))
        except Exception as e:
            if 'LY_EVALID' in str(e) or "Can't parse data" in str(e):
                skipped.append(name)    # not valid against the YANG model: outside "documents accepted by the loaders"
                return
            raise
        y2 = legacy_to_yang(rt(y))
        if canon(y2) != canon(y):
            prob.append('legacy_to_yang is not idempotent on its own output')
        l2 = yang_to_legacy(rt(l))
        if canon(l2) != canon(l):
            prob.append('yang_to_legacy is not idempotent on its own output')
        l3 = yang_to_legacy(rt(legacy_to_yang(rt(l))))
        if canon(l3) != canon(l):
            prob.append('a second legacy -> YANG -> legacy round changes the document: ' + '; '.join(list(cmp(l, l3))[:3]))
        if knd == 'topology':
            # the same YANG document with the element types written as prefixed identities (the form libyang prints and
            # the shipped API example uses) means the same thing
            yp = rt(y)
            for e in yp['gnpy-network-topology:topology']['elements']:
                e['type'] = 'gnpy-network-topology:' + e['type']
            lp = yang_to_legacy(yp)
            if canon(lp) != canon(l):
                prob.append('YANG form with module-prefixed element types converts to another legacy document: ' + '; '.join(list(cmp(l, lp))[:3]))
        dn = deepcopy(d)
        for e in dn.get('elements', []):
            # the two legacy spellings of a per-frequency loss coefficient (both accepted by the loader) are one value
            pf = e.get('params', {}).pop('loss_coef_per_frequency', None) if isinstance(e.get('params'), dict) else None
            if pf:
                e['params']['loss_coef'] = {'frequency': [i['frequency'] for i in pf], 'value': [i['loss_coef_value'] for i in pf]}
        dd = list(cmp(dn, l))
        if dd:
            prob.append('legacy -> YANG -> legacy: ' + '; '.join(dd[:4]) + (f' (+{len(dd) - 4} more)' if len(dd) > 4 else ''))
        if load and not prob:
            f1, f2 = os.path.join(TMP, 'legacy.json'), os.path.join(TMP, 'yang.json')
            save_json(l, f1)         # the legacy form after one round (values at their declared precision)
            save_json(y, f2)
            try:
                s1 = loaded(knd, f1, eqpt_file)
            except Exception as e:       # not loadable in its legacy form: nothing to compare
                s1 = None
            if s1 is not None:
                s2 = loaded(knd, f2, eqpt_file)
                sd = list(sdiff(s1, s2))
                if sd:
                    prob.append('loading the YANG form gives something else than loading the legacy form: ' + '; '.join(sd[:4]))
    except Exception as e:
        msg = f'{type(e).__name__}: {str(e)[:200]}'
        prob.append(msg)
    if prob:
        if len(prob) == 1 and 'Node "raman_coefficient" not found as a child of "RamanFiber"' in prob[0]:
            # known finding F15: a library RamanFiber raman_efficiency comes back from YANG as raman_coefficient {g0,..}
            wit.append({'key': 'raman_efficiency-comes-back-as-raman_coefficient', 'problems': prob})
        else:
            wit.append({'key': name, 'problems': prob[:4]})


# ---- shipped documents
EQ_FOR = {'multiband_example_network.json': 'eqpt_config_multiband.json', 'Sweden_OpenROADMv4_example_network.json': 'eqpt_config_openroadm_ver4.json',
          'Sweden_OpenROADMv5_example_network.json': 'eqpt_config_openroadm_ver5.json'}
files = sorted(glob.glob(str(EXAMPLE / '*.json'))) + (sorted(glob.glob(str(TESTDATA / '*.json'))) if a.tier != 'quick' else
                                                      [str(TESTDATA / n) for n in ('eqpt_config_psd.json', 'eqpt_config_psw.json',
                                                                                   'network_per_frequency_loss_expected.json',
                                                                                   'testTopology_services_expected.json')])
for f in files:
    try:
        d = load_json(Path(f))
    except Exception:
        continue
    if not isinstance(d, dict) or 'CORONET' in f and a.tier == 'quick':
        continue
    ef = EQ_FOR.get(os.path.basename(f))
    check_doc(os.path.relpath(f, REPO), d, eqpt_file=str(EXAMPLE / ef) if ef else None,
              load=os.path.basename(f) not in ('extra_eqpt_config.json',))

# ---- synthetic topology documents: every per-degree / band / per-frequency / Raman feature, nulls and optional fields
topo = mesh(*TOPOLOGIES['ring3'], spans={l: [60, 90] for l in TOPOLOGIES['ring3'][1]}, junction='edfa')
els = {e['uid']: e for e in topo['elements']}
els['roadm A']['params'] = {'target_pch_out_db': -19.25, 'per_degree_pch_out_db': {'fiber (A -> B)-0': -18.5},
                            'per_degree_psd_out_mWperGHz': {'fiber (A -> C)-0': 3.125e-4},
                            'per_degree_psd_out_mWperSlotWidth': {}}
els['roadm B']['params'] = {'target_psd_out_mWperGHz': 2.5e-4, 'per_degree_psd_out_mWperSlotWidth': {'fiber (B -> C)-0': 1.8e-4,
                                                                                                      'fiber (B -> A)-0': 2.2e-4}}
els['roadm C']['params'] = {'target_out_mWperSlotWidth': 2.0e-4,
                            'per_degree_pch_out_db': {'fiber (C -> A)-0': -21.0, 'fiber (C -> B)-0': -17.75}}
els['fiber (A -> B)-0']['params'].update({'loss_coef': {'value': [0.18, 0.2, 0.21], 'frequency': [191.3e12, 193.5e12, 196.1e12]},
                                          'pmd_coef': 1.265e-15, 'lumped_losses': [{'position': 20, 'loss': 0.5}, {'position': 40.5, 'loss': 1.25}]})
els['fiber (A -> C)-0']['params']['raman_coefficient'] = {'g0': [0.0, 1.12351610e-05, 2.47e-05, 4.0e-04],
                                                         'frequency_offset': [0.0, 0.5e12, 1e12, 13e12],
                                                         'reference_frequency': 206.184634112792e12}
els['fiber (A -> B)-1']['params'].update({'att_in': 1.5, 'con_in': None, 'con_out': None, 'ref_wavelength': 1550e-9})
els['fiber (B -> C)-0'].update({'type': 'RamanFiber', 'operational': {'temperature': 283.15, 'raman_pumps': [
    {'power': 0.224403, 'frequency': 205e12, 'propagation_direction': 'counterprop'},
    {'power': 0.11, 'frequency': 201e12, 'propagation_direction': 'coprop'}]}})
els['edfa (A -> B)-0']['operational'] = {'gain_target': 17.123456, 'delta_p': -1.5, 'tilt_target': 0.25, 'out_voa': 0.5, 'in_voa': None}
els['edfa (B -> A)-0']['operational'] = {'gain_target': None, 'delta_p': None, 'tilt_target': None, 'out_voa': None}
els['edfa (A -> C)-0']['type_variety'] = 'std_low_gain'
els['roadm A']['metadata']['location'].update({'city': None, 'region': None, 'latitude': 48.123456, 'longitude': -3.5})
check_doc('synthetic:topology:all-features', topo)
for feature in ('per_degree_pch_out_db', 'per_degree_psd_out_mWperGHz'):
    t2 = deepcopy(topo)
    for e in t2['elements']:
        if e['uid'] == 'roadm A':
            e['params'].pop(feature)
    check_doc(f'synthetic:topology:without-{feature}', t2)
mb = load_json(EXAMPLE / 'multiband_example_network.json')
for e in mb['elements']:
    if e['type'] == 'Roadm':
        e.setdefault('params', {})
        e['params']['design_bands'] = [{'f_min': 191.3e12, 'f_max': 196.1e12}, {'f_min': 186.1e12, 'f_max': 190.9e12}]
        succ = [c['to_node'] for c in mb['connections'] if c['from_node'] == e['uid']][:2]
        e['params']['per_degree_design_bands'] = {s: [{'f_min': 191.3e12, 'f_max': 196.1e12}] for s in succ}
check_doc('synthetic:topology:design-bands', mb, eqpt_file=str(EXAMPLE / 'eqpt_config_multiband.json'))

# ---- synthetic equipment documents: penalties, aliases, Raman coefficients, several SI / Span entries
eq = load_json(EXAMPLE / 'eqpt_config.json')
eq['Edfa'][0]['other_name'] = ['vendorX_amp_21dBm', 'legacy_name_amp']
# an amplifier described by an advanced configuration file shared by all its names, with its own band
ADV = next(e for e in eq['Edfa'] if e.get('type_def') == 'advanced_model')
ADV['other_name'] = ['adv_alias_1', 'adv_alias_2']
ADV['f_min'], ADV['f_max'] = 191.4e12, 196.0e12
trx = deepcopy(eq['Transceiver'][0])
trx['type_variety'] = 'aliased_trx'
trx['other_name'] = ['aliased_trx_rev2', 'aliased_trx_old']
trx['mode'][0]['penalties'] = [{'chromatic_dispersion': 4e3, 'penalty_value': 0}, {'chromatic_dispersion': 18e3, 'penalty_value': 0.5},
                               {'pmd': 10, 'penalty_value': 0}, {'pmd': 30, 'penalty_value': 0.5}, {'pdl': 1, 'penalty_value': 0.5},
                               {'pdl': 4, 'penalty_value': 2.5}]
trx['mode'][1]['other_name'] = ['mode 2 alias']
eq['Transceiver'].append(trx)
eq['Fiber'][1]['pmd_coef'] = 1.265e-15
eq['Span'][0]['delta_power_range_db'] = [-2.5, 3, 0.5]
eq['SI'][0]['power_range_db'] = [-1, 1.5, 0.5]
eq['SI'].append(dict(eq['SI'][0], type_variety='second', f_min=186.1e12, f_max=190.9e12, power_range_db=[-3, 0, 1.5]))
check_doc('synthetic:equipment:aliases-penalties-raman', eq)
eq2 = load_json(EXAMPLE / 'eqpt_config.json')
eq2['RamanFiber'][0]['raman_efficiency'] = {'cr': [0, 9.4e-06, 2.9e-05, 4.8e-04], 'frequency_offset': [0, 0.5e12, 1e12, 13e12]}
eq2['Roadm'][0]['target_pch_out_db'] = -20.55
check_doc('synthetic:equipment:raman-efficiency', eq2)
# aliases: each name gives an entry with identical parameters that reports that name
cases += 1
prob = []
configs_before = deepcopy(DEFAULT_EXTRA_CONFIG)
try:
    lib = _equipment_from_json(deepcopy(eq), DEFAULT_EXTRA_CONFIG)
    lib_again = _equipment_from_json(deepcopy(eq), DEFAULT_EXTRA_CONFIG)
    for nm in [ADV['type_variety']] + ADV['other_name']:
        if list(sdiff(state(lib['Edfa'][nm]), state(lib_again['Edfa'][nm]))):
            prob.append(f'Edfa entry {nm!r} differs when the same library is built a second time')
except Exception as e:
    prob.append(f'library with a multi-name advanced_model amplifier cannot be built (twice): {type(e).__name__}: {e}')
    lib = _equipment_from_json(deepcopy(eq), deepcopy(configs_before))
if list(sdiff(configs_before, DEFAULT_EXTRA_CONFIG)):
    prob.append(f'building the library changed the shared amplifier configurations: {list(sdiff(configs_before, DEFAULT_EXTRA_CONFIG))[:2]}')
    DEFAULT_EXTRA_CONFIG.clear()
    DEFAULT_EXTRA_CONFIG.update(configs_before)
for cls_key, names in (('Edfa', [eq['Edfa'][0]['type_variety']] + eq['Edfa'][0]['other_name']),
                       ('Edfa', [ADV['type_variety']] + ADV['other_name']),
                       ('Transceiver', ['aliased_trx', 'aliased_trx_rev2', 'aliased_trx_old'])):
    ref = None
    for nm in names:
        if nm not in lib[cls_key]:
            prob.append(f'{cls_key} {nm!r}: no library entry')
            continue
        ent = state(lib[cls_key][nm])
        if ent.get('type_variety') != nm:
            prob.append(f'{cls_key} entry {nm!r} reports type_variety {ent.get("type_variety")!r}')
        ent = {k: v for k, v in ent.items() if k != 'type_variety'}
        if 'other_name' in ent:
            prob.append(f'{cls_key} entry {nm!r} still carries other_name')
        if ref is None:
            ref = ent
        elif list(sdiff(ref, ent)):
            prob.append(f'{cls_key} entry {nm!r} differs from {names[0]!r}: {list(sdiff(ref, ent))[:2]}')
modes = [m['format'] for m in lib['Transceiver']['aliased_trx'].mode]
if 'mode 2 alias' not in modes or any('other_name' in m for m in lib['Transceiver']['aliased_trx'].mode):
    prob.append(f'mode alias not expanded: {modes}')
else:
    m2 = {m['format']: m for m in lib['Transceiver']['aliased_trx'].mode}
    x, y2 = dict(m2['mode 2']), dict(m2['mode 2 alias'])
    x.pop('format'), y2.pop('format')
    if x != y2:
        prob.append('aliased mode differs from its original')
if prob:
    wit.append({'key': 'aliases:other_name-expansion', 'problems': prob[:6]})

# ---- synthetic service, spectrum and simulation-parameter documents
srv = {'path-request': [service(0, 'A', 'C', include=['roadm B', 'roadm X'], strict=[True, False], bidir=True, power=0.0012589254117941673),
                        service(1, 'A', 'C', mode=None, N=-284, M=4, nch=None, power=None),
                        service(2, 'B', 'C', N=None, M=None, spacing=37.5e9, bw=400e9, nch=80)],
       'synchronization': [sync(0, [0, 1]), sync(1, [1, 2])]}
srv['path-request'][2]['path-constraints']['te-bandwidth']['effective-freq-slot'] = [{'N': -300, 'M': 4}, {'N': 12, 'M': 6}]
srv['path-request'][2]['path-constraints']['te-bandwidth']['tx_power'] = 0.001
check_doc('synthetic:service:constraints-slots-sync', srv)
spec = {'spectrum': [{'f_min': 191.35e12, 'f_max': 193.1e12, 'baud_rate': 32e9, 'slot_width': 50e9, 'delta_pdb': 0, 'roll_off': 0.15,
                      'tx_osnr': 40, 'label': 'a'},
                     {'f_min': 193.1625e12, 'f_max': 195e12, 'baud_rate': 64.123e9, 'slot_width': 75e9, 'delta_pdb': 1.25, 'roll_off': 0.15,
                      'tx_osnr': 38.5, 'tx_power_dbm': -2.5, 'label': 'b'}]}
check_doc('synthetic:spectrum', spec)
for k, sp in enumerate(({'raman_params': {'flag': True, 'method': 'numerical', 'order': 1, 'result_spatial_resolution': 12500.5,
                                          'solver_spatial_resolution': 55.5},
                         'nli_params': {'method': 'ggn_approx', 'dispersion_tolerance': 1.5, 'phase_shift_tolerance': 0.125,
                                        'computed_number_of_channels': 7}},
                        {'nli_params': {'method': 'gn_model_analytic', 'computed_channels': [1, 5, 9]}},
                        {'raman_params': {'flag': False}})):
    check_doc(f'synthetic:sim-params:{k}', sp)
import shutil
shutil.rmtree(TMP, ignore_errors=True)
finish('legacy <-> YANG conversion: idempotent, value/structure preserving, same objects loaded; aliases', 'bounded',
       'gnpy.tools.convert_legacy_yang.legacy_to_yang / yang_to_legacy, gnpy.tools.json_io loaders, _equipment_from_json',
       f'{len(files)} shipped documents + 11 synthetic documents (per-degree targets of three kinds, design bands, per-frequency loss, '
       'Raman coefficient / efficiency, penalties, Edfa / Transceiver / mode aliases, nulls, multi-slot services, two SI entries)',
       cases, wit, t0=t0, detail={'not valid against the YANG models (skipped)': skipped})
