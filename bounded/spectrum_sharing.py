"""Bounded stand-in for the history clause of C14 on lines that carry no amplifier: services crossing the same ROADM-to-ROADM link
(in either direction) never get overlapping slot ranges, and the occupancy recorded on every OMS is exactly the union of the
ranges of the services that cross it or its opposite direction. The topology mixes amplified lines, a passive line (fused -
fibre - fused) and patches between co-located ROADMs made of a fused element only."""
import itertools
import random
import time
from copy import deepcopy
from bounded.common import args, finish, design, service, trx, roadm, fiber, fused

a = args()
from gnpy.core.elements import Roadm, Transceiver
from gnpy.tools.worker_utils import planning
from gnpy.topology.spectrum_assignment import BitmapValue

t0 = time.time()
wit = []
cases = nontriv = 0
rnd = random.Random(a.seed)


def topology():
    sites = ['A', 'B', 'C', 'D']
    els = [x for s in sites for x in (trx(f'trx {s}'), roadm(f'roadm {s}'))]
    cons = [(f'trx {s}', f'roadm {s}') for s in sites] + [(f'roadm {s}', f'trx {s}') for s in sites]
    for x, y in (('A', 'B'), ('B', 'A')):                      # patch between co-located ROADMs: one fused element, nothing else
        els.append(fused(f'patch {x}{y}', 0.5))
        cons += [(f'roadm {x}', f'patch {x}{y}'), (f'patch {x}{y}', f'roadm {y}')]
    for x, y in (('B', 'C'), ('C', 'B')):                      # passive line: fused - 2 km fibre - fused
        els += [fused(f'out {x}{y}', 0.5), fiber(f'fiber {x}{y}', 2), fused(f'in {x}{y}', 0.5)]
        cons += [(f'roadm {x}', f'out {x}{y}'), (f'out {x}{y}', f'fiber {x}{y}'), (f'fiber {x}{y}', f'in {x}{y}'), (f'in {x}{y}', f'roadm {y}')]
    for x, y in (('C', 'D'), ('D', 'C'), ('A', 'D'), ('D', 'A')):     # amplified lines
        els.append(fiber(f'fiber {x}{y}', 70))
        cons += [(f'roadm {x}', f'fiber {x}{y}'), (f'fiber {x}{y}', f'roadm {y}')]
    return {'elements': els, 'connections': [{'from_node': f, 'to_node': t} for f, t in cons]}


net0, eq0 = design(topology())
ROUTES = [('A', 'B', None), ('B', 'A', None), ('A', 'C', ['roadm B']), ('C', 'A', ['roadm B']), ('B', 'C', None), ('C', 'B', None),
          ('A', 'D', ['roadm B', 'roadm C']), ('D', 'A', ['roadm C', 'roadm B']), ('B', 'D', ['roadm C']), ('D', 'B', ['roadm C']),
          ('A', 'D', None), ('C', 'D', None)]


def hops(path):
    rs = [e.uid for e in path if isinstance(e, Roadm)]
    return {frozenset(h) for h in zip(rs, rs[1:])}


batches = [list(c) for c in itertools.permutations(range(len(ROUTES)), 2)]
if a.tier == 'quick':
    batches = batches[::3]
batches += [rnd.sample(range(len(ROUTES)), k) for k in (3, 4, 5, 6) for _ in range(6 if a.tier == 'quick' else 30)]
for batch in batches:
    cases += 1
    reqs = []
    for k, idx in enumerate(batch):
        s, d, via = ROUTES[idx]
        reqs.append(service(f'r{k}', s, d, mode=rnd.choice(['mode 1', 'mode 2']), include=via, strict=True,
                            spacing=rnd.choice([50e9, 75e9]), bw=rnd.choice([100e9, 200e9]), bidir=rnd.random() < 0.3))
        if reqs[-1]['path-constraints']['te-bandwidth']['trx_mode'] == 'mode 2':
            reqs[-1]['path-constraints']['te-bandwidth']['spacing'] = 75e9
    key = f'batch {[(ROUTES[i][0] + ROUTES[i][1], "via " + ",".join(ROUTES[i][2] or []) if ROUTES[i][2] else "") for i in batch]}'
    try:
        oms_list, pp, rpp, rqs, _, _ = planning(deepcopy(net0), deepcopy(eq0), {'path-request': reqs, 'synchronization': []})
    except Exception as e:
        wit.append({'key': key, 'problems': [f'{type(e).__name__}: {e}'[:200]]})
        continue
    served = [(rq, p) for rq, p in zip(rqs, pp) if getattr(rq, 'blocking_reason', None) is None and p]
    prob = []
    rng = {}
    for rq, p in served:
        rng[rq.request_id] = [(n - m, n + m - 1) for n, m in zip(rq.N, rq.M)]
    for (r1, p1), (r2, p2) in itertools.combinations(served, 2):
        if hops(p1) & hops(p2):
            nontriv += 1
            for (a1, b1), (a2, b2) in itertools.product(rng[r1.request_id], rng[r2.request_id]):
                if a1 <= b2 and a2 <= b1:
                    prob.append(f'{r1.request_id} ({r1.source}->{r1.destination}) and {r2.request_id} ({r2.source}->{r2.destination}) share the link(s) '
                                f'{[tuple(sorted(h)) for h in hops(p1) & hops(p2)]} and both hold slots {max(a1, a2)}..{min(b1, b2)}')
    # occupancy per OMS = union of the ranges of the services crossing it, in one direction or the other
    by_ends = {}
    for o in oms_list:
        ends = frozenset((o.el_id_list[0], o.el_id_list[-1]))
        want = set()
        for rq, p in served:
            if ends in hops(p):
                for lo, hi in rng[rq.request_id]:
                    want.update(range(lo, hi + 1))
        bm = o.spectrum_bitmap
        got = {n for n, v in zip(bm.freq_index, bm.bitmap) if v == BitmapValue.OCCUPIED}
        if got != want:
            prob.append(f'OMS {o.el_id_list[0]} -> {o.el_id_list[-1]} ({", ".join(o.el_id_list[1:-1])}): occupied slots '
                        f'{sorted(got)[:3]}..{sorted(got)[-3:] if got else []} ({len(got)}), services crossing it hold {len(want)} slots')
    if prob:
        wit.append({'key': key, 'problems': prob[:4]})
finish('services sharing a link never share slots; per-OMS occupancy = union of the services crossing it (lines without amplifier included)',
       'bounded', 'gnpy.topology.spectrum_assignment.pth_assign_spectrum / build_path_oms_id_list, gnpy.topology.request.find_reversed_path (through planning)',
       f'4 ROADM sites joined by a fused-only patch, a passive line and amplified lines; {len(batches)} batches of 2 - 6 services over 12 routes, '
       'modes / spacings / bandwidths / bidirectionality drawn at random (seeded)', cases, wit, nontrivial=nontriv, t0=t0)
