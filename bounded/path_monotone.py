"""Bounded stand-in for the path-level clauses of C01/C02 on classes not under contract (RamanFiber, Multiband_amplifier,
Transceiver) and as a cross-check of the contracts: the real propagate() on designed networks, each element __call__
wrapped at run time (no repository edit) to compare the spectrum before and after."""
import time
from copy import deepcopy
import numpy as np
from bounded.common import args, finish, mesh, design, equipment, TOPOLOGIES, EXAMPLE

a = args()
from gnpy.core import elements as E
from gnpy.core.info import SpectralInformation
from gnpy.tools.json_io import load_network, load_equipment, load_json
from gnpy.tools.worker_utils import designed_network
from gnpy.topology.request import propagate, compute_constrained_path, PathRequest
from gnpy.core.equipment import trx_mode_params
from gnpy.core.parameters import SimParams
import gnpy.core.science_utils as su

t0 = time.time()
wit = []
records = []
TOL = 1e-9


def snap(si):
    return {'f': np.array(si.frequency), 's': np.array(si._signal_ratio), 'a': np.array(si._ase_ratio),
            'n': np.array(si._nli_ratio), 'p': np.array(si._pch)}


def wrap(cls):
    orig = cls.__call__

    def call(self, si, *args, **kw):
        before = snap(si)
        out = orig(self, si, *args, **kw)
        after = snap(out)
        records.append((self, before, after))
        return out
    cls.__call__ = call
    return orig


origs = {c: wrap(c) for c in (E.Roadm, E.Fused, E.Fiber, E.RamanFiber, E.Edfa, E.Multiband_amplifier, E.Transceiver)}


def judge(key):
    prob = []
    for el, b, af in records:
        idx = {f: k for k, f in enumerate(b['f'])}
        for k, f in enumerate(af['f']):
            if f not in idx:
                prob.append(f'{el.uid}: channel {f} appears from nowhere')
                continue
            j = idx[f]
            s0, a0, n0, s1, a1, n1 = b['s'][j], b['a'][j], b['n'][j], af['s'][k], af['a'][k], af['n'][k]
            if abs(s1 + a1 + n1 - 1) > 1e-9 or min(s1, a1, n1) < -1e-15 or af['p'][k] <= 0:
                prob.append(f'{el.uid}: shares do not split the power at {f}: {s1} {a1} {n1}')
            passive = isinstance(el, (E.Roadm, E.Fused))
            if passive and (abs(s1 - s0) > 1e-12 or abs(a1 - a0) > 1e-12 or abs(n1 - n0) > 1e-12):
                prob.append(f'{el.uid}: passive element changed the shares at {f}')
            # cross-multiplied ratios, relative tolerance
            def up(x1, y1, x0, y0):
                return x1 * y0 > x0 * y1 * (1 + 1e-9) + 1e-30
            if up(s1, a1 + n1, s0, a0 + n0):
                prob.append(f'{el.uid}: GSNR increased at {f}')
            if up(s1, a1, s0, a0):
                prob.append(f'{el.uid}: OSNR_ASE increased at {f}')
            if up(s1, n1, s0, n0):
                prob.append(f'{el.uid}: SNR_NLI increased at {f}')
            if isinstance(el, E.Edfa) and abs(s1 * n0 - s0 * n1) > 1e-9 * max(s1 * n0, 1e-30):
                prob.append(f'{el.uid}: amplifier changed SNR_NLI at {f}')
            if type(el) is E.Fiber and abs(s1 * a0 - s0 * a1) > 1e-9 * max(s1 * a0, 1e-30):
                prob.append(f'{el.uid}: fibre changed OSNR_ASE at {f}')
    if prob:
        wit.append({'key': key, 'problems': prob[:5]})


def request(eqpt, src, dst, **kw):
    params = {'request_id': 'r', 'source': src, 'bidir': False, 'destination': dst, 'trx_type': 'Voyager', 'trx_mode': 'mode 1',
              'format': 'mode 1', 'spacing': 50e9, 'nodes_list': [dst], 'loose_list': ['STRICT'], 'path_bandwidth': 100e9,
              'effective_freq_slot': None, 'nb_channel': None, 'power': 1e-3, 'tx_power': 1e-3}
    params.update(trx_mode_params(eqpt, 'Voyager', 'mode 1', True))
    params.update(kw)
    params['nb_channel'] = None
    return PathRequest(**params)


cases = 0
names = ['line2', 'ring3', 'mesh4'] if a.tier == 'quick' else list(TOPOLOGIES)
for name in names:
    sites, links = TOPOLOGIES[name]
    for sp in ([80], [20, 80], [40, 120]):
        for junction in ('none', 'fused'):
            if junction != 'none' and len(sp) == 1:
                continue
            for power_dbm in (0, 6):
                topo = mesh(sites, links, spans={l: sp for l in links}, junction=junction)
                net, eqpt = design(topo)
                req = request(eqpt, f'trx {sites[0]}', f'trx {sites[-1]}', power=1e-3 * 10 ** (power_dbm / 10),
                              tx_power=1e-3 * 10 ** (power_dbm / 10))
                path = compute_constrained_path(net, req)
                records.clear()
                propagate(deepcopy(path), req, eqpt)
                cases += 1
                judge(f'{name}:{sp}:{junction}:{power_dbm}dBm')
# fibres of either dispersion sign (D = -4, +4, +16.7 ps/nm/km) under each NLI method of the simulation parameters: the NLI of a
# span is a noise power, never negative, whatever the sign of beta2
_METHODS = ('gn_model_analytic', 'ggn_approx', 'ggn_spectrally_separated')
for disp, method in ([(-4e-6, m_) for m_ in _METHODS] + [(4e-6, 'ggn_approx')] if a.tier == 'quick' else
                     [(d_, m_) for d_ in (-4e-6, 4e-6, 1.67e-5) for m_ in _METHODS]):
    sim_ = {'nli_params': {'method': method, 'dispersion_tolerance': 1, 'phase_shift_tolerance': 0.1, 'computed_number_of_channels': 5}}
    if method != 'gn_model_analytic':
        sim_['raman_params'] = {'flag': True, 'result_spatial_resolution': 10e3, 'solver_spatial_resolution': 50}
    SimParams.set_params(deepcopy(sim_))
    try:
        topo = mesh(*TOPOLOGIES['line2'], spans={l: [80, 60] for l in TOPOLOGIES['line2'][1]})
        for e in topo['elements']:
            if e['type'] == 'Fiber':
                e['params']['dispersion'] = disp
        net, eqpt = design(topo)
        req = request(eqpt, 'trx A', 'trx B', power=2e-3, tx_power=2e-3)
        path = compute_constrained_path(net, req)
        records.clear()
        propagate(deepcopy(path), req, eqpt)
        cases += 1
        judge(f'line2:[80, 60]:dispersion {disp}:{method}')
    except Exception as e:
        wit.append({'key': f'line2:[80, 60]:dispersion {disp}:{method}', 'problems': [f'{type(e).__name__}: {e}'[:200]]})
    finally:
        SimParams.set_params({'nli_params': {'method': 'gn_model_analytic'}, 'raman_params': {'flag': False}})
# the NLI computed on a few channels only ('computed_channels') and filled in for the others, on combs whose halves differ by 10 dB:
# the channels outside the computed range still receive a noise power, never a negative one
from gnpy.core.info import create_arbitrary_spectral_information
for method, chans, powers in [(m_, c_, p_) for m_ in ('ggn_approx', 'ggn_spectrally_separated') for c_ in ([6, 7], [2, 7], [1, 6, 12], [5, 6, 7, 8])
                              for p_ in ([3.0] * 6 + [-7.0] * 6, [-7.0] * 6 + [3.0] * 6, [0.0] * 12)]:
    SimParams.set_params({'raman_params': {'flag': False}, 'nli_params': {'method': method, 'dispersion_tolerance': 1, 'phase_shift_tolerance': 0.1,
                                                                         'computed_channels': chans}})
    key = f'two fibres:{method}:computed channels {chans}:powers {powers} dBm'
    try:
        pch_ = 1e-3 * 10 ** (np.array(powers) / 10)
        si_ = create_arbitrary_spectral_information(frequency=193.0e12 + 50e9 * np.arange(12), pch=pch_, baud_rate=32e9, slot_width=50e9,
                                                    roll_off=0.15, tx_osnr=40.0, tx_power=pch_)
        si_.add_ase(si_.pch * 1e-3)
        si_.add_nli(si_.pch * 1e-3)
        records.clear()
        for uid_ in ('span1', 'span2'):
            fib_ = E.Fiber(uid=uid_, type_variety='SSMF', params={'length': 80, 'loss_coef': 0.2, 'length_units': 'km', 'att_in': 0, 'con_in': 0.5,
                                                                  'con_out': 0.5, 'dispersion': 1.67e-05, 'effective_area': 83e-12, 'pmd_coef': 1.265e-15})
            fib_.ref_pch_in_dbm = 0.0
            si_ = fib_(si_)
        cases += 1
        judge(key)
    except Exception as e:
        wit.append({'key': key, 'problems': [f'{type(e).__name__}: {e}'[:200]]})
    finally:
        SimParams.set_params({'nli_params': {'method': 'gn_model_analytic'}, 'raman_params': {'flag': False}})
# Raman and multiband example networks shipped with the project
from gnpy.tools.json_io import network_from_json
for net_file, eq_file, sim, low_pump in (('raman_edfa_example_network.json', 'eqpt_config.json', 'sim_params.json', False),
                                         ('raman_edfa_example_network.json', 'eqpt_config.json', 'sim_params.json', True),
                                         ('multiband_example_network.json', 'eqpt_config_multiband.json', None, False)):
    eq = load_equipment(EXAMPLE / eq_file)
    if sim:
        SimParams.set_params(load_json(EXAMPLE / sim))
    js = load_json(EXAMPLE / net_file)
    if low_pump:
        # one Raman pump BELOW the channels (spontaneous Raman term of the opposite sign family)
        for el in js['elements']:
            if el['type'] == 'RamanFiber':
                el['operational']['raman_pumps'][0]['frequency'] = 190e12
    net = network_from_json(js, eq)
    trxs = [n.uid for n in net.nodes() if isinstance(n, E.Transceiver)]
    net, req, ref = designed_network(eq, net, source=trxs[0], destination=trxs[-1])
    path = compute_constrained_path(net, req)
    records.clear()
    propagate(deepcopy(path), req, eq)
    cases += 1
    judge(net_file + (':pump-below-channels' if low_pump else ''))
    SimParams.reset() if hasattr(SimParams, 'reset') else None
for c, o in origs.items():
    c.__call__ = o
finish('per-element share identity and monotone GSNR/OSNR_ASE/SNR_NLI along real paths', 'bounded',
       'gnpy.topology.request.propagate over Roadm/Fused/Fiber/RamanFiber/Edfa/Multiband_amplifier/Transceiver.__call__',
       f'topologies {names} x spans x junctions x launch 0/6 dBm + fibres of dispersion -4 / +4 / +16.7 ps/nm/km under the three NLI methods + '
       'shipped Raman and multiband examples', cases, wit, t0=t0)
