"""Bounded stand-in for the part of C04 that lies in a numerical solver: with a rippled / tilted gain profile (DGT model) an
amplifier still raises the total input power by its effective gain, and never delivers more than its maximum output power."""
import itertools
import time
import numpy as np
from bounded.common import args, finish, equipment

a = args()
from gnpy.core.elements import Edfa
from gnpy.core.info import create_input_spectral_information
from gnpy.core.utils import lin2db, dbm2watt, watt2dbm
from gnpy.tools.json_io import network_from_json

t0 = time.time()
wit = []
cases = nontriv = 0
eq = equipment()
varieties = ['high_detail_model_example', 'std_medium_gain', 'std_low_gain', 'test']
TOL = 0.02       # dB: the solver's documented two-step interpolation lands within a few mdB
for variety in varieties:
    if variety not in eq['Edfa']:
        continue
    amp_lib = eq['Edfa'][variety]
    gains = np.linspace(amp_lib.gain_min, amp_lib.gain_flatmax, 4 if a.tier == 'quick' else 9)
    for gain, tilt, shape, nch, pch_dbm in itertools.product(gains, (0, -1.5, 2.0), ('flat', 'tilted', 'two-level'), (40, 76), (-22, -15)):
        cases += 1
        topo = {'elements': [{'uid': 'amp', 'type': 'Edfa', 'type_variety': variety,
                              'operational': {'gain_target': float(gain), 'tilt_target': tilt, 'out_voa': 0, 'delta_p': None}}],
                'connections': []}
        amp = next(n for n in network_from_json(topo, eq).nodes() if isinstance(n, Edfa))
        si = create_input_spectral_information(f_min=191.35e12, f_max=191.35e12 + 50e9 * (nch - 1) + 1, roll_off=0.15, baud_rate=32e9,
                                               spacing=50e9, tx_osnr=40, tx_power=dbm2watt(pch_dbm))
        n = si.number_of_channels
        if shape == 'tilted':
            si.apply_attenuation_db(np.linspace(0, 3, n))
        elif shape == 'two-level':
            si.apply_attenuation_db(np.where(np.arange(n) % 2 == 0, 0.0, 2.5))
        amp(si)
        g_eff = amp.effective_gain
        wit_key = f'{variety}:gain{gain:.2f}:tilt{tilt}:{shape}:{nch}ch:{pch_dbm}dBm'
        # the same input again (the amplifier consumed the first one)
        si2 = create_input_spectral_information(f_min=191.35e12, f_max=191.35e12 + 50e9 * (nch - 1) + 1, roll_off=0.15, baud_rate=32e9,
                                                spacing=50e9, tx_osnr=40, tx_power=dbm2watt(pch_dbm))
        if shape == 'tilted':
            si2.apply_attenuation_db(np.linspace(0, 3, n))
        elif shape == 'two-level':
            si2.apply_attenuation_db(np.where(np.arange(n) % 2 == 0, 0.0, 2.5))
        tot_in = float(np.sum(si2.signal + si2.nli + si2.ase))
        # the input as amplified by the per-channel gain profile (the ASE generated inside comes on top)
        amplified = float(np.sum((si2.signal + si2.nli + si2.ase) * 10 ** (np.asarray(amp.gprofile) / 10)))
        g_meas = lin2db(amplified / tot_in)
        prob = []
        if abs(g_meas - g_eff) > TOL:
            prob.append(f'total gain of the profile {g_meas:.4f} dB != effective gain {g_eff:.4f} dB')
        if g_eff > gain + 1e-9:
            prob.append(f'effective gain {g_eff:.4f} above the set gain {gain:.4f}')
        if watt2dbm(amplified) > amp_lib.p_max + TOL:
            prob.append(f'amplified input {watt2dbm(amplified):.3f} dBm above p_max {amp_lib.p_max}')
        if g_eff < gain - 1e-9:
            nontriv += 1
            if abs(watt2dbm(tot_in) + g_eff - amp_lib.p_max) > 1e-6:
                prob.append(f'gain reduced to {g_eff:.4f} although input {watt2dbm(tot_in):.3f} dBm + set gain stays at/below p_max, or reduced '
                            f'further than needed (p_max {amp_lib.p_max})')
        if prob:
            wit.append({'key': wit_key, 'problems': prob})
finish('rippled / tilted gain profile delivers the effective gain; p_max respected; gain reduced only as needed', 'bounded',
       'gnpy.core.elements.Edfa.interpol_params / _gain_profile (DGT solver)',
       f'amplifier models {varieties} x gains over [gain_min, gain_flatmax] x tilt 0/-1.5/+2 dB x flat / tilted / two-level input x 40/76 '
       f'channels x -22/-15 dBm per channel; tolerance {TOL} dB', cases, wit, nontrivial=nontriv, t0=t0)
