"""Bounded stand-in for the main claim of C12: requests of a synchronisation group never share a ROADM-to-ROADM link in
either direction (else DisjunctionError); for a single pair a disjoint solution is found whenever one exists."""
import itertools
import time
from copy import deepcopy
import networkx as nx
from bounded.common import args, finish, mesh, design, equipment, TOPOLOGIES, service, sync, roadm_links

a = args()
from gnpy.core.elements import Roadm, Transceiver
from gnpy.core.exceptions import DisjunctionError, ServiceError
from gnpy.tools.json_io import requests_from_json, disjunctions_from_json
from gnpy.topology.spectrum_assignment import build_oms_list
from gnpy.topology.request import correct_json_route_list, compute_path_dsjctn, deduplicate_disjunctions, requests_aggregation

t0 = time.time()
wit = []
cases = nontriv = 0
TOPOS = dict(TOPOLOGIES)
TOPOS['house5'] = (['A', 'B', 'C', 'D', 'E'], [('A', 'B'), ('B', 'C'), ('C', 'D'), ('D', 'A'), ('A', 'E'), ('E', 'C'), ('B', 'D')])
LENS = {('A', 'B'): [80], ('B', 'C'): [50], ('C', 'D'): [70], ('D', 'A'): [90], ('A', 'C'): [120], ('B', 'D'): [60], ('A', 'E'): [40],
        ('E', 'C'): [45], ('C', 'A'): [120]}


def undirected(links):
    return {frozenset(l) for l in links}


# a mesh with one unamplified (fused - fibre - fused) short line between A and B: its OMS hold no amplifier
TOPOS['passive4'] = (['A', 'B', 'C', 'D'], [('A', 'C'), ('C', 'B'), ('A', 'D'), ('D', 'B'), ('A', 'B')])
PASSIVE = {'passive4': [('A', 'B')]}
names = ['ring3', 'ring4', 'mesh4', 'house5', 'passive4'] if a.tier == 'quick' else ['ring3', 'ring4', 'mesh4', 'full4', 'house5', 'passive4']
for name in names:
    sites, links = TOPOS[name]
    topo = mesh(sites, links, spans={l: ([20] if l in PASSIVE.get(name, []) else LENS.get(l, LENS.get((l[1], l[0]), [80]))) for l in links},
                passive_links=PASSIVE.get(name, ()))
    net, eqpt = design(topo)
    build_oms_list(net, eqpt)
    by_uid = {n.uid: n for n in net.nodes()}
    rg = nx.Graph()
    rg.add_edges_from(links)

    def run(reqs, syncs, key):
        global cases, nontriv
        cases += 1
        data = {'path-request': reqs, 'synchronization': syncs}
        rqs = requests_from_json(data, eqpt)
        rqs = correct_json_route_list(net, rqs)
        dsj = deduplicate_disjunctions(disjunctions_from_json(data))
        rqs, dsj = requests_aggregation(rqs, dsj)
        try:
            pths = compute_path_dsjctn(net, eqpt, rqs, dsj)
        except DisjunctionError:
            return 'error', None, rqs
        by_id = {}
        for rq, p in zip(rqs, pths):
            for rid in str(rq.request_id).split(' | '):
                by_id[rid] = p
        prob = []
        # judged against the groups as they were declared (not as the implementation de-duplicated them)
        class _G:
            pass
        declared = []
        for sv in syncs:
            g = _G()
            g.disjunction_id, g.disjunctions_req = sv['synchronization-id'], list(sv['svec']['request-id-number'])
            declared.append(g)
        for d in declared:
            for x, y in itertools.combinations(d.disjunctions_req, 2):
                px, py = by_id.get(str(x)), by_id.get(str(y))
                if px and py:
                    common = undirected(roadm_links(px)) & undirected(roadm_links(py))
                    if common:
                        prob.append(f'group {d.disjunction_id}: requests {x} and {y} share link(s) {[tuple(sorted(c)) for c in common]}')
        if prob:
            wit.append({'key': key, 'problems': prob[:4]})
        return 'ok', by_id, rqs

    pairs = list(itertools.permutations(sites, 2))
    # single pairs between the same or different end points: completeness against a brute-force search
    for (s1, d1), (s2, d2) in itertools.product(pairs[:6], pairs[:8]):
        st, by_id, rqs = run([service(0, s1, d1), service(1, s2, d2)], [sync(0, [0, 1])], f'{name}:pair:{s1}{d1}/{s2}{d2}')
        exists = any(not (undirected(zip(p, p[1:])) & undirected(zip(q, q[1:])))
                     for p in nx.all_simple_paths(rg, s1, d1) for q in nx.all_simple_paths(rg, s2, d2))
        nontriv += 1 if exists else 0
        if st == 'error' and exists and not (s1 == s2 and d1 == d2 and False):
            wit.append({'key': f'{name}:pair-completeness:{s1}{d1}/{s2}{d2}',
                        'problems': ['DisjunctionError although two link-disjoint routes exist']})
        if st == 'ok' and by_id and not (by_id.get('0') and by_id.get('1')) and exists:
            wit.append({'key': f'{name}:pair-completeness:{s1}{d1}/{s2}{d2}', 'problems': ['a request left without path although disjoint routes exist']})
    # triples and overlapping groups
    trip = [(('A', 'C'), ('A', 'C'), ('B', 'D')), (('A', 'B'), ('A', 'C'), ('A', 'D')), (('A', 'C'), ('B', 'D'), ('C', 'A'))]
    for t in trip:
        if not all(x in sites and y in sites for x, y in t):
            continue
        reqs = [service(k, x, y) for k, (x, y) in enumerate(t)]
        run(reqs, [sync(0, [0, 1, 2])], f'{name}:triple:{t}')
        run(reqs, [sync(0, [0, 1]), sync(1, [1, 2])], f'{name}:overlapping-groups:{t}')
        run(reqs, [sync(0, [0, 1]), sync(1, [1, 2]), sync(2, [0, 2])], f'{name}:three-pairs:{t}')
        # a group contained in a larger one, in both declaration orders
        run(reqs, [sync(0, [0, 1]), sync(1, [0, 1, 2])], f'{name}:nested-groups:{t}')
        run(reqs, [sync(0, [0, 1, 2]), sync(1, [1, 2])], f'{name}:nested-groups-larger-first:{t}')
        others = [s for s in sites if s not in t[0]]
        if others:
            reqs2 = [service(0, *t[0], include=[f'roadm {others[0]}'], strict=True)] + reqs[1:]
            run(reqs2, [sync(0, [0, 1])], f'{name}:with-include:{t}')
finish('synchronised requests are link-disjoint in both directions; pairs complete', 'bounded',
       'gnpy.topology.request.compute_path_dsjctn (+ requests_aggregation, deduplicate_disjunctions)',
       f'topologies {names}: request pairs over 6x8 ordered site pairs with brute-force completeness, triples, overlapping '
       'groups, include constraints', cases, wit, nontrivial=nontriv, t0=t0)
