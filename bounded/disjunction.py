"""Bounded stand-in for the main claim of C12: requests of a synchronisation group never share a ROADM-to-ROADM link in
either direction (else DisjunctionError); for a single pair a disjoint solution is found whenever one exists."""
import itertools
import time
from copy import deepcopy
import networkx as nx
from bounded.common import args, finish, mesh, design, equipment, TOPOLOGIES, service, sync, roadm_links

a = args()
from gnpy.core.elements import Roadm, Transceiver
from gnpy.core.exceptions import DisjunctionError, ServiceError
from gnpy.tools.json_io import requests_from_json, disjunctions_from_json
from gnpy.topology.spectrum_assignment import build_oms_list
from gnpy.topology.request import correct_json_route_list, compute_path_dsjctn, deduplicate_disjunctions, requests_aggregation

t0 = time.time()
wit = []
cases = nontriv = 0
TOPOS = dict(TOPOLOGIES)
TOPOS['house5'] = (['A', 'B', 'C', 'D', 'E'], [('A', 'B'), ('B', 'C'), ('C', 'D'), ('D', 'A'), ('A', 'E'), ('E', 'C'), ('B', 'D')])
LENS = {('A', 'B'): [80], ('B', 'C'): [50], ('C', 'D'): [70], ('D', 'A'): [90], ('A', 'C'): [120], ('B', 'D'): [60], ('A', 'E'): [40],
        ('E', 'C'): [45], ('C', 'A'): [120]}


def undirected(links):
    return {frozenset(l) for l in links}


# a mesh with one unamplified (fused - fibre - fused) short line between A and B: its OMS hold no amplifier
# a square with a spur: E hangs on A only and can be crossed by no A - D route
TOPOS['spur5'] = (['A', 'B', 'C', 'D', 'E'], [('A', 'B'), ('B', 'D'), ('A', 'C'), ('C', 'D'), ('A', 'E')])
TOPOS['passive4'] = (['A', 'B', 'C', 'D'], [('A', 'C'), ('C', 'B'), ('A', 'D'), ('D', 'B'), ('A', 'B')])
PASSIVE = {'passive4': [('A', 'B')]}
names = ['ring3', 'ring4', 'mesh4', 'house5', 'passive4', 'spur5'] if a.tier == 'quick' else ['ring3', 'ring4', 'mesh4', 'full4', 'house5', 'passive4', 'spur5']
for name in names:
    sites, links = TOPOS[name]
    topo = mesh(sites, links, spans={l: ([20] if l in PASSIVE.get(name, []) else LENS.get(l, LENS.get((l[1], l[0]), [80]))) for l in links},
                passive_links=PASSIVE.get(name, ()))
    net, eqpt = design(topo)
    build_oms_list(net, eqpt)
    by_uid = {n.uid: n for n in net.nodes()}
    rg = nx.Graph()
    rg.add_edges_from(links)

    loaded = {}

    def run(reqs, syncs, key):
        global cases, nontriv
        cases += 1
        data = {'path-request': reqs, 'synchronization': syncs}
        rqs = requests_from_json(data, eqpt)
        rqs = correct_json_route_list(net, rqs)
        loaded.clear()
        loaded.update({str(r.request_id): (list(r.nodes_list), list(r.loose_list)) for r in rqs})
        dsj = deduplicate_disjunctions(disjunctions_from_json(data))
        rqs, dsj = requests_aggregation(rqs, dsj)
        try:
            pths = compute_path_dsjctn(net, eqpt, rqs, dsj)
        except DisjunctionError:
            return 'error', None, rqs
        by_id = {}
        for rq, p in zip(rqs, pths):
            for rid in str(rq.request_id).split(' | '):
                by_id[rid] = p
        prob = []
        # judged against the groups as they were declared (not as the implementation de-duplicated them)
        class _G:
            pass
        declared = []
        for sv in syncs:
            g = _G()
            g.disjunction_id, g.disjunctions_req = sv['synchronization-id'], list(sv['svec']['request-id-number'])
            declared.append(g)
        for d in declared:
            for x, y in itertools.combinations(d.disjunctions_req, 2):
                px, py = by_id.get(str(x)), by_id.get(str(y))
                if px and py:
                    common = undirected(roadm_links(px)) & undirected(roadm_links(py))
                    if common:
                        prob.append(f'group {d.disjunction_id}: requests {x} and {y} share link(s) {[tuple(sorted(c)) for c in common]}')
        if prob:
            wit.append({'key': key, 'problems': prob[:4]})
        return 'ok', by_id, rqs

    pairs = list(itertools.permutations(sites, 2))
    # single pairs between the same or different end points: completeness against a brute-force search
    for (s1, d1), (s2, d2) in itertools.product(pairs[:6], pairs[:8]):
        st, by_id, rqs = run([service(0, s1, d1), service(1, s2, d2)], [sync(0, [0, 1])], f'{name}:pair:{s1}{d1}/{s2}{d2}')
        exists = any(not (undirected(zip(p, p[1:])) & undirected(zip(q, q[1:])))
                     for p in nx.all_simple_paths(rg, s1, d1) for q in nx.all_simple_paths(rg, s2, d2))
        nontriv += 1 if exists else 0
        if st == 'error' and exists and not (s1 == s2 and d1 == d2 and False):
            wit.append({'key': f'{name}:pair-completeness:{s1}{d1}/{s2}{d2}',
                        'problems': ['DisjunctionError although two link-disjoint routes exist']})
        if st == 'ok' and by_id and not (by_id.get('0') and by_id.get('1')) and exists:
            wit.append({'key': f'{name}:pair-completeness:{s1}{d1}/{s2}{d2}', 'problems': ['a request left without path although disjoint routes exist']})
    # triples and overlapping groups
    trip = [(('A', 'C'), ('A', 'C'), ('B', 'D')), (('A', 'B'), ('A', 'C'), ('A', 'D')), (('A', 'C'), ('B', 'D'), ('C', 'A'))]
    for t in trip:
        if not all(x in sites and y in sites for x, y in t):
            continue
        reqs = [service(k, x, y) for k, (x, y) in enumerate(t)]
        run(reqs, [sync(0, [0, 1, 2])], f'{name}:triple:{t}')
        run(reqs, [sync(0, [0, 1]), sync(1, [1, 2])], f'{name}:overlapping-groups:{t}')
        run(reqs, [sync(0, [0, 1]), sync(1, [1, 2]), sync(2, [0, 2])], f'{name}:three-pairs:{t}')
        # a group contained in a larger one, in both declaration orders
        run(reqs, [sync(0, [0, 1]), sync(1, [0, 1, 2])], f'{name}:nested-groups:{t}')
        run(reqs, [sync(0, [0, 1, 2]), sync(1, [1, 2])], f'{name}:nested-groups-larger-first:{t}')
        others = [s for s in sites if s not in t[0]]
        if others:
            reqs2 = [service(0, *t[0], include=[f'roadm {others[0]}'], strict=True)] + reqs[1:]
            run(reqs2, [sync(0, [0, 1])], f'{name}:with-include:{t}')
    # identical requests that sit in several groups each: aggregation must leave every group with ids that exist
    if name in ('spur5', 'mesh4', 'house5'):
        (s_, d_) = ('A', 'D') if name != 'house5' else ('A', 'C')
        others = [(x, y) for x, y in pairs if (x, y) != (s_, d_) and (y, x) != (s_, d_)][:3]
        for (p1, p2) in itertools.combinations(others, 2):
            reqs = [service('a', s_, d_), service('b', s_, d_), service('c', *p1), service('d', *p2)]
            for groups in ([['a', 'c'], ['a', 'd'], ['b', 'c'], ['b', 'd']], [['a', 'c'], ['b', 'c'], ['a', 'd'], ['b', 'd']],
                           [['a', 'c', 'd'], ['b', 'c', 'd']], [['c', 'a'], ['d', 'a'], ['c', 'b'], ['d', 'b']]):
                key = f'{name}:identical-twins-in-groups:{p1}{p2}:{groups}'
                try:
                    run(reqs, [sync(k, g) for k, g in enumerate(groups)], key)
                except ServiceError:
                    pass
                except Exception as e:
                    cases += 1
                    wit.append({'key': key, 'problems': [f'{type(e).__name__}: {e!r}'[:200]]})
    # a pair of synchronised requests, the first with a route list (1 - 3 hops, STRICT / LOOSE in every mix, sites that cannot be
    # crossed, names that do not exist, the end points named in the list): what is loaded, and what comes out
    if name not in ('spur5', 'mesh4'):
        continue
    (s, d) = ('A', 'D')
    inner = [x for x in sites if x not in (s, d)]
    hop_sets = [[f'roadm {x}'] for x in inner] + [[f'roadm {x}', f'roadm {y}'] for x, y in itertools.permutations(inner, 2)][:6]
    variants = []
    for hops in hop_sets:
        for flags in itertools.product((True, False), repeat=len(hops)):
            variants.append(list(zip(hops, flags)))
    # hops inside a line: the booster behind the ROADM, the fibre, the preamplifier in front of the next ROADM
    for (x, y) in [l for l in links + [(b_, a_) for a_, b_ in links] if l[0] == s][:2] + [l for l in links + [(b_, a_) for a_, b_ in links] if l[1] == d][:1]:
        line = [u for u in by_uid if u.endswith(f'fiber ({x} -> {y})-0')]
        for u in line:
            variants.append([(u, True)])
            variants.append([(u, False)])
        fib = f'fiber ({x} -> {y})-0'
        variants.append([(f'roadm {x}', True), (fib, True)])
        variants.append([(fib, True), (f'roadm {x}', True)])       # in this order the two cannot be crossed
    def expand(p):
        # the element names along a route given as a sequence of sites
        out = [f'trx {p[0]}']
        for x, y in zip(p, p[1:]):
            out.append(f'roadm {x}')
            for first in net.successors(by_uid[f'roadm {x}']):
                chain, cur = [], first
                while not isinstance(cur, (Roadm, Transceiver)):
                    chain.append(cur.uid)
                    cur = next(net.successors(cur))
                if cur.uid == f'roadm {y}':
                    out += chain
                    break
        return out + [f'roadm {p[-1]}', f'trx {p[-1]}']

    # every element of a whole route named in order, end points included: 11 and more route objects (two-digit indices)
    for mid in inner[:2]:
        if rg.has_edge(s, mid) and rg.has_edge(mid, d):
            full = expand([s, mid, d])
            for flag in (True, False):
                variants.append([(u, flag) for u in full])
            variants.append([(u, k % 2 == 0) for k, u in enumerate(full)])
    for hops in hop_sets[:3]:
        # unknown names in front (LOOSE: skipped with a warning), the destination transceiver closing the list
        variants.append([('ghost 1', False), ('ghost 2', False)] + [(hops[0], True)])
        variants.append([('ghost 1', False)] + [(hops[0], False)] + [(f'trx {d}', True)])
        variants.append([(hops[0], False), (f'trx {d}', True)])
        variants.append([(f'trx {s}', True), (hops[0], True), (f'trx {d}', False)])
        variants.append([(hops[0], True), ('ghost 3', True)])
    for hops in variants:
        # what the list means: end points named in it and unknown LOOSE names are dropped, an unknown STRICT name is refused
        kept = list(hops)
        if kept and kept[0][0] == f'trx {s}':
            kept.pop(0)
        if kept and kept[-1][0] == f'trx {d}':
            kept.pop(-1)
        refused = any(u not in by_uid and st for u, st in kept)
        kept = [(u, st) for u, st in kept if u in by_uid]
        key = f'{name}:pair-with-route-list:{[(u, "STRICT" if st else "LOOSE") for u, st in hops]}'
        reqs = [service(0, s, d, include=[u for u, _ in hops], strict=[st for _, st in hops]), service(1, s, d)]
        try:
            st, by_id, rqs = run(reqs, [sync(0, [0, 1])], key)
        except ServiceError as e:
            if not refused:
                wit.append({'key': key, 'problems': [f'ServiceError although every STRICT name of the list exists: {str(e)[:100]}']})
            continue
        if refused:
            wit.append({'key': key, 'problems': ['a STRICT hop that does not exist in the network was accepted']})
            continue
        got = loaded.get('0')
        want = ([u for u, _ in kept], ['STRICT' if x else 'LOOSE' for _, x in kept])
        if got != want:
            wit.append({'key': key, 'problems': [f'route list loaded as {got}, the document says {want}']})
            continue

        def through(p, need):
            # the names of `need` are met in this order along the route p (a sequence of sites)
            it_ = iter(expand(p))
            return all(any(x == n for x in it_) for n in need)
        sols = [(p, q) for p in nx.all_simple_paths(rg, s, d) for q in nx.all_simple_paths(rg, s, d)
                if not (undirected(zip(p, p[1:])) & undirected(zip(q, q[1:])))]
        need_all = [u for u, _ in kept]
        need_strict = [u for u, x in kept if x]
        all_ok = any(through(p, need_all) for p, _ in sols)
        strict_ok = any(through(p, need_strict) for p, _ in sols)
        nontriv += 1
        prob = []
        if st == 'ok':
            p0 = [e.uid.split(' ', 1)[1] for e in by_id['0'] if isinstance(e, Roadm)]
            if not through(p0, need_strict):
                prob.append(f'route {p0} returned although the STRICT hops {need_strict} are not crossed in order')
            elif all_ok and not through(p0, need_all):
                prob.append(f'route {p0} drops the hops {need_all} although a disjoint pair crossing them exists')
        elif not strict_ok:
            pass        # no combination satisfies the STRICT hops: the disjunction error is the stated outcome
        elif not need_strict and sols:
            prob.append(f'DisjunctionError although only LOOSE hops were asked for and disjoint routes exist ({sols[0]})')
        elif all_ok:
            prob.append(f'DisjunctionError although a disjoint pair crossing every hop {need_all} exists')
        if st == 'ok' and not strict_ok:
            prob.append(f'paths returned although no disjoint pair crosses the STRICT hops {need_strict}')
        if prob:
            wit.append({'key': key, 'problems': prob})
    # both requests of the pair carry a one-hop route list (every STRICT / LOOSE combination, crossable or not)
    hop1 = [f'roadm {x}' for x in inner]
    for (u0, f0), (u1, f1) in itertools.product([(u, f) for u in hop1 for f in (True, False)], repeat=2):
        key = f'{name}:pair-with-two-route-lists:{(u0, "STRICT" if f0 else "LOOSE")}/{(u1, "STRICT" if f1 else "LOOSE")}'
        reqs = [service(0, s, d, include=[u0], strict=[f0]), service(1, s, d, include=[u1], strict=[f1])]
        try:
            st, by_id, rqs = run(reqs, [sync(0, [0, 1])], key)
        except ServiceError:
            continue

        def through2(p, need):
            it_ = iter(expand(p))
            return all(any(x == n for x in it_) for n in need)
        sols = [(p, q) for p in nx.all_simple_paths(rg, s, d) for q in nx.all_simple_paths(rg, s, d)
                if not (undirected(zip(p, p[1:])) & undirected(zip(q, q[1:])))]
        need0, need1 = ([u0] if f0 else []), ([u1] if f1 else [])
        strict_ok = any(through2(p, need0) and through2(q, need1) for p, q in sols)
        nontriv += 1
        prob = []
        if st == 'ok':
            r0 = [e.uid.split(' ', 1)[1] for e in by_id['0'] if isinstance(e, Roadm)]
            r1 = [e.uid.split(' ', 1)[1] for e in by_id['1'] if isinstance(e, Roadm)]
            if not strict_ok or not through2(r0, need0) or not through2(r1, need1):
                prob.append(f'routes {r0} / {r1} returned although the STRICT hops {need0} / {need1} ' +
                            ('cannot be crossed by any disjoint pair' if not strict_ok else 'are not crossed'))
        elif not need0 and not need1 and sols:
            prob.append('DisjunctionError although only LOOSE hops were asked for and disjoint routes exist')
        if prob:
            wit.append({'key': key, 'problems': prob})
finish('synchronised requests are link-disjoint in both directions; pairs complete', 'bounded',
       'gnpy.topology.request.compute_path_dsjctn (+ requests_aggregation, deduplicate_disjunctions)',
       f'topologies {names}: request pairs over 6x8 ordered site pairs with brute-force completeness, triples, overlapping '
       'groups, include constraints; on spur5 and mesh4 a pair whose first request carries a route list of 1 - 3 hops in every STRICT / LOOSE mix '
       '(uncrossable sites, unknown names, end points named in the list, whole routes of 11 route objects) and pairs with a one-hop list on both '
       'requests, against an element-level brute-force search', cases, wit, nontrivial=nontriv, t0=t0)
