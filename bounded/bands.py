"""Bounded stand-in for the band clauses of C07: the band common to all amplifiers of a path is the intersection of their
bands; channels outside it are removed once, every other channel is kept once, in order, with its own data, through
filter_si and through any mix of single- and multi-band amplifiers (each channel amplified by the amplifier of its band)."""
import itertools
import random
import time
from copy import deepcopy
import numpy as np
from bounded.common import args, finish, equipment, EXAMPLE

a = args()
from gnpy.core.elements import Edfa, Multiband_amplifier, Fiber
from gnpy.core.info import create_arbitrary_spectral_information
from gnpy.core.utils import find_common_range, lin2db
from gnpy.tools.json_io import network_from_json, load_equipment
from gnpy.topology.request import filter_si, find_elements_common_range

t0 = time.time()
wit = []
cases = nontriv = 0
rnd = random.Random(a.seed)

# ---- 1. find_common_range against an interval-intersection oracle
GRID = [186.0e12, 187.5e12, 189.0e12, 190.5e12, 191.3e12, 193.0e12, 194.5e12, 196.1e12, 197.0e12]


def oracle(amp_bands):
    """intersection over amplifiers of the union of each amplifier's bands, as sorted disjoint intervals"""
    pts = sorted({x for amp in amp_bands for b in amp for x in (b['f_min'], b['f_max'])})
    out = []
    for lo, hi in zip(pts, pts[1:]):
        mid = (lo + hi) / 2
        if all(any(b['f_min'] <= mid <= b['f_max'] for b in amp) for amp in amp_bands):
            if out and out[-1][1] == lo and any(all(any(b['f_min'] <= lo - 1 and lo + 1 <= b['f_max'] for b in amp) for amp in amp_bands) for _ in [0]):
                out[-1] = (out[-1][0], hi)
            else:
                out.append((lo, hi))
    return out


n1 = 300 if a.tier == 'quick' else 3000
for k in range(n1):
    cases += 1
    amps = []
    for _ in range(rnd.randint(1, 4)):
        nb = rnd.randint(1, 2)
        pts = sorted(rnd.sample(GRID, 2 * nb))
        amps.append([{'f_min': pts[2 * j], 'f_max': pts[2 * j + 1]} for j in range(nb)])
    got = find_common_range(deepcopy(amps), 191.3e12, 196.1e12, 50e9)
    got_iv = [(b['f_min'], b['f_max']) for b in got]
    want = oracle(amps)
    # the implementation keeps touching intervals apart; compare as point sets
    def cover(iv, x):
        return any(lo < x < hi for lo, hi in iv)
    probes = [(p + q) / 2 for p, q in zip(GRID, GRID[1:])]
    if any(cover(got_iv, x) != cover(want, x) for x in probes) or got_iv != sorted(got_iv) or any(lo >= hi for lo, hi in got_iv):
        wit.append({'key': f'common-range:{k}', 'problems': [f'amplifier bands {amps}: common range {got_iv}, intersection {want}']})
    elif want:
        nontriv += 1

# ---- 2. filter_si and multi-band amplifiers on real elements
eq = load_equipment(EXAMPLE / 'eqpt_config_multiband.json')
lib = eq['Edfa']
multi = [k for k, v in lib.items() if getattr(v, 'type_def', '') == 'multi_band'][:2]
singles_c = [k for k, v in lib.items() if getattr(v, 'type_def', '') != 'multi_band' and v.f_min > 190e12 and k.startswith('std_')][:2]


def amp_json(uid, variety, gain=20.0):
    if variety in multi:
        return {'uid': uid, 'type': 'Multiband_amplifier', 'type_variety': variety,
                'amplifiers': [{'type_variety': m, 'operational': {'gain_target': gain, 'tilt_target': 0, 'out_voa': 0, 'delta_p': 0}}
                               for m in lib[variety].multi_band]}
    return {'uid': uid, 'type': 'Edfa', 'type_variety': variety, 'operational': {'gain_target': gain, 'tilt_target': 0, 'out_voa': 0, 'delta_p': 0}}


def spectrum(freqs, widths):
    n = len(freqs)
    return create_arbitrary_spectral_information(frequency=freqs, pch=[1e-7 * (1 + 0.1 * i) for i in range(n)], baud_rate=[0.6 * w for w in widths],
                                                 slot_width=widths, tx_osnr=[30 + i for i in range(n)], tx_power=[1e-7 * (1 + 0.1 * i) for i in range(n)],
                                                 label=[f'ch{i}' for i in range(n)], delta_pdb_per_channel=[0.1 * i for i in range(n)])


def inside(f, w, bands):
    return any(f - w / 2 >= b['f_min'] and f + w / 2 <= b['f_max'] for b in bands)


mixes = [[multi[0]], [multi[0], multi[0]], [multi[0], singles_c[0]], [singles_c[0], multi[0]], [singles_c[0]], [singles_c[0], singles_c[-1]]]
for mix in mixes:
    topo = {'elements': [amp_json(f'amp{i}', v) for i, v in enumerate(mix)], 'connections': []}
    els = {n.uid: n for n in network_from_json(topo, eq).nodes()}
    path = [els[f'amp{i}'] for i in range(len(mix))]
    common = find_elements_common_range(path, eq)
    amp_union = [[dict(b) for b in e.params.bands] for e in path]
    for trial in range(6 if a.tier == 'quick' else 40):
        cases += 1
        # channels at band edges (just inside / just outside / straddling), in the gap between bands, and well inside
        edges = sorted({x for amp in amp_union for b in amp for x in (b['f_min'], b['f_max'])})
        freqs, widths = [], []
        # per trial one family of positions relative to every band edge: clearly inside/outside, exactly touching the edge with
        # the slot border, straddling the edge by 10 GHz or by 1 MHz on either side
        fam = [(-60e9, -25e9, 25e9, 60e9), (-10e9,), (10e9,), (-25e9 + 1e6,), (25e9 - 1e6,), (-60e9, -25e9 - 1e6, 25e9 + 1e6, 60e9)][trial % 6]
        for e in edges:
            for off in fam:
                freqs.append(e + off)
                widths.append(50e9)
        freqs += [188e12 + 100e9 * j for j in range(3)] + [193e12 + 100e9 * j for j in range(4)]
        widths += [75e9] * 3 + [50e9, 50e9, 37.5e9, 37.5e9]
        order = sorted(range(len(freqs)), key=lambda i: freqs[i])
        freqs, widths = [freqs[i] for i in order], [widths[i] for i in order]
        keep = [0]
        for i in range(1, len(freqs)):       # drop overlapping slots (the constructor rightly rejects them)
            if freqs[i] - widths[i] / 2 >= freqs[keep[-1]] + widths[keep[-1]] / 2:
                keep.append(i)
        freqs, widths = [freqs[i] for i in keep], [widths[i] for i in keep]
        shuffled = list(range(len(freqs)))
        rnd.shuffle(shuffled)
        si = spectrum([freqs[i] for i in shuffled], [widths[i] for i in shuffled])
        ref = {round(f): (w, lab, osnr) for f, w, lab, osnr in zip(si.frequency, si.slot_width, si.label, si.tx_osnr)}
        want = [round(f) for f, w in zip(si.frequency, si.slot_width) if inside(f, w, common)]
        prob = []
        try:
            out = filter_si(path, eq, deepcopy(si))
            got = [round(f) for f in out.frequency]
            if got != want:
                prob.append(f'filter_si kept {len(got)} channels, the common band {[(b["f_min"], b["f_max"]) for b in common]} holds {len(want)}: '
                            f'missing {sorted(set(want) - set(got))[:3]}, extra {sorted(set(got) - set(want))[:3]}, duplicates {len(got) - len(set(got))}')
            elif any(ref[g] != (w, lab, osnr) for g, w, lab, osnr in zip(got, out.slot_width, out.label, out.tx_osnr)):
                prob.append('filter_si: a kept channel does not carry its own slot width / label / tx OSNR')
            else:
                nontriv += 1
                # through the amplifiers: the channel set is unchanged and each channel is amplified by its band's amplifier
                pin = {round(f): p for f, p in zip(out.frequency, out.signal)}
                cur = out
                for el in path:
                    cur = el(cur)
                got2 = [round(f) for f in cur.frequency]
                if got2 != want:
                    prob.append(f'after the amplifiers {len(got2)} channels, expected {len(want)} (order / once each)')
                else:
                    g_db = [lin2db(s / pin[f]) for f, s in zip(got2, cur.signal)]
                    tot = sum(20.0 for _ in path)
                    if any(abs(g - tot) > 1.5 for g in g_db):
                        prob.append(f'a channel is not amplified by the gain of its band amplifiers: gains {np.round(g_db, 2).tolist()[:8]} dB, set {tot} dB')
                    if any(ref[f][1] != lab for f, lab in zip(got2, cur.label)):
                        prob.append('labels not carried through the amplifiers')
        except ValueError as e:
            if want:
                prob.append(f'ValueError {e} although {len(want)} channels are in the common band')
        if prob:
            wit.append({'key': f'{mix}:{trial}', 'problems': prob[:3]})
# ---- 3. user spectrum partitions: every carrier of the document is launched once, overlapping partitions are rejected
from gnpy.tools.json_io import _spectrum_from_json
from gnpy.core.info import carriers_to_spectral_information
from gnpy.core.exceptions import SpectrumError
for w1, w2 in itertools.product((50e9, 75e9, 37.5e9), repeat=2):
    for k1 in (1, 4):
        f1 = 193.0e12
        last1 = f1 + (k1 - 1) * w1
        # start of the second partition relative to the edge where the two slots just touch
        touch = last1 + w1 / 2 + w2 / 2
        for label, f2 in (('gap', touch + 12.5e9), ('touching', touch), ('overlapping by 6.25 GHz', touch - 6.25e9),
                          ('second starts on the last carrier of the first', last1), ('half a slot before the edge', touch - w2 / 2)):
            for listed_reversed in (False, True):
                cases += 1
                nontriv += 1
                parts = [{'f_min': f1, 'f_max': last1, 'baud_rate': 28e9, 'slot_width': w1, 'roll_off': 0.15, 'tx_osnr': 40},
                         {'f_min': f2, 'f_max': f2 + 2 * w2, 'baud_rate': 30e9, 'slot_width': w2, 'roll_off': 0.15, 'tx_osnr': 38}]
                if listed_reversed:
                    parts.reverse()
                want_freqs = [f1 + i * w1 for i in range(k1)] + [f2 + i * w2 for i in range(3)]
                overlap = f2 - w2 / 2 < last1 + w1 / 2 - 1.0
                prob = []
                try:
                    sp = _spectrum_from_json(deepcopy(parts))
                    si = carriers_to_spectral_information(initial_spectrum=sp, power=1e-3)
                    if overlap:
                        prob.append(f'accepted although the slot of {last1 * 1e-12:.5f} THz ({w1 * 1e-9} GHz) and the slot of {f2 * 1e-12:.5f} THz '
                                    f'({w2 * 1e-9} GHz) overlap: {len(sp)} carriers for {len(want_freqs)} in the document')
                    elif not np.allclose(sorted(sp), want_freqs, rtol=0, atol=1.0) or not np.allclose(si.frequency, want_freqs, rtol=0, atol=1.0):
                        prob.append(f'launched {sorted(sp)} instead of {want_freqs}')
                    elif [c.slot_width for _, c in sorted(sp.items())] != [w1] * k1 + [w2] * 3:
                        prob.append('carriers do not keep the slot width of their partition')
                except (ValueError, SpectrumError) as e:
                    if not overlap:
                        prob.append(f'rejected although no slots overlap: {type(e).__name__} {str(e)[:120]}')
                if prob:
                    wit.append({'key': f'user-spectrum:{w1 * 1e-9}/{w2 * 1e-9} GHz:{k1} carriers:{label}:{"reversed" if listed_reversed else "in order"}',
                                'problems': prob})
finish('common band = intersection; out-of-band channels removed once, the others kept once in order with their data through single / multi-band amplifiers',
       'bounded', 'gnpy.core.utils.find_common_range, gnpy.topology.request.filter_si / find_elements_common_range, gnpy.core.elements.Multiband_amplifier.__call__',
       f'{n1} random amplifier band sets on a 9-point frequency grid; 6 amplifier mixes from eqpt_config_multiband.json (multi-band, C-band, mixed, two in a row) '
       'x spectra with channels just inside / outside / straddling every band edge, in the gap and inside, supplied in shuffled order; user spectra of two '
       'partitions (3 x 3 slot widths, 1 or 4 carriers, gap / touching / overlapping / same carrier, listed in both orders)', cases, wit,
       nontrivial=nontriv, t0=t0)
