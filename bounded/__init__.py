"""Bounded stand-ins: the real functions run natively under run-time contracts over exhaustively enumerated small
scopes.  Never counted as discharged obligations."""
