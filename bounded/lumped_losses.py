"""Bounded check of the ASSUMED contract of RamanSolver._create_lumped_losses + cumprod (C05)."""
import itertools
import time
import numpy as np
from bounded.common import args, finish

a = args()
from gnpy.core.science_utils import RamanSolver

t0 = time.time()
L = 80e3
grid = [10e3, 20e3, 40e3, 60e3, 70e3]
losses = [0.5, 0.8, 0.9]
wit = []
cases = nontriv = 0
for k in range(0, 4):
    for pos in itertools.product(grid, repeat=k):
        for ls in itertools.product(losses, repeat=k):
            if k == 3 and ls != tuple(sorted(ls)) and a.tier == 'quick':
                continue
            cases += 1
            for z in (np.array([0, L]), np.append(np.arange(0, L, 15e3), L)):
                z2, l2 = RamanSolver._create_lumped_losses(z, np.array(ls, dtype=float), np.array(pos, dtype=float))
                acc = np.cumprod(l2)
                want = float(np.prod(ls)) if k else 1.0
                ok = len(z2) == len(l2) and z2[-1] == L and z2[0] == 0 and all(np.diff(z2) > 0) \
                    and abs(acc[-1] - want) <= 1e-12
                # every loss is applied at its own position: cumulative product just after each position
                dup = len(set(pos)) != len(pos)
                if not dup:
                    nontriv += 1
                    for p_, l_ in zip(pos, ls):
                        i = list(z2).index(p_)
                        before = acc[i - 1] if i else 1.0
                        ok = ok and abs(acc[i] / before - l_) <= 1e-12
                if not ok:
                    wit.append({'key': 'duplicate-positions' if dup else f'lumped:{pos}:{ls}', 'positions': pos, 'losses': ls,
                                'applied_total': float(acc[-1]), 'expected_total': want})
                    break
seen = set()
wit = [w for w in sorted(wit, key=lambda w: w['key'] == 'duplicate-positions') if not (w['key'] in seen or seen.add(w['key']))]
finish('lumped losses merged into the position grid, each applied once', 'bounded',
       'gnpy.core.science_utils.RamanSolver._create_lumped_losses (+ numpy.cumprod)',
       'all tuples of 0..3 lumped losses at positions {10,20,40,60,70} km of an 80 km fibre, losses {0.5,0.8,0.9}, two z grids',
       cases, wit, nontrivial=nontriv, t0=t0)
