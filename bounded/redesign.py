"""Bounded stand-in for C17: export -> reload -> redesign is a fixed point (to the export's rounding), designing the same
input twice gives identical output, and auto-design leaves the process-wide simulation parameters as it found them."""
import itertools
import json
import time
from copy import deepcopy
import numpy as np
from bounded.common import args, finish, mesh, design, equipment, TOPOLOGIES, fiber, edfa

a = args()
from gnpy.core.elements import Edfa, Fiber, Roadm, Transceiver, RamanFiber
from gnpy.core.parameters import SimParams
from gnpy.core.info import create_input_spectral_information
from gnpy.tools.json_io import network_to_json, network_from_json
import networkx as nx

t0 = time.time()
wit = []
cases = 0
skipped = []
TOL = 2e-6            # exports round gains/targets to 6 decimals or coarser


def flatten(x, pre=''):
    if isinstance(x, dict):
        for k, v in x.items():
            yield from flatten(v, f'{pre}.{k}')
    elif isinstance(x, list):
        for i, v in enumerate(x):
            yield from flatten(v, f'{pre}[{i}]')
    else:
        yield pre, x


def diff(j1, j2, tol):
    e1 = {e['uid']: e for e in j1['elements']}
    e2 = {e['uid']: e for e in j2['elements']}
    out = []
    if sorted(e1) != sorted(e2):
        out.append(f'element sets differ: {sorted(set(e1) ^ set(e2))[:4]}')
    c1 = sorted((c['from_node'], c['to_node']) for c in j1['connections'])
    c2 = sorted((c['from_node'], c['to_node']) for c in j2['connections'])
    if c1 != c2:
        out.append('connections differ')
    for u in e1:
        if u not in e2:
            continue
        f1, f2 = dict(flatten(e1[u])), dict(flatten(e2[u]))
        for k in sorted(set(f1) | set(f2)):
            x, y = f1.get(k, '<absent>'), f2.get(k, '<absent>')
            if isinstance(x, (int, float)) and isinstance(y, (int, float)) and not isinstance(x, bool) and not isinstance(y, bool):
                if abs(x - y) > tol:
                    out.append(f'{u}{k}: {x} -> {y}')
            elif x != y:
                out.append(f'{u}{k}: {x!r} -> {y!r}')
    return out


def gsnr(net, eqpt):
    """reference propagation between the first pair of transceivers"""
    trx = sorted((n for n in net.nodes() if isinstance(n, Transceiver)), key=lambda n: n.uid)
    res = []
    for s, d in ((trx[0], trx[-1]), (trx[-1], trx[0])):
        try:
            p = nx.dijkstra_path(net, s, d, weight='weight')
        except nx.NetworkXNoPath:
            continue
        p = deepcopy(p)
        si_p = eqpt['SI']['default']
        si = create_input_spectral_information(f_min=si_p.f_min, f_max=si_p.f_max, roll_off=si_p.roll_off, baud_rate=si_p.baud_rate,
                                               spacing=si_p.spacing, tx_osnr=si_p.tx_osnr, tx_power=1e-3 * 10 ** (si_p.power_dbm / 10))
        for i, el in enumerate(p):
            if isinstance(el, Roadm):
                si = el(si, degree=p[i + 1].uid, from_degree=p[i - 1].uid)
            else:
                si = el(si)
        res.append(np.asarray(p[-1].snr_01nm))
    return res


def element_state(net):
    """the settings of the element objects themselves (an export can omit a setting in both rounds and still look stable)"""
    out = {}
    for n in net.nodes():
        d = {'class': type(n).__name__}
        if isinstance(n, Fiber):
            p = n.params
            d.update(length=p.length, att_in=p.att_in, con_in=p.con_in, con_out=p.con_out, pmd_coef=p.pmd_coef,
                     loss_coef=np.round(np.atleast_1d(p.loss_coef), 12).tolist(), lumped=[(l['position'], l['loss']) for l in p.lumped_losses],
                     loss=n.loss, dispersion=np.round(np.atleast_1d(p.dispersion), 15).tolist(), effective_area=p._effective_area)
        if isinstance(n, Edfa):
            d.update(variety=n.params.type_variety, gain=n.effective_gain, delta_p=n.delta_p, out_voa=n.out_voa, in_voa=n.in_voa, tilt=n.tilt_target)
        if isinstance(n, Roadm):
            d.update(pch=n.target_pch_out_dbm, psd=n.target_psd_out_mWperGHz, psw=n.target_out_mWperSlotWidth,
                     per_degree=[sorted(n.per_degree_pch_out_dbm.items()), sorted(n.per_degree_pch_psd.items()), sorted(n.per_degree_pch_psw.items())])
        out[n.uid] = d
    return out


def state_diff(s1, s2, tol):
    out = []
    for u in sorted(set(s1) | set(s2)):
        a, b = s1.get(u), s2.get(u)
        if a is None or b is None:
            out.append(f'{u}: only in one design')
            continue
        for k in a:
            x, y = a[k], b.get(k)
            if isinstance(x, (int, float)) and isinstance(y, (int, float)) and not isinstance(x, bool):
                if abs(x - y) > tol * max(abs(x), abs(y)) + 1e-30 and not (abs(x) < 1e-9 and abs(y) < 1e-9 and k not in ('pmd_coef',)):
                    out.append(f'{u}.{k}: {x} -> {y}')
            elif x != y:
                out.append(f'{u}.{k}: {x!r} -> {y!r}')
    return out


def run(topo, eq, key, rounds=2):
    global cases
    cases += 1
    try:
        net1, e1 = design(deepcopy(topo), deepcopy(eq))
        netb, _ = design(deepcopy(topo), deepcopy(eq))
    except Exception as e:      # configuration rejected: nothing to repeat
        skipped.append(f'{key}: {type(e).__name__}: {e}'[:160])
        return
    j1 = network_to_json(net1)
    jb = network_to_json(netb)
    d = diff(j1, jb, 0)
    if d:
        wit.append({'key': f'{key}:same-input-twice', 'problems': d[:5]})
    g1 = gsnr(net1, e1)
    j = j1
    for r in range(rounds):
        net2, e2 = design(json.loads(json.dumps(j)), deepcopy(eq))
        j2 = network_to_json(net2)
        d = diff(j, j2, TOL)
        if not d:
            d = ['element objects: ' + x for x in state_diff(element_state(net1), element_state(net2), 2e-6)]
        if d:
            eol = eq['Span']['default'].EOL
            if eol and any('.params.con_out' in x and abs(float(x.rsplit(' -> ', 1)[1]) - float(x.rsplit(': ', 1)[1].split(' -> ')[0]) - eol) < 1e-9
                           for x in d):
                # known finding F12: the end-of-life margin is added to con_out again on every reload + redesign
                wit.append({'key': 'eol-margin-added-again-on-reload', 'problems': d[:5]})
            elif d and all(x.startswith('element objects: ') and ('.dispersion:' in x or '.effective_area:' in x) for x in d):
                # known finding F51: Fiber.to_json exports no element-level dispersion / effective area / gamma
                wit.append({'key': 'element-level-fibre-parameters-not-exported', 'problems': d[:5]})
            else:
                wit.append({'key': f'{key}:round{r + 1}', 'problems': d[:5]})
            break
        g2 = gsnr(net2, e2)
        if len(g1) != len(g2) or any(a_.shape != b_.shape or np.max(np.abs(a_ - b_)) > 1e-4 for a_, b_ in zip(g1, g2)):
            wit.append({'key': f'{key}:round{r + 1}:propagation', 'problems': ['GSNR of the reloaded design differs by more than 1e-4 dB']})
            break
        j = j2


names = ['line2', 'ring3', 'star4'] if a.tier == 'quick' else ['line2', 'line3', 'ring3', 'star4', 'mesh4']
span_sets = [[80], [20, 80, 120], [0.001, 160], [5]] if a.tier == 'quick' else [[80], [20, 80, 120], [0.001, 160], [5], [1200], [40, 40, 40]]
for name in names:
    sites, links = TOPOLOGIES[name]
    for sp, junction, gain_mode, voa_auto in itertools.product(span_sets, ('none', 'edfa', 'fused'), (False, True), (False, True)):
        if junction != 'none' and len(sp) == 1:
            continue
        if voa_auto and (gain_mode or name not in ('line2', 'ring3')):
            continue
        eq = equipment()
        eq['Span']['default'].power_mode = not gain_mode
        if voa_auto:
            for amp in eq['Edfa'].values():
                amp.out_voa_auto = True
        topo = mesh(sites, links, spans={l: sp for l in links}, junction=junction)
        run(topo, eq, f'{name}:{sp}:{junction}:{"gain" if gain_mode else "power"}:{"voa_auto" if voa_auto else "stock"}')
# user settings mixed with missing ones; per-degree targets; delta_p range
for variant in ('per_degree', 'per_degree_psw', 'lumped', 'user_gain', 'user_delta_p', 'raman', 'delta_power_range', 'eol', 'fibre_overrides',
                'design_band', 'multiband_in_voa', 'multiband_zero_gain'):
    eq = equipment()
    sites, links = TOPOLOGIES['ring3']
    rp = {'A': {'per_degree_pch_out_db': {'east edfa in roadm A to roadm B': -17.5}}} if variant == 'per_degree' else None
    topo = mesh(sites, links, spans={l: [60, 90] for l in links}, junction='edfa', roadm_params=None)
    if variant == 'per_degree':
        for e in topo['elements']:
            if e['uid'] == 'roadm A':
                e['params'] = {'target_pch_out_db': -19, 'per_degree_pch_out_db': {'fiber (A -> B)-0': -17.5}}
    if variant == 'per_degree_psw':
        for e in topo['elements']:
            if e['uid'] == 'roadm A':
                e['params'] = {'target_psd_out_mWperGHz': 2.5e-4, 'per_degree_psd_out_mWperSlotWidth': {'fiber (A -> B)-0': 1.8e-4},
                               'per_degree_psd_out_mWperGHz': {'fiber (A -> C)-0': 3.0e-4}}
    if variant == 'fibre_overrides':
        # a fibre element that overrides the dispersion and effective area of its library type (known finding F51: not exported)
        for e in topo['elements']:
            if e['uid'] == 'fiber (A -> B)-1':
                e['params'].update({'dispersion': 4e-6, 'effective_area': 50e-12})
    if variant == 'design_band':
        for e in topo['elements']:
            if e['type'] == 'Roadm':
                e['params'] = {'design_bands': [{'f_min': 192.0e12, 'f_max': 195.0e12, 'spacing': 50e9}]}
    if variant == 'multiband_in_voa':
        CL_ = [{'f_min': 191.3e12, 'f_max': 196.0e12, 'spacing': 50e9}, {'f_min': 186.6e12, 'f_max': 190.0e12, 'spacing': 50e9}]
        eq = equipment('eqpt_config_multiband.json')
        topo = mesh(sites, links, spans={l: [70] for l in links}, roadm_params={x: {'design_bands': CL_} for x in sites})
        first = design(deepcopy(topo), deepcopy(eq))[0]
        topo = network_to_json(first)
        for e in topo['elements']:
            if e['type'] == 'Multiband_amplifier' and 'preamp' in e['uid']:
                for amp_ in e['amplifiers']:
                    amp_['operational'] = {'gain_target': None, 'delta_p': None, 'tilt_target': None, 'out_voa': None, 'in_voa': 2.0}
    if variant == 'multiband_zero_gain':
        # gain mode, an operator gain of exactly 0 dB on the band amplifiers of the preamps: a setting like any other
        CL_ = [{'f_min': 191.3e12, 'f_max': 196.0e12, 'spacing': 50e9}, {'f_min': 186.6e12, 'f_max': 190.0e12, 'spacing': 50e9}]
        eq = equipment('eqpt_config_multiband.json')
        eq['Span']['default'].power_mode = False
        topo = mesh(sites, links, spans={l: [70] for l in links}, roadm_params={x: {'design_bands': CL_} for x in sites})
        first = design(deepcopy(topo), deepcopy(eq))[0]
        topo = network_to_json(first)
        for e in topo['elements']:
            if e['type'] == 'Multiband_amplifier' and 'preamp' in e['uid']:
                for amp_ in e['amplifiers']:
                    amp_['operational'] = {'gain_target': 0.0, 'delta_p': None, 'tilt_target': 0.0, 'out_voa': 0.0, 'in_voa': 0.0}
    if variant == 'lumped':
        for e in topo['elements']:
            if e['uid'] == 'fiber (A -> B)-1':
                e['params']['lumped_losses'] = [{'position': 20, 'loss': 1.5}, {'position': 45.5, 'loss': 0.5}]
                e['params']['pmd_coef'] = 3.1e-15
    if variant in ('user_gain', 'user_delta_p'):
        k = 0
        for e in topo['elements']:
            if e['type'] == 'Edfa':
                k += 1
                e['operational'] = {'gain_target': 17.0 + k, 'tilt_target': 0, 'out_voa': 1.0} if variant == 'user_gain' and k % 2 else \
                    ({'delta_p': 0.5 * (k % 3) - 1, 'gain_target': None, 'tilt_target': 0, 'out_voa': None} if variant == 'user_delta_p' else {})
                if not e['operational']:
                    del e['operational']
    if variant == 'raman':
        for e in topo['elements']:
            if e['uid'] == 'fiber (A -> B)-1':
                e['type'] = 'RamanFiber'
                e['params']['pmd_coef'] = 2.5e-15       # the element's own PMD coefficient, not the library's
                e['operational'] = {'temperature': 283, 'raman_pumps': [
                    {'power': 0.2, 'frequency': 205e12, 'propagation_direction': 'counterprop'},
                    {'power': 0.2, 'frequency': 201e12, 'propagation_direction': 'counterprop'}]}
            if e['uid'] == 'edfa (A -> B)-0':
                # an amplifier without delta_p in front of a RamanFiber cannot be designed at all (TypeError in
                # estimate_raman_gain: no input power is handed down by target_power) - see known finding F24
                e['operational'] = {'delta_p': 0.0, 'gain_target': None, 'tilt_target': 0, 'out_voa': None}
    if variant == 'eol':
        eq['Span']['default'].EOL = 1.5
    if variant == 'delta_power_range':
        eq['Span']['default'].delta_power_range_db = [-2, 3, 0.5]
    if variant == 'raman':
        settings = [{}, {'raman_params': {'flag': True, 'result_spatial_resolution': 10e3, 'solver_spatial_resolution': 50},
                         'nli_params': {'method': 'ggn_spectrally_separated', 'dispersion_tolerance': 1, 'phase_shift_tolerance': 0.1,
                                        'computed_channels': [1, 18, 37, 56, 75]}},
                    {'nli_params': {'method': 'gn_model_analytic', 'computed_number_of_channels': 9}},
                    {'raman_params': {'flag': True, 'method': 'numerical', 'order': 1, 'result_spatial_resolution': 20e3,
                                      'solver_spatial_resolution': 200},
                     'nli_params': {'method': 'ggn_approx', 'dispersion_tolerance': 2, 'phase_shift_tolerance': 0.2,
                                    'computed_number_of_channels': 5}}]
        for st in settings:
            cases += 1
            SimParams.set_params(deepcopy(st))
            before = (SimParams().nli_params.to_json(), SimParams().raman_params.to_json(),
                      dict(vars(SimParams().nli_params)), dict(vars(SimParams().raman_params)))
            design(deepcopy(topo), deepcopy(eq))
            after = (SimParams().nli_params.to_json(), SimParams().raman_params.to_json(),
                     dict(vars(SimParams().nli_params)), dict(vars(SimParams().raman_params)))
            if before != after:
                wit.append({'key': f'sim-params:{json.dumps(st, sort_keys=True)[:80]}',
                            'problems': [f'before {before[2:]} after {after[2:]}'[:500]]})
        SimParams.set_params({})
    run(topo, eq, f'ring3:{variant}', rounds=3)
finish('design is repeatable: same input twice, export/reload/redesign fixed point, SimParams untouched', 'bounded',
       'gnpy.tools.worker_utils.designed_network, gnpy.tools.json_io.network_to_json / network_from_json, gnpy.core.network.estimate_raman_gain',
       f'topologies {names} x spans {span_sets} x junction none/edfa/fused x power/gain mode x out_voa_auto; ring3 variants: per-degree '
       'targets, user gain, user delta_p, RamanFiber under 4 SimParams settings, delta power range; 2-3 export/reload rounds, tolerance 2e-6',
       cases, wit, t0=t0, detail={'configurations the design refuses (not judged)': skipped})
