"""Bounded stand-in for the clause 'designing the same input twice gives identical output' of C17 across interpreter runs: the
same topology and library are designed in fresh python processes started with different string-hash seeds (the one source of
run-to-run variation inside CPython: set / dict-of-set ordering) and the exported designs are compared."""
import json
import os
import subprocess
import sys
import time
from bounded.common import args, finish, mesh, design, EXAMPLE, REPO

a = args()
CL = [{'f_min': 191.3e12, 'f_max': 196.0e12, 'spacing': 50e9}, {'f_min': 186.6e12, 'f_max': 190.0e12, 'spacing': 50e9}]


def scenario(name):
    from gnpy.tools.json_io import load_json, _equipment_from_json, DEFAULT_EXTRA_CONFIG
    if name == 'single-band mesh, default library':
        from bounded.common import equipment, TOPOLOGIES
        sites, links = TOPOLOGIES['mesh4']
        return mesh(sites, links, spans={l: [40, 90] for l in links}), equipment()
    eqj = load_json(EXAMPLE / 'eqpt_config_multiband.json')
    if 'aliases' in name:
        # multi-band types declared under several names: all of them are built on the same band amplifiers
        for e in eqj['Edfa']:
            if e.get('type_def') == 'multi_band':
                e['other_name'] = [e['type_variety'] + sfx for sfx in ('_alias_a', '_rev2', '_zz', '_aa')]
    eq = _equipment_from_json(eqj, DEFAULT_EXTRA_CONFIG)
    topo = mesh(['A', 'B', 'C'], [('A', 'B'), ('B', 'C')], spans={('A', 'B'): [40, 100], ('B', 'C'): [80]},
                junction='edfa' if 'given' in name else 'none', roadm_params={x: {'design_bands': CL} for x in 'ABC'})
    if 'given' in name:
        for e in topo['elements']:
            if e['type'] == 'Edfa':
                e['type'] = 'Multiband_amplifier'
                e['type_variety'] = 'std_medium_gain_multiband_alias_a' if 'aliases' in name else 'std_medium_gain_multiband'
                e.pop('operational', None)
                e['amplifiers'] = []
    return topo, eq


SCENARIOS = ['single-band mesh, default library', 'multi-band line, shipped library', 'multi-band line, library with aliases',
             'multi-band line, library with aliases, in-line amplifier type given']
if '--child' in sys.argv:
    import logging
    logging.disable(logging.CRITICAL)
    from gnpy.tools.json_io import network_to_json
    topo, eq = scenario(sys.argv[sys.argv.index('--child') + 1])
    net, eq = design(topo, eq)
    print('DESIGN ' + json.dumps(network_to_json(net), sort_keys=True, default=str))
    sys.exit(0)

t0 = time.time()
wit = []
cases = 0
seeds = ['0', '1', '2', '3'] if a.tier == 'quick' else [str(k) for k in range(10)]
for sc in SCENARIOS:
    outs = {}
    for seed in seeds:
        cases += 1
        env = dict(os.environ, PYTHONHASHSEED=seed, PYTHONPATH=f'{REPO}:{os.path.dirname(os.path.dirname(os.path.abspath(__file__)))}', PYVC_REPO=REPO)
        r = subprocess.run([sys.executable, '-m', 'bounded.design_repeatable', '--child', sc], env=env, capture_output=True, text=True,
                           cwd=os.path.dirname(os.path.dirname(os.path.abspath(__file__))))
        line = next((l for l in r.stdout.splitlines() if l.startswith('DESIGN ')), None)
        if line is None:
            wit.append({'key': f'{sc}:hash seed {seed}', 'problems': [f'design failed: {(r.stderr or r.stdout).strip().splitlines()[-1][:300]}']})
            continue
        outs[seed] = json.loads(line[7:])
    ref_seed = next(iter(outs), None)
    for seed, j in outs.items():
        if j != outs[ref_seed]:
            x = {e['uid']: e for e in outs[ref_seed]['elements']}
            diff = [(e['uid'], {k: (x[e['uid']].get(k), e.get(k)) for k in e if x.get(e['uid'], {}).get(k) != e.get(k)})
                    for e in j['elements'] if x.get(e['uid']) != e]
            wit.append({'key': f'{sc}:differs-between-runs',
                        'problems': [f'hash seed {ref_seed} and hash seed {seed} design {len(diff)} elements differently, e.g. {str(diff[0])[:300]}']})
            break
finish('the same input designed in separate interpreter runs gives the same exported design', 'bounded',
       'gnpy.tools.worker_utils.designed_network / gnpy.core.equipment.find_type_variety (through auto-design)',
       f'{len(SCENARIOS)} scenarios (single-band mesh; multi-band line with the shipped library, with alias names for every multi-band type, '
       f'with an in-line amplifier given under an alias) x PYTHONHASHSEED in {seeds}', cases, wit, t0=t0)
