"""Bounded stand-in for C10 on multi-band amplifiers, end to end: synthetic libraries in which several multi-band types share band
amplifiers; the real auto-design must give every multi-band amplifier a type from the permitted set (the ROADM's booster / preamp
variety list, else the types flagged allowed for design), whose band amplifiers each cover their design band, and complete."""
import itertools
import time
from copy import deepcopy
from bounded.common import args, finish

a = args()
from gnpy.core.elements import Multiband_amplifier, Roadm
from gnpy.core.network import build_network, add_missing_elements_in_network
from gnpy.core.utils import automatic_nch, dbm2watt
from gnpy.tools.json_io import _equipment_from_json, network_from_json, DEFAULT_EXTRA_CONFIG
from gnpy.topology.request import PathRequest

t0 = time.time()
wit = []
cases = 0
C_BAND = {'f_min': 191.3e12, 'f_max': 196.0e12, 'spacing': 50e9}
L_BAND = {'f_min': 187.0e12, 'f_max': 190.0e12, 'spacing': 50e9}


def band_amp(name, band, nf_min, gain_flatmax=26, gain_min=15, p_max=23):
    lo, hi = (191.25e12, 196.15e12) if band == 'C' else (186.55e12, 190.05e12)
    return {'type_variety': name, 'type_def': 'variable_gain', 'f_min': lo, 'f_max': hi, 'gain_flatmax': gain_flatmax, 'gain_min': gain_min,
            'p_max': p_max, 'nf_min': nf_min, 'nf_max': nf_min + 4, 'out_voa_auto': False, 'allowed_for_design': False}


def library(groups, allowed, restrictions=None, omit_flag=False):
    """groups: {multi-band type: (C amplifier, L amplifier)}; allowed: the types flagged for design (with omit_flag the others
    carry no allowed_for_design key at all: only types marked true are considered by auto-design)"""
    amps = {'A_C': band_amp('A_C', 'C', 7), 'B_C': band_amp('B_C', 'C', 5), 'D_C': band_amp('D_C', 'C', 6, gain_flatmax=16, gain_min=8),
            'shared_L': band_amp('shared_L', 'L', 6), 'quiet_L': band_amp('quiet_L', 'L', 5), 'small_L': band_amp('small_L', 'L', 5, gain_flatmax=16, gain_min=8)}
    used = sorted({x for g in groups.values() for x in g})
    return {
        'Edfa': [amps[x] for x in used] + [{'type_variety': g, 'type_def': 'multi_band', 'amplifiers': list(m),
                                           **({} if (omit_flag and g not in allowed) else {'allowed_for_design': g in allowed})}
                                          for g, m in groups.items()],
        'Fiber': [{'type_variety': 'SSMF', 'dispersion': 1.67e-05, 'effective_area': 83e-12, 'pmd_coef': 1.265e-15}],
        'Span': [{'power_mode': True, 'delta_power_range_db': [0, 0, 0.5], 'max_fiber_lineic_loss_for_raman': 0.25, 'target_extended_gain': 2.5,
                  'max_length': 150, 'length_units': 'km', 'max_loss': 28, 'padding': 10, 'EOL': 0, 'con_in': 0, 'con_out': 0}],
        'Roadm': [{'target_pch_out_db': -20, 'add_drop_osnr': 38, 'pmd': 0, 'pdl': 0,
                   'restrictions': restrictions or {'preamp_variety_list': [], 'booster_variety_list': []}}],
        'SI': [{'f_min': 191.3e12, 'f_max': 196.0e12, 'baud_rate': 32e9, 'spacing': 50e9, 'power_dbm': 0, 'power_range_db': [0, 0, 0.5],
                'roll_off': 0.15, 'tx_osnr': 100, 'sys_margins': 0}],
        'Transceiver': [{'type_variety': 'trx', 'frequency': {'min': 191.3e12, 'max': 196.0e12},
                         'mode': [{'format': 'm1', 'baud_rate': 32e9, 'OSNR': 11, 'bit_rate': 100e9, 'roll_off': 0.15, 'tx_osnr': 100,
                                   'min_spacing': 37.5e9, 'cost': 1}]}]}


def topology(km):
    fib = lambda uid, length: {'uid': uid, 'type': 'Fiber', 'type_variety': 'SSMF', 'params': {'length': length, 'loss_coef': 0.2, 'length_units': 'km'}}
    els = [{'uid': 'trx A', 'type': 'Transceiver'}, {'uid': 'trx B', 'type': 'Transceiver'},
           {'uid': 'roadm A', 'type': 'Roadm', 'params': {'design_bands': [L_BAND, C_BAND]}},
           {'uid': 'roadm B', 'type': 'Roadm', 'params': {'design_bands': [L_BAND, C_BAND]}},
           fib('fiber A-ILA', km[0]), fib('fiber ILA-B', km[1]), {'uid': 'ILA', 'type': 'Multiband_amplifier'},
           fib('fiber B-A', km[0])]
    cons = [('trx A', 'roadm A'), ('roadm A', 'fiber A-ILA'), ('fiber A-ILA', 'ILA'), ('ILA', 'fiber ILA-B'), ('fiber ILA-B', 'roadm B'),
            ('roadm B', 'trx B'), ('trx B', 'roadm B'), ('roadm B', 'fiber B-A'), ('fiber B-A', 'roadm A'), ('roadm A', 'trx A')]
    return {'elements': els, 'connections': [{'from_node': x, 'to_node': y} for x, y in cons]}


GROUPS = {
    'two types sharing the L amplifier': {'MB_A': ('A_C', 'shared_L'), 'MB_B': ('B_C', 'shared_L')},
    'three types sharing both ways': {'MB_A': ('A_C', 'shared_L'), 'MB_B': ('B_C', 'shared_L'), 'MB_Q': ('A_C', 'quiet_L')},
    'the same pair of band amplifiers under two type names': {'MB_DUP': ('A_C', 'shared_L'), 'MB_A': ('A_C', 'shared_L'), 'MB_B': ('B_C', 'shared_L')},
    'a low-gain type sharing nothing': {'MB_A': ('A_C', 'shared_L'), 'MB_S': ('D_C', 'small_L')},
    'a low-gain type sharing the C amplifier name space': {'MB_A': ('A_C', 'shared_L'), 'MB_S': ('D_C', 'small_L'), 'MB_X': ('D_C', 'shared_L')},
}
for (label, groups), km in itertools.product(GROUPS.items(), ([80, 80], [40, 100], [100, 40]) if a.tier == 'quick' else
                                             ([80, 80], [40, 100], [100, 40], [60, 60], [120, 30], [25, 25])):
    names = list(groups)
    subsets = [s for r in range(1, len(names) + 1) for s in itertools.combinations(names, r)]
    for allowed, how in itertools.product(subsets, ('flag', 'list', 'flag, others without the key')):
        by_list = how == 'list'
        cases += 1
        key = f'{label}:{km} km:permitted {list(allowed)} ' + {'list': '(ROADM variety lists)', 'flag': '(allowed_for_design)'}.get(how, f'({how})')
        restr = {'preamp_variety_list': list(allowed), 'booster_variety_list': list(allowed)} if by_list else None
        # with variety lists every type is flagged for design: only the lists restrict
        lib = library(groups, names if by_list else allowed, restr, omit_flag=how.endswith('key'))
        try:
            eq = _equipment_from_json(deepcopy(lib), DEFAULT_EXTRA_CONFIG)
            net = network_from_json(topology(km), eq)
            ref = PathRequest(power=dbm2watt(0), tx_power=dbm2watt(0), nb_channel=automatic_nch(C_BAND['f_min'], C_BAND['f_max'], C_BAND['spacing']))
            add_missing_elements_in_network(net, eq)
            build_network(net, eq, ref)
        except Exception as e:
            wit.append({'key': key, 'problems': [f'auto-design did not complete: {type(e).__name__}: {e}'[:300]]})
            continue
        prob = []
        for n in net.nodes():
            if not isinstance(n, Multiband_amplifier):
                continue
            inline = n.uid == 'ILA'
            # in-line amplifiers are not next to a ROADM: the allowed-for-design flags decide (all types flagged when lists are used)
            permitted = set(names) if (by_list and inline) else set(allowed)
            if n.type_variety not in permitted:
                prob.append(f'{n.uid}: type {n.type_variety!r} {dict((b, x.params.type_variety) for b, x in n.amplifiers.items())} is not in the permitted set {sorted(permitted)}')
                continue
            members = set(groups[n.type_variety])
            for band, amp in n.amplifiers.items():
                want = C_BAND if band == 'CBAND' else L_BAND
                if amp.params.type_variety not in members:
                    prob.append(f'{n.uid}/{band}: {amp.params.type_variety} is not a band amplifier of {n.type_variety}')
                if not (amp.params.f_min <= want['f_min'] and amp.params.f_max >= want['f_max']):
                    prob.append(f'{n.uid}/{band}: {amp.params.type_variety} does not cover the design band')
        if prob:
            wit.append({'key': key, 'problems': prob[:4]})
# single-band selection: a library entry that does not say allowed_for_design is not a candidate, however quiet it is
for km in ([80], [40, 100], [120]):
    for flagged_nf, unflagged_nf in ((7, 4.5), (5, 6)):
        cases += 1
        key = f'single band:{km} km:flagged NF {flagged_nf}, entry without the key NF {unflagged_nf}'
        lib = library({}, [])
        mk = lambda nm, nf: {k: v for k, v in band_amp(nm, 'C', nf).items() if k != 'allowed_for_design'}
        lib['Edfa'] = [dict(mk('flagged', flagged_nf), allowed_for_design=True), mk('unflagged', unflagged_nf),
                       dict(mk('refused', 4.2), allowed_for_design=False)]
        fib = lambda uid, length: {'uid': uid, 'type': 'Fiber', 'type_variety': 'SSMF', 'params': {'length': length, 'loss_coef': 0.2, 'length_units': 'km'}}
        els = [{'uid': 'trx A', 'type': 'Transceiver'}, {'uid': 'trx B', 'type': 'Transceiver'}, {'uid': 'roadm A', 'type': 'Roadm'},
               {'uid': 'roadm B', 'type': 'Roadm'}] + [fib(f'f{i}', x) for i, x in enumerate(km)] + [fib('back', 80)]
        chain = ['trx A', 'roadm A'] + [f'f{i}' for i in range(len(km))] + ['roadm B', 'trx B']
        cons = list(zip(chain, chain[1:])) + [('trx B', 'roadm B'), ('roadm B', 'back'), ('back', 'roadm A'), ('roadm A', 'trx A')]
        try:
            eq = _equipment_from_json(deepcopy(lib), DEFAULT_EXTRA_CONFIG)
            net = network_from_json({'elements': els, 'connections': [{'from_node': x, 'to_node': y} for x, y in cons]}, eq)
            ref = PathRequest(power=dbm2watt(0), tx_power=dbm2watt(0), nb_channel=automatic_nch(C_BAND['f_min'], C_BAND['f_max'], C_BAND['spacing']))
            add_missing_elements_in_network(net, eq)
            build_network(net, eq, ref)
            from gnpy.core.elements import Edfa as _Edfa
            bad = [f'{n.uid}: {n.params.type_variety}' for n in net.nodes() if isinstance(n, _Edfa) and n.params.type_variety != 'flagged']
            if bad:
                wit.append({'key': key, 'problems': [f'models outside the permitted set [flagged] were selected: {bad[:4]}']})
        except Exception as e:
            wit.append({'key': key, 'problems': [f'auto-design did not complete: {type(e).__name__}: {e}'[:300]]})
finish('multi-band auto-selection: type from the permitted set, band amplifiers of that type covering their design band', 'bounded',
       'gnpy.core.network.preselect_multiband_amps / set_egress_amplifier / get_node_restrictions (through build_network)',
       f'{len(GROUPS)} synthetic libraries of multi-band types sharing band amplifiers x every non-empty permitted subset (by allowed_for_design, '
       'by allowed_for_design with the key absent on the others, by ROADM variety lists) x span pairs; single-band lines with a flagged, an unflagged '
       '(no key) and a refused model', cases, wit, t0=t0)
