"""Bounded stand-in for C16: the figures reported for a request do not depend on the other requests of the batch nor on
their order, and planning leaves the designed network untouched (real planning() pipeline, small designed meshes)."""
import itertools
import json
import random
import time
from copy import deepcopy
import numpy as np
from bounded.common import args, finish, mesh, design, TOPOLOGIES, service, sync

a = args()
from gnpy.core.elements import Roadm, Edfa, Fiber, Transceiver
from gnpy.core.exceptions import ServiceError, DisjunctionError
from gnpy.tools.json_io import network_to_json
from gnpy.tools.worker_utils import planning

t0 = time.time()
wit = []
cases = nontriv = 0
rnd = random.Random(a.seed)
LENS = {('A', 'B'): [80, 80], ('B', 'C'): [50], ('C', 'D'): [70, 90], ('D', 'A'): [90], ('A', 'C'): [100, 100]}


def settings(net):
    """every persistent setting of the designed network that a propagation could disturb"""
    out = {}
    for n in net.nodes():
        d = {'json': json.dumps(n.to_json, sort_keys=True, default=str)}
        if isinstance(n, Edfa):
            d.update(effective_gain=n.effective_gain, delta_p=n.delta_p, out_voa=n.out_voa, in_voa=n.in_voa, tilt_target=n.tilt_target,
                     target_pch_out_dbm=n.target_pch_out_dbm)
        if isinstance(n, Roadm):
            d.update(ref_pch_out_dbm=n.ref_pch_out_dbm, per_degree=json.dumps(n.per_degree_pch_out_dbm, sort_keys=True))
        if isinstance(n, Fiber):
            d.update(con_in=n.params.con_in, con_out=n.params.con_out, att_in=n.params.att_in)
        out[n.uid] = d
    return out


def figures(rq, pth, rpth):
    """what C16 calls the result of a request (spectrum slots excluded)"""
    def rx(p):
        if not p:
            return None
        r = p[-1]
        return {k: (None if getattr(r, k, None) is None else np.round(np.asarray(getattr(r, k), dtype=float), 9).tolist())
                for k in ('snr_01nm', 'osnr_ase_01nm', 'snr', 'osnr_ase', 'osnr_nli', 'total_penalty')}
    return {'route': [e.uid for e in pth], 'mode': rq.tsp_mode, 'baud_rate': rq.baud_rate, 'blocking': getattr(rq, 'blocking_reason', None),
            'rx': rx(pth), 'reverse_rx': rx(rpth), 'reverse_route': [e.uid for e in rpth] if rpth else []}


def plan(net0, eqpt, reqs, syncs=()):
    net = deepcopy(net0)
    before = settings(net)
    data = {'path-request': deepcopy(reqs), 'synchronization': list(syncs)}
    _, pp, rpp, rqs, _, _ = planning(net, deepcopy(eqpt), data)
    after = settings(net)
    changed = {u: {k: (before[u][k], after[u][k]) for k in before[u] if str(before[u][k]) != str(after[u][k])}
               for u in before if str(before[u]) != str(after[u])}
    res = {}
    for rq, p, rp in zip(rqs, pp, rpp):
        res[str(rq.request_id)] = figures(rq, p, rp)
    return res, changed


names = ['ring3', 'mesh4', 'mesh4:short sides'] if a.tier == 'quick' else ['ring3', 'ring4', 'mesh4', 'full4', 'mesh4:short sides']
# the same mesh with short sides and a long diagonal: the two-hop routes are the shortest ones
LENS_SHORT = {('A', 'B'): [50], ('B', 'C'): [50], ('C', 'D'): [60], ('D', 'A'): [60], ('A', 'C'): [100, 100]}
for name in names:
    sites, links = TOPOLOGIES[name.split(':')[0]]
    lens = LENS_SHORT if name.endswith('short sides') else LENS
    topo = mesh(sites, links, spans={l: lens.get(l, lens.get((l[1], l[0]), [80])) for l in links}, junction='edfa')
    net0, eqpt = design(topo)
    s = sites
    pool = {
        'fixed': service('fixed', s[0], s[2], mode='mode 1'),
        'auto': service('auto', s[0], s[1], mode=None),
        'bidir': service('bidir', s[0], s[2], mode='mode 1', bidir=True),
        'bidir2': service('bidir2', s[0], s[1], mode='mode 2', bidir=True, spacing=75e9),
        # dense comb at high power: more total power than the design load, saturates the amplifiers it crosses
        'dense': service('dense', s[0], s[2], mode='mode 1', spacing=37.5e9, nch=126, power=0.002, bidir=True),
        'hot': service('hot', s[1], s[0], mode='mode 1', nch=96, power=0.004),
        'nopath': service('nopath', s[0], s[2], include=[f'roadm {s[0]}', f'roadm {s[1]}', f'roadm {s[0]}'], strict=True),
        # the same end points and the same list of nodes to cross as 'nopath', but as a wish (LOOSE): routed on the shortest path
        'nopath_but_loose': service('nopath_loose', s[0], s[2], include=[f'roadm {s[0]}', f'roadm {s[1]}', f'roadm {s[0]}'], strict=False),
        'infeasible': service('infeasible', s[0], s[2], mode='mode 2', spacing=75e9, power=1e-6),
        'via1': service('via1', s[0], s[2], include=[f'roadm {s[1]}'], strict=True),
        'via_other': service('via_other', s[0], s[2], include=[f'roadm {s[-1]}'], strict=True) if len(s) > 3 else
        service('via_other', s[0], s[2], include=[f'roadm {s[2]}'], strict=True),
        'same_as_fixed_but_loose': service('loose', s[0], s[2], include=[f'roadm {s[1]}'], strict=False),
    }
    alone = {}
    for k, r in pool.items():
        cases += 1
        try:
            res, changed = plan(net0, eqpt, [r])
        except (ServiceError, DisjunctionError) as e:
            alone[k] = ('error', type(e).__name__)
            continue
        alone[k] = res[str(r['request-id'])]
        if changed:
            wit.append({'key': f'{name}:network-changed:alone:{k}', 'changed': {u: c for u, c in list(changed.items())[:3]}})
    keys = [k for k in pool if not isinstance(alone[k], tuple)]
    batches = [list(p) for p in itertools.permutations(['dense', 'fixed', 'bidir'])] + \
        [list(p) for p in itertools.permutations(['hot', 'auto', 'bidir2'])] + \
        [list(p) for p in itertools.permutations(['via1', 'via_other', 'same_as_fixed_but_loose'])] + \
        [['nopath', 'nopath_but_loose', 'fixed'], ['nopath_but_loose', 'fixed', 'nopath'], ['via1', 'nopath_but_loose', 'nopath', 'same_as_fixed_but_loose'],
         ['nopath', 'fixed', 'infeasible', 'auto'], ['infeasible', 'auto', 'fixed', 'nopath'], ['dense', 'hot', 'auto', 'bidir', 'bidir2'],
         ['bidir2', 'bidir', 'auto', 'hot', 'dense']]
    nrand = 6 if a.tier == 'quick' else 30
    for _ in range(nrand):
        batches.append(rnd.sample(keys, rnd.randint(2, min(6, len(keys)))))
    for b in batches:
        b = [k for k in b if k in keys]
        cases += 1
        try:
            res, changed = plan(net0, eqpt, [pool[k] for k in b])
        except Exception as e:
            wit.append({'key': f'{name}:planning-fails-on-the-batch:{b}',
                        'problems': f'{type(e).__name__}: {e} although every request of the batch is answered when planned alone'[:300]})
            continue
        if changed:
            wit.append({'key': f'{name}:network-changed:{b}', 'changed': {u: c for u, c in list(changed.items())[:3]}})
        for k in b:
            rid = str(pool[k]['request-id'])
            if rid not in res:
                wit.append({'key': f'{name}:missing-or-merged:{b}:{k}', 'ids': sorted(res)})
                continue
            nontriv += 1
            if res[rid] != alone[k]:
                diff = {f: (alone[k][f], res[rid][f]) for f in alone[k] if alone[k][f] != res[rid][f]}
                wit.append({'key': f'{name}:depends-on-batch:{b}:{k}', 'alone_vs_batch': json.dumps(diff, default=str)[:600]})
    # the same service document planned twice (the caller's dictionary handed over as it is): same result, document untouched
    from bounded.common import sync as _sync
    doc = {'path-request': [service('a', s[0], s[2]), service('b', s[0], s[2]), service('c', s[0], s[1])],
           'synchronization': [_sync('s', ['a', 'c']), _sync('t', ['b', 'c'])]}
    before = json.dumps(doc, sort_keys=True, default=str)
    cases += 1
    try:
        runs = []
        for _ in range(2):
            _, pp_, _, rqs_, _, _ = planning(deepcopy(net0), deepcopy(eqpt), doc)
            runs.append([(str(r.request_id), [e.uid for e in p_]) for r, p_ in zip(rqs_, pp_)])
        if runs[0] != runs[1]:
            wit.append({'key': f'{name}:same-document-planned-twice', 'problems': f'first {runs[0]} second {runs[1]}'[:400]})
    except Exception as e:
        wit.append({'key': f'{name}:same-document-planned-twice', 'problems': f'{type(e).__name__}: {e!r}'[:200]})
    if json.dumps(doc, sort_keys=True, default=str) != before:
        wit.append({'key': f'{name}:service-document-rewritten-by-planning',
                    'problems': f'synchronisation vectors after planning: {[v["svec"]["request-id-number"] for v in doc["synchronization"]]}'})
    # synchronisation groups that have nothing to do with each other: each group gets the routes and figures it gets when it is
    # planned without the other one, in either order of the groups and of the vectors (ids chosen so that one is a substring of another)
    from bounded.common import sync
    if len(s) >= 4:
        ends = [(s[0], s[2]), (s[1], s[3])]
    else:
        ends = [(s[0], s[2]), (s[0], s[1])]
    for id_x, id_y in ((('1', '2'), ('13', '14')), (('x1', 'x2'), ('y1', 'y2'))):
        # (each group: its two requests between the same end points, or between different ones sharing the source)
        other = [(s[0], x) for x in s[1:]]
        shapes = [((e, e), (f, f)) for e, f in ((ends[0], ends[0]), (ends[0], ends[1]), (ends[1], ends[0]))] + \
            [((ends[0], o1), (ends[0], o2)) for o1, o2 in itertools.permutations(other, 2) if o1 != ends[0] and o2 != ends[0]][:4]
        for ((ax, bx), (ax2, bx2)), ((ay, by), (ay2, by2)) in shapes:
            gx = [service(id_x[0], ax, bx), service(id_x[1], ax2, bx2, mode='mode 2', spacing=75e9)]
            gy = [service(id_y[0], ay, by), service(id_y[1], ay2, by2, mode='mode 2', spacing=75e9)]
            try:
                rx, _ = plan(net0, eqpt, gx, [sync('X', id_x)])
                ry, _ = plan(net0, eqpt, gy, [sync('Y', id_y)])
            except (ServiceError, DisjunctionError):
                continue        # a group that cannot be served on its own is not part of this family
            ref = dict(rx, **ry)
            for reqs, syncs in ((gx + gy, [sync('X', id_x), sync('Y', id_y)]), (gy + gx, [sync('Y', id_y), sync('X', id_x)]),
                                (gx + gy, [sync('Y', id_y), sync('X', id_x)]), ([gx[0], gy[0], gx[1], gy[1]], [sync('X', id_x), sync('Y', id_y)])):
                cases += 1
                key = f'{name}:two-unrelated-groups:{id_x}{(ax, bx), (ax2, bx2)}/{id_y}{(ay, by), (ay2, by2)}:order {[r["request-id"] for r in reqs]}, vectors {[v["synchronization-id"] for v in syncs]}'
                try:
                    res, changed = plan(net0, eqpt, reqs, syncs)
                except (ServiceError, DisjunctionError) as e:
                    wit.append({'key': key, 'problems': f'{type(e).__name__} although each group is served when planned without the other'})
                    continue
                nontriv += 1
                diff = {rid: {f: (ref[rid][f], res.get(rid, {}).get(f)) for f in ref[rid] if res.get(rid, {}).get(f) != ref[rid][f]}
                        for rid in ref if res.get(rid) != ref[rid]}
                if diff:
                    wit.append({'key': key, 'alone_vs_batch': json.dumps(diff, default=str)[:600]})
finish('request results independent of batch content/order; network settings untouched by planning', 'bounded',
       'gnpy.tools.worker_utils.planning -> compute_path_with_disjunction / requests_aggregation',
       f'topologies {names}, 12 request kinds (fixed/auto mode, bidirectional, dense saturating comb, high power, blocked, infeasible, '
       f'route constraints), all orders of 3 triples + mixed batches + {nrand} random batches; two unrelated synchronisation groups in 4 orders', cases, wit, nontrivial=nontriv, t0=t0)
