"""Shared helpers of the bounded stand-ins (run under /venv/bin/python with PYTHONPATH=/repo)."""
import argparse
import itertools
import json
import os
import sys
import time
from copy import deepcopy
from pathlib import Path

REPO = os.environ.get('PYVC_REPO', '/repo')
if REPO not in sys.path:
    sys.path.insert(0, REPO)
EXAMPLE = Path(REPO) / 'gnpy' / 'example-data'
TESTDATA = Path(REPO) / 'tests' / 'data'


def args():
    ap = argparse.ArgumentParser()
    ap.add_argument('--tier', default='quick')
    ap.add_argument('--seed', type=int, default=0)
    return ap.parse_known_args()[0]


def finish(name, kind, function, bound, cases, witnesses, nontrivial=None, t0=None, detail=None):
    out = {'name': name, 'kind': kind, 'function': function, 'bound': bound, 'cases': cases,
           'status': 'violated' if witnesses else 'passed', 'witnesses': witnesses[:8],
           'nontrivial': nontrivial if nontrivial is not None else cases, 'detail': detail}
    print(json.dumps(out, default=str))
    sys.exit(0)


_EQPT = {}


def equipment(name='eqpt_config.json', base=None):
    from gnpy.tools.json_io import load_equipment
    key = (name, str(base))
    if key not in _EQPT:
        _EQPT[key] = load_equipment((base or EXAMPLE) / name)
    return deepcopy(_EQPT[key])


def trx(uid):
    return {'uid': uid, 'type': 'Transceiver', 'metadata': {'location': {'city': uid, 'region': '', 'latitude': 0, 'longitude': 0}}}


def roadm(uid, **params):
    d = {'uid': uid, 'type': 'Roadm', 'metadata': {'location': {'city': uid, 'region': '', 'latitude': 0, 'longitude': 0}}}
    if params:
        d['params'] = params
    return d


def fiber(uid, length_km, typ='Fiber', variety='SSMF', **params):
    p = {'length': length_km, 'loss_coef': 0.2, 'length_units': 'km', 'att_in': 0, 'con_in': 0, 'con_out': 0}
    p.update(params)
    return {'uid': uid, 'type': typ, 'type_variety': variety, 'params': p,
            'metadata': {'location': {'city': uid, 'region': '', 'latitude': 0, 'longitude': 0}}}


def fused(uid, loss=1):
    return {'uid': uid, 'type': 'Fused', 'params': {'loss': loss},
            'metadata': {'location': {'city': uid, 'region': '', 'latitude': 0, 'longitude': 0}}}


def edfa(uid, variety=None, operational=None):
    d = {'uid': uid, 'type': 'Edfa', 'metadata': {'location': {'city': uid, 'region': '', 'latitude': 0, 'longitude': 0}}}
    if variety:
        d['type_variety'] = variety
    if operational is not None:
        d['operational'] = operational
    return d


def mesh(sites, links, spans=None, junction='none', span_km=80, roadm_params=None, amp_variety=None, passive_links=()):
    """topology JSON: sites = ['A','B',..] (one ROADM + one transceiver each); links = [('A','B'), ..] undirected,
    each built as two directed lines of `spans` fibre spans (list of km) joined by `junction` elements."""
    els, cons = [], []
    for s in sites:
        els += [trx(f'trx {s}'), roadm(f'roadm {s}', **((roadm_params or {}).get(s, {})))]
        cons += [(f'trx {s}', f'roadm {s}'), (f'roadm {s}', f'trx {s}')]
    for a, b in links:
        for x, y in ((a, b), (b, a)):
            sp = (spans or {}).get((a, b), (spans or {}).get((b, a), [span_km]))
            prev = f'roadm {x}'
            if (a, b) in passive_links or (b, a) in passive_links:
                # an unamplified line: roadm -> fused -> fibre -> fused -> roadm (auto-design adds no amplifier next to a Fused)
                names = [f'fused out ({x} -> {y})', f'fiber ({x} -> {y})-0', f'fused in ({x} -> {y})']
                els += [fused(names[0], 0.5), fiber(names[1], sp[0]), fused(names[2], 0.5)]
                cons += [(prev, names[0]), (names[0], names[1]), (names[1], names[2]), (names[2], f'roadm {y}')]
                continue
            for k, km in enumerate(sp):
                fu = f'fiber ({x} -> {y})-{k}'
                els.append(fiber(fu, km))
                cons.append((prev, fu))
                prev = fu
                if k < len(sp) - 1:
                    if junction == 'fused':
                        ju = f'fused ({x} -> {y})-{k}'
                        els.append(fused(ju))
                        cons.append((prev, ju))
                        prev = ju
                    elif junction == 'edfa':
                        ju = f'edfa ({x} -> {y})-{k}'
                        els.append(edfa(ju, amp_variety))
                        cons.append((prev, ju))
                        prev = ju
            cons.append((prev, f'roadm {y}'))
    return {'elements': els, 'connections': [{'from_node': f, 'to_node': t} for f, t in cons]}


def design(topo, eqpt=None, no_insert_edfas=False):
    from gnpy.tools.json_io import network_from_json
    from gnpy.tools.worker_utils import designed_network
    eqpt = eqpt or equipment()
    net = network_from_json(deepcopy(topo), eqpt)
    net, req, ref = designed_network(eqpt, net, no_insert_edfas=no_insert_edfas)
    return net, eqpt


TOPOLOGIES = {
    'line2': (['A', 'B'], [('A', 'B')]),
    'line3': (['A', 'B', 'C'], [('A', 'B'), ('B', 'C')]),
    'ring3': (['A', 'B', 'C'], [('A', 'B'), ('B', 'C'), ('C', 'A')]),
    'star4': (['A', 'B', 'C', 'D'], [('A', 'B'), ('A', 'C'), ('A', 'D')]),
    'ring4': (['A', 'B', 'C', 'D'], [('A', 'B'), ('B', 'C'), ('C', 'D'), ('D', 'A')]),
    'mesh4': (['A', 'B', 'C', 'D'], [('A', 'B'), ('B', 'C'), ('C', 'D'), ('D', 'A'), ('A', 'C')]),
    'full4': (['A', 'B', 'C', 'D'], [('A', 'B'), ('B', 'C'), ('C', 'D'), ('D', 'A'), ('A', 'C'), ('B', 'D')]),
}


def service(rid, src, dst, mode='mode 1', include=None, strict=True, bidir=False, bw=100e9, N=None, M=None, spacing=50e9,
            trx='Voyager', nch=None, power=None):
    r = {'request-id': str(rid), 'source': f'trx {src}', 'destination': f'trx {dst}', 'src-tp-id': f'trx {src}',
         'dst-tp-id': f'trx {dst}', 'bidirectional': bidir,
         'path-constraints': {'te-bandwidth': {'technology': 'flexi-grid', 'trx_type': trx, 'trx_mode': mode,
                                               'effective-freq-slot': [{'N': N, 'M': M}], 'spacing': spacing,
                                               'max-nb-of-channel': nch, 'output-power': power, 'path_bandwidth': bw}}}
    if include:
        r['explicit-route-objects'] = {'route-object-include-exclude': [
            {'explicit-route-usage': 'route-include-ero', 'index': k,
             'num-unnum-hop': {'node-id': n, 'link-tp-id': 'link-tp-id is not used',
                               'hop-type': ('STRICT' if (strict[k] if isinstance(strict, (list, tuple)) else strict) else 'LOOSE')}}
            for k, n in enumerate(include)]}
    return r


def sync(sid, ids):
    return {'synchronization-id': str(sid), 'svec': {'relaxable': False, 'disjointness': 'node link', 'request-id-number': [str(i) for i in ids]}}


def roadm_links(path):
    """set of directed ROADM-to-ROADM hops of an element path"""
    from gnpy.core.elements import Roadm
    rs = [e.uid for e in path if isinstance(e, Roadm)]
    return list(zip(rs, rs[1:]))
