"""Bounded stand-in for C19: the response (JSON and CSV) states exactly what was computed for each request - real
planning() pipeline, every outcome (served, each blocking reason, bidirectional, aggregated, multi-slot)."""
import csv
import io
import itertools
import json
import math
import time
from copy import deepcopy
import numpy as np
from bounded.common import args, finish, mesh, design, TOPOLOGIES, service, sync, equipment, EXAMPLE

a = args()
from gnpy.core.elements import Roadm, Transceiver
from gnpy.core.utils import watt2dbm
from gnpy.tools.json_io import results_to_json, load_equipment
from gnpy.tools.worker_utils import planning
from gnpy.topology.request import jsontocsv, BLOCKING_NOPATH

t0 = time.time()
wit = []
cases = nontriv = 0
outcomes = {}
ALONE = {}
LENS = {('A', 'B'): [80, 80], ('B', 'C'): [50], ('C', 'D'): [70, 90], ('D', 'A'): [90], ('A', 'C'): [100, 100], ('C', 'A'): [100, 100]}


def metric(lst, name):
    v = [m['accumulative-value'] for m in lst if m['metric-type'] == name]
    return v[0] if len(v) == 1 else ('<missing or duplicated>', v)


def pen(rx, imp):
    if imp not in rx.penalties:
        return 'not evaluated'
    v = round(float(np.mean(rx.penalties[imp])), 2)
    return 'Infinity' if math.isinf(v) else v


def expected_metrics(rx, rq):
    return {'SNR-bandwidth': round(float(np.mean(rx.snr)), 2), 'SNR-0.1nm': round(float(np.mean(rx.snr_01nm)), 2),
            'OSNR-bandwidth': round(float(np.mean(rx.osnr_ase)), 2), 'OSNR-0.1nm': round(float(np.mean(rx.osnr_ase_01nm)), 2),
            'lowest_SNR-0.1nm': round(float(np.min(rx.snr_01nm)), 2), 'biggest_SNR-0.1nm': round(float(np.max(rx.snr_01nm)), 2),
            'PDL_penalty': pen(rx, 'pdl'), 'CD_penalty': pen(rx, 'chromatic_dispersion'), 'PMD_penalty': pen(rx, 'pmd'),
            'reference_power': rq.power, 'path_bandwidth': rq.path_bandwidth}


def check_batch(key, net0, eqpt, reqs, syncs, raw):
    global cases, nontriv
    cases += 1
    net = deepcopy(net0)
    data = {'path-request': deepcopy(reqs), 'synchronization': list(syncs)}
    _, pp, rpp, rqs, _, results = planning(net, eqpt, data)
    resp = results_to_json(results)['response']
    prob = []
    # every request once, under its (joined) id
    ids_in = [str(r['request-id']) for r in reqs]
    ids_out = [str(r['response-id']) for r in resp]
    covered = [i for rid in ids_out for i in rid.split(' | ')]
    if sorted(covered) != sorted(ids_in):
        prob.append(f'request ids {ids_in} answered as {ids_out}')
    for rq, p, rp, r in zip(rqs, pp, rpp, resp):
        rid = str(rq.request_id)
        if r['response-id'] != rq.request_id:
            prob.append(f'{rid}: response-id {r["response-id"]!r}')
        parts = rid.split(' | ')
        if len(parts) > 1:
            want_bw = sum(raw[i]['path-constraints']['te-bandwidth']['path_bandwidth'] for i in parts)
            if abs(rq.path_bandwidth - want_bw) > 1e-3:
                prob.append(f'{rid}: aggregated bandwidth {rq.path_bandwidth} != sum {want_bw}')
        reason = getattr(rq, 'blocking_reason', None)
        oc = (reason or 'served') + ('/bidir' if rq.bidir else '') + ('/aggregated' if ' | ' in rid else '') + ('/multi-slot' if rq.N and len(rq.N) > 1 else '')
        outcomes[oc] = outcomes.get(oc, 0) + 1
        if reason is not None:
            if 'no-path' not in r or r['no-path']['no-path'] != reason or 'path-properties' in r:
                prob.append(f'{rid}: blocked with {reason} but response {json.dumps(r)[:120]}')
                continue
            props = r['no-path'].get('path-properties')
            if (props is None) != (reason in BLOCKING_NOPATH):
                prob.append(f'{rid}: path-properties presence wrong for {reason}')
            if props and any('label-hop' in o['path-route-object'] for o in props['path-route-objects']):
                prob.append(f'{rid}: blocked request carries labels')
            if rq.N is not None or rq.M is not None:
                prob.append(f'{rid}: blocked request keeps N/M {rq.N}/{rq.M}')
        else:
            nontriv += 1
            if 'no-path' in r or 'path-properties' not in r:
                prob.append(f'{rid}: served but response {json.dumps(r)[:120]}')
                continue
            props = r['path-properties']
        if props is None:
            continue
        objs = [o['path-route-object'] for o in props['path-route-objects']]
        if [o['index'] for o in objs] != list(range(len(objs))):
            prob.append(f'{rid}: route object indices {[o["index"] for o in objs]}')
        hops = [o['num-unnum-hop']['node-id'] for o in objs if 'num-unnum-hop' in o]
        if hops != [e.uid for e in p]:
            prob.append(f'{rid}: reported route {hops[:4]}.. is not the computed path {[e.uid for e in p][:4]}..')
        tsp = [o['transponder'] for o in objs if 'transponder' in o]
        if len(tsp) != 2 or any(t['transponder-type'] != rq.tsp or t['transponder-mode'] != rq.tsp_mode for t in tsp):
            prob.append(f'{rid}: transponder objects {tsp} vs ({rq.tsp}, {rq.tsp_mode})')
        if reason is None:
            labels = [o['label-hop'] for o in objs if 'label-hop' in o]
            want = [{'N': n, 'M': m} for n, m in zip(rq.N, rq.M)]
            if len(labels) != len(p) or any(l != want for l in labels):
                prob.append(f'{rid}: labels {labels[:1]} x{len(labels)} vs assigned {want} x{len(p)}')
            if any(m <= 0 for m in rq.M):
                prob.append(f'{rid}: served with M {rq.M}')
        for key2, path in (('path-metric', p), ('z-a-path-metric', rp)):
            if key2 == 'z-a-path-metric' and not (rq.bidir and rp):
                if key2 in props:
                    prob.append(f'{rid}: z-a metrics reported for a one-direction request')
                continue
            if key2 not in props:
                prob.append(f'{rid}: {key2} missing (bidirectional: {rq.bidir})')
                continue
            exp = expected_metrics(path[-1], rq)
            got = {k: metric(props[key2], k) for k in exp}
            if got != exp or len(props[key2]) != len(exp):
                prob.append(f'{rid}: {key2} ' + str({k: (got[k], exp[k]) for k in exp if got[k] != exp[k]})[:300])
    for r in resp:
        rid = str(r['response-id'])
        if rid in ALONE and not any(rid in sv['svec']['request-id-number'] for sv in syncs):   # a disjoint route is another route
            pr = r.get('path-properties') or r.get('no-path', {}).get('path-properties') or {}
            for kk in ('path-metric', 'z-a-path-metric'):
                ref, got = ALONE[rid][kk], pr.get(kk)
                strip = lambda l: None if l is None else [m for m in l if m['metric-type'] != 'path_bandwidth']
                if strip(ref) != strip(got):
                    prob.append(f'{rid}: {kk} differs from the same request planned alone: ' +
                                str([(x['metric-type'], y['accumulative-value'], x['accumulative-value'])
                                     for x, y in zip(strip(ref) or [], strip(got) or []) if x != y])[:300])
    # CSV export states the same values
    out = io.StringIO()
    jsontocsv({'response': resp}, eqpt, out)
    rows = list(csv.DictReader(io.StringIO(out.getvalue())))
    if [r['response-id'] for r in rows] != ids_out:
        prob.append(f'CSV rows {[r["response-id"] for r in rows]} vs responses {ids_out}')
    margin = eqpt['SI']['default'].sys_margins
    for row, rq, p, rp, r in zip(rows, rqs, pp, rpp, resp):
        rid = str(rq.request_id)
        reason = getattr(rq, 'blocking_reason', None)

        def num(x):
            try:
                return float(x)
            except ValueError:
                return x
        if reason is not None:
            if row['Pass?'] != reason:
                prob.append(f'{rid}: CSV Pass? {row["Pass?"]!r} for a request blocked with {reason}')
            if reason in BLOCKING_NOPATH:
                continue
        mode = next((m for m in eqpt['Transceiver'][rq.tsp].mode if m['format'] == rq.tsp_mode), None)
        rx = p[-1]
        exp = expected_metrics(rx, rq)
        want = {'OSNR-0.1nm (average)': exp['OSNR-0.1nm'], 'SNR-0.1nm (average)': exp['SNR-0.1nm'], 'SNR-bandwidth (average)': exp['SNR-bandwidth'],
                'SNR-0.1nm (min)': exp['lowest_SNR-0.1nm'], 'SNR-0.1nm (max)': exp['biggest_SNR-0.1nm'], 'PDL_penalty': exp['PDL_penalty'],
                'CD_penalty': exp['CD_penalty'], 'PMD_penalty': exp['PMD_penalty'], 'input power (dBm)': round(float(watt2dbm(rq.power)), 2),
                'source': p[0].uid, 'destination': p[-1].uid, 'transponder-type': rq.tsp, 'transponder-mode': rq.tsp_mode,
                'path': ' | '.join(e.uid for e in p)}
        if mode is not None:
            want['min required OSNR (inc. margin)'] = mode['OSNR'] + margin
            want['baud rate (Gbaud)'] = round(mode['baud_rate'] * 1e-9, 2)
        if rq.bidir and rp:
            e2 = expected_metrics(rp[-1], rq)
            want.update({'reversed path OSNR-0.1nm (average)': e2['OSNR-0.1nm'], 'reversed path SNR-0.1nm (average)': e2['SNR-0.1nm'],
                         'reversed path SNR-bandwidth (average)': e2['SNR-bandwidth'], 'reversed path SNR-0.1nm (min)': e2['lowest_SNR-0.1nm'],
                         'reversed path SNR-0.1nm (max)': e2['biggest_SNR-0.1nm'], 'reversed path PDL_penalty': e2['PDL_penalty'],
                         'reversed path CD_penalty': e2['CD_penalty'], 'reversed path PMD_penalty': e2['PMD_penalty']})
        if reason is None:
            want['path_bandwidth'] = round(rq.path_bandwidth * 1e-9, 2)
            want['Pass?'] = str(exp['lowest_SNR-0.1nm'] >= mode['OSNR'] + margin)
            want['spectrum (N,M)'] = f'{list(rq.N)}, {list(rq.M)}'
            want['nb of tsp pairs'] = math.ceil(round(rq.path_bandwidth * 1e-9, 2) / round(mode['bit_rate'] * 1e-9, 2))
        bad = {k: (row.get(k), v) for k, v in want.items()
               if not (num(row.get(k, '')) == v or (isinstance(v, float) and isinstance(num(row.get(k, '')), float) and
                                                    abs(num(row[k]) - v) < 1e-9) or str(row.get(k)) == str(v))}
        if bad:
            prob.append(f'{rid}: CSV {str(bad)[:300]}')
    if prob:
        wit.append({'key': key, 'problems': prob[:5]})


names = ['ring3', 'mesh4'] if a.tier == 'quick' else ['ring3', 'ring4', 'mesh4', 'full4']
for name in names:
    sites, links = TOPOLOGIES[name]
    topo = mesh(sites, links, spans={l: LENS.get(l, LENS.get((l[1], l[0]), [80])) for l in links}, junction='edfa')
    for libname in ('eqpt_config.json', 'eqpt_config_openroadm_ver5.json'):
        if libname != 'eqpt_config.json' and name != 'ring3':
            continue
        eqpt = equipment(libname)
        try:
            net0, eqpt = design(topo, eqpt)
        except Exception as e:
            wit.append({'key': f'{name}:{libname}:design', 'problems': [f'{type(e).__name__}: {e}'[:200]]})
            continue
        s = sites
        trxname = 'Voyager' if libname == 'eqpt_config.json' else 'OpenROADM MSA ver. 5.0'
        modes = [m['format'] for m in eqpt['Transceiver'][trxname].mode]
        m1, m2 = modes[0], modes[-1]
        sp = max(50e9, max(m['min_spacing'] for m in eqpt['Transceiver'][trxname].mode))
        mk = lambda rid, x, y, **kw: service(rid, x, y, trx=trxname, **{'mode': m1, 'spacing': sp, **kw})
        pool = {
            'served': mk('served', s[0], s[2]),
            'served2': mk('served2', s[1], s[2], mode=m2, bw=400e9),
            'bidir': mk('bidir', s[0], s[1], bidir=True),
            'bidir_b': mk('bidir_b', s[0], s[2], bidir=True, mode=m2, bw=300e9),
            'bidir_far': mk('bidir_far', s[2], s[0], bidir=True, mode=m2),
            'auto': mk('auto', s[0], s[1], mode=None),
            'twin_a': mk('twin_a', s[1], s[0], bw=150e9), 'twin_b': mk('twin_b', s[1], s[0], bw=250e9),
            'multislot': mk('multislot', s[0], s[2], bw=200e9),
            'nopath': mk('nopath', s[0], s[2], include=[f'roadm {s[0]}', f'roadm {s[1]}', f'roadm {s[0]}'], strict=True),
            'infeasible': mk('infeasible', s[0], s[2], mode=m2, power=1e-7),
            'no_mode': mk('no_mode', s[0], s[2], mode=None, power=1e-7),
            'narrow': mk('narrow', s[0], s[2], mode=None, spacing=12.5e9),
            'too_many_slots': mk('too_many_slots', s[0], s[1], bw=60000e9),
            'fixed_slot': mk('fixed_slot', s[0], s[1], N=-200, M=8),
            'fixed_slot_taken': mk('fixed_slot_taken', s[0], s[1], N=-200, M=8),
        }
        pool['multislot']['path-constraints']['te-bandwidth']['effective-freq-slot'] = [{'N': -250, 'M': 8}, {'N': 100, 'M': 8}]
        batches = [['served', 'served2', 'bidir', 'auto'], ['twin_a', 'twin_b', 'served'], ['twin_b', 'served', 'twin_a'],
                   ['nopath', 'infeasible', 'no_mode', 'narrow', 'served'], ['multislot', 'fixed_slot', 'fixed_slot_taken', 'too_many_slots'],
                   ['bidir', 'bidir_far', 'infeasible'], ['bidir', 'bidir_b', 'served'], ['bidir_b', 'bidir_far', 'bidir'], ['bidir_far', 'bidir', 'twin_a', 'twin_b', 'multislot', 'nopath']]
        # independent reference: the metrics each request gets when it is the only one planned
        alone = {}
        for k, rq_json in pool.items():
            try:
                _, _, _, rqs1, _, res1 = planning(deepcopy(net0), eqpt, {'path-request': [deepcopy(rq_json)], 'synchronization': []})
                j = res1[0].json
                pr = j.get('path-properties') or j.get('no-path', {}).get('path-properties') or {}
                alone[str(rq_json['request-id'])] = {kk: pr.get(kk) for kk in ('path-metric', 'z-a-path-metric')}
            except Exception:
                pass
        ALONE.clear()
        ALONE.update(alone)
        for b in batches:
            try:
                check_batch(f'{name}:{libname}:{b}', net0, eqpt, [pool[k] for k in b], [], {str(pool[k]['request-id']): pool[k] for k in pool})
            except Exception as e:
                import traceback
                wit.append({'key': f'{name}:{libname}:{b}', 'problems': [f'{type(e).__name__}: {e}'[:300], traceback.format_exc()[-400:]]})
        # two requests under one id cannot both be answered under it: the batch is refused
        cases += 1
        try:
            planning(deepcopy(net0), eqpt, {'path-request': [deepcopy(pool['served']), dict(deepcopy(pool['served2']), **{'request-id': 'served'})],
                                           'synchronization': []})
            wit.append({'key': f'{name}:{libname}:duplicate-ids', 'problems': ['two requests with the same id were accepted']})
        except ValueError:
            pass
        # a request sitting exactly on the margin-inclusive threshold is served (the verdict blocks only below it): the
        # CSV must say Pass? = True for it
        try:
            _, pp1, _, rq1, _, _ = planning(deepcopy(net0), eqpt, {'path-request': [deepcopy(pool['served'])], 'synchronization': []})
            worst = round(float(np.min(pp1[0][-1].snr_01nm - pp1[0][-1].total_penalty)), 2)
            eq_edge = deepcopy(eqpt)
            margin = eq_edge['SI']['default'].sys_margins
            for md in eq_edge['Transceiver'][trxname].mode:
                if md['format'] == m1:
                    md['OSNR'] = worst - margin
                    if md['OSNR'] + margin != worst:
                        md['OSNR'] = float(np.nextafter(md['OSNR'], 100.0)) if md['OSNR'] + margin < worst else float(np.nextafter(md['OSNR'], -100.0))
            if next(md for md in eq_edge['Transceiver'][trxname].mode if md['format'] == m1)['OSNR'] + margin == worst:
                check_batch(f'{name}:{libname}:exactly-on-threshold', net0, eq_edge, [pool['served']], [], {str(pool[k]['request-id']): pool[k] for k in pool})
        except Exception as e:
            wit.append({'key': f'{name}:{libname}:exactly-on-threshold', 'problems': [f'{type(e).__name__}: {e}'[:300]]})
        try:
            check_batch(f'{name}:{libname}:synchronised', net0, eqpt, [pool['served'], pool['multislot'], pool['bidir']],
                        [sync(0, ['served', 'multislot'])], {str(pool[k]['request-id']): pool[k] for k in pool})
        except Exception as e:
            wit.append({'key': f'{name}:{libname}:synchronised', 'problems': [f'{type(e).__name__}: {e}'[:300]]})
# ---- the stored response of the path-request script, and workbook services loaded as bidirectional
import contextlib
import os
import shutil
import tempfile
from pathlib import Path
from gnpy.tools import cli_examples
from gnpy.tools.json_io import load_json, load_network, load_requests, requests_from_json
from gnpy.tools.worker_utils import designed_network
TMPD = Path(tempfile.mkdtemp(prefix='c19_'))
try:
    srv_json = load_json(EXAMPLE / 'meshTopologyExampleV2_services.json')
    # identical requests of the file are aggregated by the planner under the joined id: every id of the file appears once, alone or joined
    file_ids = [str(r['request-id']) for r in srv_json['path-request']]
    for suffix in ('.json', '.csv'):
        cases += 1
        out = TMPD / f'response{suffix}'
        with contextlib.redirect_stdout(io.StringIO()), contextlib.redirect_stderr(io.StringIO()):
            cli_examples.path_requests_run([str(EXAMPLE / 'meshTopologyExampleV2.json'), str(EXAMPLE / 'meshTopologyExampleV2_services.json'),
                                            '-e', str(EXAMPLE / 'eqpt_config.json'), '-o', str(out)])
        if suffix == '.json':
            ids = [str(r['response-id']) for r in load_json(out)['response']]
        else:
            with open(out, encoding='utf-8') as f:
                rows = list(csv.reader(f))
            ids = [r[0] for r in rows[1:] if r]
        seen = [x for i in ids for x in i.split(' | ')]
        prob = []
        if sorted(seen) != sorted(file_ids):
            prob.append(f'stored response{suffix} lists the request ids {sorted(seen)}, the service file holds {sorted(file_ids)}')
        if len(set(ids)) != len(ids):
            prob.append(f'a response id is listed more than once: {sorted(i for i in set(ids) if ids.count(i) > 1)}')
        nontriv += 1
        if prob:
            wit.append({'key': f'path-request script: stored response{suffix}', 'problems': prob})
    # a workbook with a Service sheet, loaded with the bidirectional option of the script: every request is bidirectional and the
    # response carries both directions
    cases += 1
    eq = equipment()
    xls = TMPD / 'meshTopologyExampleV2.xls'        # a copy: the loader writes the converted services next to the workbook
    shutil.copy(EXAMPLE / 'meshTopologyExampleV2.xls', xls)
    net = load_network(xls, eq)
    net, _, _ = designed_network(eq, net)
    for bidir in (True, False):
        with contextlib.redirect_stdout(io.StringIO()), contextlib.redirect_stderr(io.StringIO()):
            data = load_requests(xls, eq, bidir=bidir, network=net, network_filename=xls)
        flags = [r['bidirectional'] for r in data['path-request']]
        if not flags or any(f is not bidir for f in flags):
            wit.append({'key': f'workbook services loaded with bidir={bidir}', 'problems': [f'bidirectional flags of the converted requests: {flags}']})
except Exception as e:
    wit.append({'key': 'path-request script / workbook services', 'problems': [f'{type(e).__name__}: {e}'[:300]]})
finally:
    shutil.rmtree(TMPD, ignore_errors=True)
finish('response and CSV state what was computed (ids, route, transponder, labels, metrics, blocking reasons, both directions)', 'bounded',
       'gnpy.topology.request.ResultElement / jsontocsv, gnpy.tools.json_io.results_to_json, requests_aggregation',
       f'topologies {names} (default library) + ring3 with the OpenROADM v5 library (penalties); 16 request kinds in 10 batches each; the stored '
       'JSON / CSV response of the path-request script on the shipped mesh example; the shipped workbook services loaded uni- and bidirectional',
       cases, wit, nontrivial=nontriv, t0=t0, detail={'outcomes seen': outcomes})
