"""Bounded stand-in shared by C03 / C04 / C05: the parameter classes hand to the physics exactly the values of the documents
they are built from - FiberParams (units, reference frequency, dispersion and slope, loss table, effective area <-> gamma),
EdfaParams (every key under its own attribute, dual-stage blocks), and the dual-stage library entries built by the loader."""
import itertools
import math
import time
from copy import deepcopy
import numpy as np
from bounded.common import args, finish, equipment, EXAMPLE

a = args()
from scipy.constants import c
from gnpy.core.parameters import FiberParams, EdfaParams
from gnpy.core.elements import Fiber
from gnpy.tools.json_io import load_json, _equipment_from_json, DEFAULT_EXTRA_CONFIG

t0 = time.time()
wit = []
cases = 0


def close(x, y, rel=1e-12):
    if x is None or y is None:
        return x is y
    return bool(np.allclose(np.asarray(x, dtype=float), np.asarray(y, dtype=float), rtol=rel, atol=0))


def state_of(o):
    return {k: (list(v) if isinstance(v, (list, tuple, np.ndarray)) else v) for k, v in vars(o).items() if k not in ('nf_model',)}


# ---- FiberParams: every documented key, present or absent
base = {'length': 80.5, 'length_units': 'km', 'loss_coef': 0.21, 'pmd_coef': 1.3e-15}
options = {
    'att_in': [None, 1.5], 'con_in': [None, 0.4], 'con_out': [None, 0.6],
    'ref': [None, ('ref_wavelength', 1565e-9), ('ref_frequency', 193.0e12)],
    'disp': [None, ('dispersion', 4e-6, None), ('dispersion', 4e-6, 8.5e-8 * 1e3), ('dispersion_per_frequency', None, None)],
    'area': [None, ('effective_area', 72e-12), ('gamma', 1.6e-3), ('both', 72e-12, 1.1e-3)],
    'loss_table': [False, True], 'lumped': [False, True],
}
keys = list(options)
combos = list(itertools.product(*[options[k] for k in keys]))
if a.tier == 'quick':
    combos = combos[::7]
for combo in combos:
    cases += 1
    o = dict(zip(keys, combo))
    kw = dict(base)
    for k in ('att_in', 'con_in', 'con_out'):
        if o[k] is not None:
            kw[k] = o[k]
    if o['ref']:
        kw[o['ref'][0]] = o['ref'][1]
    table = {'value': [3e-6, 4e-6, 5e-6], 'frequency': [191e12, 193.5e12, 196e12]}
    if o['disp']:
        if o['disp'][0] == 'dispersion':
            kw['dispersion'] = o['disp'][1]
            if o['disp'][2] is not None:
                kw['dispersion_slope'] = o['disp'][2]
        else:
            kw['dispersion_per_frequency'] = table
    if o['area']:
        if o['area'][0] in ('effective_area', 'both'):
            kw['effective_area'] = o['area'][1]
        if o['area'][0] == 'gamma':
            kw['gamma'] = o['area'][1]
        if o['area'][0] == 'both':
            kw['gamma'] = o['area'][2]
    if o['loss_table']:
        kw['loss_coef'] = {'value': [0.18, 0.2, 0.25], 'frequency': [191e12, 193.5e12, 196.5e12]}
    if o['lumped']:
        kw['lumped_losses'] = [{'position': 20, 'loss': 1.5}]
    try:
        p = FiberParams(**deepcopy(kw))
    except Exception as e:
        wit.append({'key': f'fiber-params:{o}', 'problems': [f'{type(e).__name__}: {e}'[:200]]})
        continue
    prob = []
    ref_f = c / kw['ref_wavelength'] if 'ref_wavelength' in kw else kw.get('ref_frequency', c / 1550e-9)
    exp = {'length': 80500.0, 'att_in': kw.get('att_in', 0), 'con_in': kw.get('con_in'), 'con_out': kw.get('con_out'),
           'ref_frequency': ref_f, 'ref_wavelength': c / ref_f, 'pmd_coef': 1.3e-15}
    for k, v in exp.items():
        if not close(getattr(p, k), v):
            prob.append(f'{k}: {getattr(p, k)} instead of {v}')
    if 'dispersion' in kw:
        if not close(p.dispersion, kw['dispersion']) or not close(p.dispersion_slope, kw.get('dispersion_slope')) or not close(p.f_dispersion_ref, ref_f):
            prob.append(f'dispersion / slope / reference: {p.dispersion} / {p.dispersion_slope} / {p.f_dispersion_ref} instead of '
                        f'{kw["dispersion"]} / {kw.get("dispersion_slope")} / {ref_f}')
    elif 'dispersion_per_frequency' in kw:
        if not close(p.dispersion, table['value']) or not close(p.f_dispersion_ref, table['frequency']) or p.dispersion_slope is not None:
            prob.append('per-frequency dispersion table not taken as given')
    else:
        if not close(p.dispersion, 1.67e-5) or p.dispersion_slope is not None:
            prob.append(f'default dispersion {p.dispersion} / slope {p.dispersion_slope}')
    n2 = 2.6e-20
    if 'effective_area' in kw:
        want_gamma = kw.get('gamma', 2 * math.pi * n2 / ((c / ref_f) * kw['effective_area']))
        if not close(p._effective_area, kw['effective_area']) or not close(p.gamma, want_gamma):
            prob.append(f'effective area / gamma: {p._effective_area} / {p.gamma} instead of {kw["effective_area"]} / {want_gamma}')
    elif 'gamma' in kw:
        if not close(p.gamma, kw['gamma']) or not close(p._effective_area, 2 * math.pi * n2 / ((c / ref_f) * kw['gamma'])):
            prob.append(f'gamma / derived effective area: {p.gamma} / {p._effective_area}')
    else:
        if not close(p._effective_area, 83e-12) or not close(p.gamma, 2 * math.pi * n2 / ((c / ref_f) * 83e-12)):
            prob.append('default effective area / gamma')
    if o['loss_table']:
        if not close(p.loss_coef, np.array([0.18, 0.2, 0.25]) * 1e-3) or not close(p.f_loss_ref, [191e12, 193.5e12, 196.5e12]):
            prob.append('loss table not converted to dB/m at its frequencies')
    elif not close(p.loss_coef, 0.21e-3) or not close(p.f_loss_ref, ref_f):
        prob.append(f'loss coefficient {p.loss_coef} at {p.f_loss_ref}')
    if o['lumped'] != (len(p.lumped_losses) == 1):
        prob.append('lumped losses')
    # the element built on these parameters: beta2 from D and slope at three frequencies, textbook formula
    if not prob and 'dispersion_per_frequency' not in kw and not o['loss_table']:
        f = Fiber(uid='f', type_variety='SSMF', params=deepcopy(kw))
        freq = np.array([191.4e12, ref_f, 196.0e12])
        lam = c / freq
        D = (kw.get('dispersion', 1.67e-5) + kw['dispersion_slope'] * (lam - c / ref_f)) if kw.get('dispersion_slope') is not None else \
            kw.get('dispersion', 1.67e-5) * (freq / ref_f) ** 2
        want = -lam ** 2 * D / (2 * math.pi * c)
        if not close(f.beta2(freq), want, 1e-9):
            prob.append(f'beta2 {f.beta2(freq)} instead of {want} (D0 {kw.get("dispersion")}, slope {kw.get("dispersion_slope")})')
        # gamma(f) = 2 pi n2 f / (c A_eff(f)) with A_eff(f_ref) = the effective area of the parameters
        g_ref = float(f.gamma(np.array([ref_f]))[0])
        if not close(g_ref, 2 * math.pi * n2 * ref_f / (c * p._effective_area), 1e-9):
            prob.append(f'gamma at the reference frequency {g_ref} instead of 2 pi n2 / (lambda_ref A_eff) = {2 * math.pi * n2 * ref_f / (c * p._effective_area)}')
    if prob:
        wit.append({'key': f'fiber-params:{ {k: v for k, v in o.items() if v} }', 'problems': prob[:3]})

# ---- a loss table listed in any order pairs each frequency with its own value; the element reads the table at the asked frequencies
for order in ((0, 1, 2, 3), (3, 2, 1, 0), (2, 0, 3, 1)):
    cases += 1
    fr = [186e12, 191e12, 193.5e12, 197e12]
    va = [0.24, 0.2, 0.19, 0.22]
    kw = dict(base, loss_coef={'frequency': [fr[i] for i in order], 'value': [va[i] for i in order]})
    prob = []
    try:
        f = Fiber(uid='f', type_variety='SSMF', params=deepcopy(kw))
        got = np.atleast_1d(f.loss_coef_func(np.array(fr))) * 1e3
        if not close(got, va, 1e-9):
            prob.append(f'loss at the listed frequencies {got.tolist()} dB/km instead of the listed values {va}')
        mid = np.array([188.5e12, 192.25e12, 195.25e12])
        want = np.interp(mid, fr, va)
        got = np.atleast_1d(f.loss_coef_func(mid)) * 1e3
        if not close(got, want, 1e-9):
            prob.append(f'loss between the listed frequencies {got.tolist()} instead of the linear interpolation {want.tolist()}')
        one = float(np.atleast_1d(f.loss_coef_func(np.array([188.5e12])))[0]) * 1e3
        if not close(one, want[0], 1e-9):
            prob.append(f'loss asked for one frequency {one} instead of {want[0]}')
        a = f.alpha(mid)
        if not close(a, want * 1e-3 / (10 * math.log10(math.e)), 1e-9):
            prob.append(f'alpha {a.tolist()} is not the table value in Neper/m')
    except Exception as e:
        prob.append(f'{type(e).__name__}: {e}')
    if prob:
        wit.append({'key': f'loss-table-listed-in-order-{order}', 'problems': prob[:3]})

# ---- library fibre entries reach the element with the nonlinear coefficient the library states (gamma, or effective area)
from gnpy.tools.json_io import network_from_json
for variant, entry in (('gamma-only', {'gamma': 2.0e-3}), ('effective-area-only', {'effective_area': 60e-12}), ('neither', {})):
    cases += 1
    eqj = load_json(EXAMPLE / 'eqpt_config.json')
    eqj['Fiber'].append({'type_variety': 'LIBFIB', 'dispersion': 1.67e-05, 'pmd_coef': 1.265e-15, **entry})
    lib = _equipment_from_json(deepcopy(eqj), DEFAULT_EXTRA_CONFIG)
    net = network_from_json({'elements': [{'uid': 'f', 'type': 'Fiber', 'type_variety': 'LIBFIB',
                                           'params': {'length': 80, 'length_units': 'km', 'loss_coef': 0.2, 'con_in': 0, 'con_out': 0}}],
                             'connections': []}, lib)
    f = next(iter(net.nodes()))
    ref_f = f.params.ref_frequency
    g = float(np.atleast_1d(f.gamma(np.array([ref_f])))[0])
    want = entry.get('gamma', 2 * math.pi * 2.6e-20 * ref_f / (c * entry.get('effective_area', 83e-12)))
    if not close(g, want, 1e-9):
        wit.append({'key': f'library-fibre:{variant}', 'problems': [f'gamma at the reference frequency {g} instead of {want} (library entry {entry})']})

# ---- amplifier library entries carry the band, ripples and tilt shape of the configuration file they name
from gnpy.tools.json_io import Amp
USER = {'f_min': 191.65e12, 'f_max': 195.35e12, 'gain_ripple': [0.1, -0.2, 0.3], 'nf_ripple': [0.5, 0.25, -0.5], 'dgt': [1.0, 1.5, 2.0]}
ADVC = dict(USER, nf_fit_coeff=[0.0, 0.0, 0.0, 6.0], dgt=[1.0, 1.25, 1.5])
for type_def, key, extra in (('fixed_gain', 'default_config_from_json', {'nf0': 5.5, 'gain_flatmax': 17, 'gain_min': 17, 'p_max': 21}),
                             ('variable_gain', 'default_config_from_json', {'nf_min': 5.5, 'nf_max': 9, 'gain_flatmax': 25, 'gain_min': 15, 'p_max': 21}),
                             ('advanced_model', 'advanced_config_from_json', {'gain_flatmax': 25, 'gain_min': 15, 'p_max': 21})):
    for own_band in (False, True):
        cases += 1
        configs = {'user.json': deepcopy(USER), 'adv.json': deepcopy(ADVC), 'other.json': dict(USER, f_min=1.0, f_max=2.0, dgt=[9.0])}
        before = deepcopy(configs)
        name = 'adv.json' if type_def == 'advanced_model' else 'user.json'
        entry = {'type_variety': 'amp', 'type_def': type_def, key: name, 'out_voa_auto': False, 'allowed_for_design': True, **extra}
        if own_band:
            entry['f_min'], entry['f_max'] = 191.9e12, 195.1e12
        prob = []
        try:
            amp = Amp.from_json(configs, **deepcopy(entry))
            cfg = before[name]
            for k in ('gain_ripple', 'nf_ripple', 'dgt'):
                if list(getattr(amp, k)) != cfg[k]:
                    prob.append(f'{k} {getattr(amp, k)} instead of {cfg[k]} of {name}')
            want_band = (entry['f_min'], entry['f_max']) if own_band else (cfg['f_min'], cfg['f_max'])
            if (amp.f_min, amp.f_max) != want_band:
                prob.append(f'band {amp.f_min}-{amp.f_max} instead of {want_band}')
            if configs != before:
                prob.append('the configuration files handed to the loader were modified')
            if state_of(Amp.from_json(configs, **deepcopy(entry))) != state_of(amp):
                prob.append('a second load of the same entry gives another amplifier')
        except Exception as e:
            prob.append(f'{type(e).__name__}: {e}')
        if prob:
            wit.append({'key': f'amp-entry:{type_def}:{"own band" if own_band else "band of the file"}', 'problems': prob[:3]})

# ---- EdfaParams: every key lands on the attribute of the same name (dual-stage blocks included)
vals = {k: (i + 1) * 1.25 for i, k in enumerate(EdfaParams.default_values)}
plain = dict(EdfaParams.default_values)
plain.update({'type_variety': 'x', 'type_def': 'dual_stage', 'f_min': 191.3e12, 'f_max': 196.1e12, 'gain_flatmax': 30.5, 'gain_min': 12.25, 'p_max': 21.5,
              'nf_min': 5.5, 'nf_max': 9.25, 'nf0': 6.75, 'nf_coef': [1, 2, 3, 4], 'nf_fit_coeff': [0.1, 0.2, 0.3, 0.4], 'out_voa_auto': True,
              'dual_stage_model': object(), 'preamp_variety': 'pre', 'preamp_type_def': 'variable_gain', 'preamp_nf_model': 'PRE-NF',
              'preamp_nf_fit_coeff': [9, 8], 'preamp_gain_min': 15.5, 'preamp_gain_flatmax': 25.5, 'booster_variety': 'boo',
              'booster_type_def': 'fixed_gain', 'booster_nf_model': 'BOO-NF', 'booster_nf_fit_coeff': [7, 6], 'booster_gain_min': 8.5,
              'booster_gain_flatmax': 11.5, 'pmd': 1e-12, 'pdl': 0.3, 'raman': True, 'dgt': [1, 2, 3], 'allowed_for_design': False})
cases += 1
ep = EdfaParams(**deepcopy(plain))
bad = [k for k in plain if k in ('type_variety', 'type_def', 'gain_flatmax', 'gain_min', 'p_max', 'nf_min', 'nf_max', 'nf0', 'nf_coef', 'nf_fit_coeff',
                                 'out_voa_auto', 'preamp_variety', 'preamp_type_def', 'preamp_nf_model', 'preamp_nf_fit_coeff', 'preamp_gain_min',
                                 'preamp_gain_flatmax', 'booster_variety', 'booster_type_def', 'booster_nf_model', 'booster_nf_fit_coeff',
                                 'booster_gain_min', 'booster_gain_flatmax', 'pmd', 'pdl', 'raman', 'dgt', 'allowed_for_design', 'f_min', 'f_max')
       and getattr(ep, k) != plain[k]]
if bad:
    wit.append({'key': 'edfa-params:attributes', 'problems': [f'{k}: {getattr(ep, k)!r} instead of {plain[k]!r}' for k in bad[:4]]})

# ---- dual-stage entries of a library: limits of the output stage, both stages' own figures
cases += 1
eqj = load_json(EXAMPLE / 'eqpt_config.json')
names = {e['type_variety']: e for e in eqj['Edfa']}
eqj['Edfa'].append({'type_variety': 'dual_test', 'type_def': 'dual_stage', 'gain_min': 25, 'preamp_variety': 'std_medium_gain',
                    'booster_variety': 'std_low_gain', 'allowed_for_design': True})
lib = _equipment_from_json(deepcopy(eqj), DEFAULT_EXTRA_CONFIG)['Edfa']
d, pre, boo = lib['dual_test'], lib['std_medium_gain'], lib['std_low_gain']
prob = []
if d.p_max != boo.p_max:
    prob.append(f'p_max {d.p_max}, output stage {boo.p_max}')
if d.gain_flatmax != pre.gain_flatmax + boo.gain_flatmax:
    prob.append(f'gain_flatmax {d.gain_flatmax}')
for st, src in (('preamp', pre), ('booster', boo)):
    for k in ('gain_min', 'gain_flatmax', 'type_def', 'nf_model'):
        if getattr(d, f'{st}_{k}') != getattr(src, k):
            prob.append(f'{st}_{k}: {getattr(d, st + "_" + k)!r} instead of {getattr(src, k)!r}')
if prob:
    wit.append({'key': 'dual-stage-library-entry', 'problems': prob[:4]})
finish('parameter classes hand over the values of their documents (FiberParams, EdfaParams, dual-stage library entries)', 'bounded',
       'gnpy.core.parameters.FiberParams.__init__, EdfaParams.__init__, gnpy.tools.json_io._update_dual_stage, gnpy.core.elements.Fiber.beta2 / gamma',
       f'{len(combos)} combinations of present / absent FiberParams keys (padding, connectors, reference, dispersion + slope / table, effective area / gamma, '
       'loss table, lumped loss); loss tables listed in 3 orders; 3 library fibre entries (gamma / effective area / neither); 6 amplifier entries naming a '
       'configuration file (fixed / variable gain / advanced model x own band or not); one EdfaParams with every key distinct; one dual-stage entry of the shipped library', cases, wit, t0=t0)
