#!/usr/bin/env python3
"""CPython cross-check of the contracts (and so of pyvc's model of Python / numpy): for every verified contract the solver
chooses up to three inputs satisfying the precondition, the REAL function is run on them under /venv/bin/python and every
postcondition / raises clause is evaluated natively (float-tolerant comparisons).  A clause that pyvc proves but that is false
natively on such an input points at an unsound model (or at float rounding beyond the tolerance) and is listed.

usage: python3-vt tools/native_smoke.py [--only substr] [--prop Cxx]        writes /verif/evidence/native_smoke.json
"""
import importlib
import json
import os
import subprocess
import sys
import tempfile
ROOT = os.path.dirname(os.path.dirname(os.path.abspath(__file__)))
sys.path.insert(0, ROOT)
REPO = os.environ.get('PYVC_REPO', '/repo')


def main():
    from contracts import common
    from pyvc.engine import Engine
    for m in sorted(os.listdir(os.path.join(ROOT, 'contracts'))):
        if m.startswith('c_') and m.endswith('.py'):
            importlib.import_module('contracts.' + m[:-3])
    only = sys.argv[sys.argv.index('--only') + 1] if '--only' in sys.argv else ''
    prop = sys.argv[sys.argv.index('--prop') + 1] if '--prop' in sys.argv else ''
    reg = {}
    for c in common.REG:
        if c.use_at_calls or c.trusted:
            reg[c.qual] = c
    todo = [c for c in common.REG if not c.trusted and c.props and not all(p.startswith('X') for p in c.props)
            and only in c.name and (not prop or prop in c.props)]
    tmp = tempfile.mkdtemp(prefix='smoke_')
    summary = {'contracts': 0, 'inputs': 0, 'clauses_held': 0, 'clauses_failed': 0, 'clauses_not_evaluable': 0, 'precondition_false_natively': 0,
               'no_input': [], 'failed': [], 'not_evaluable': {}}
    for c in todo:
        e = Engine(reg)
        try:
            models = e.smoke_inputs(c)
        except Exception as ex:
            summary['no_input'].append(f'{c.name}: {type(ex).__name__}: {ex}'[:200])
            continue
        summary['contracts'] += 1
        if not models:
            summary['no_input'].append(c.name)
            continue
        found = e.find_target(c)
        mod, ci, node, kind = found
        for k, cm in enumerate(models):
            clauses = [('ensures', nm, ex) for nm, ex in c.ensures]
            info = {'property': (c.props or ['?'])[0], 'function': c.qual, 'contract': c.name, 'spec': c.spec, 'let': c.let,
                    'requires': c.requires, 'harness': c.harness, 'module': c.module, 'native_patches': c.native_patches, 'loop': c.loop,
                    'params': list(c.params.keys()), 'repo': REPO, 'counter_model': cm, 'kind': 'smoke',
                    'clauses': [[nm, ex] for _, nm, ex in clauses], 'raises': c.raises, 'overrides': bool(c.overrides)}
            f = os.path.join(tmp, f'{len(os.listdir(tmp))}.json')
            json.dump(info, open(f, 'w'))
            pr = subprocess.run(['/venv/bin/python', os.path.join(ROOT, 'pyvc', 'replay_native.py'), '--smoke', f], capture_output=True, text=True,
                                timeout=300, env=dict(os.environ, PYVC_REPO=REPO))
            lines = [l for l in pr.stdout.splitlines() if l.startswith('{')]
            if not lines:
                summary['not_evaluable'][c.name] = (pr.stderr or pr.stdout)[-200:]
                continue
            res = json.loads(lines[-1])
            summary['inputs'] += 1
            if res.get('precondition') == 'false':
                summary['precondition_false_natively'] += 1
                continue
            for nm, st, detail in res.get('clauses', []):
                if st == 'held':
                    summary['clauses_held'] += 1
                elif st == 'failed':
                    summary['clauses_failed'] += 1
                    summary['failed'].append({'contract': c.name, 'clause': nm, 'input': k, 'detail': detail[:300]})
                else:
                    summary['clauses_not_evaluable'] += 1
                    summary['not_evaluable'].setdefault(c.name, detail[:200])
    import shutil
    shutil.rmtree(tmp, ignore_errors=True)
    if not only and not prop:
        json.dump(summary, open(os.path.join(ROOT, 'evidence', 'native_smoke.json'), 'w'), indent=1)
    print(json.dumps({k: v for k, v in summary.items() if k not in ('not_evaluable',)}, indent=1)[:6000])
    print('not evaluable contracts:', len(summary['not_evaluable']))


main()
