#!/usr/bin/env python3
"""Run every seeded property-breaking change (seeded/<Cxx_mN>/patch.diff) against the check of its property, each on its
own scratch copy of /repo's gnpy (never /repo itself), in parallel; writes seeded/MATRIX.json and prints a table.
usage: seed_matrix.py [--jobs N] [--only Cxx]
"""
import concurrent.futures as cf
import json
import os
import shutil
import subprocess
import sys
import tempfile
import time
ROOT = os.path.dirname(os.path.dirname(os.path.abspath(__file__)))
SEEDS = os.path.join(ROOT, 'seeded')


def run(seed):
    prop = seed.split('_')[0]
    patch = os.path.join(SEEDS, seed, 'patch.diff')
    try:
        retired = json.load(open(os.path.join(SEEDS, seed, 'meta.json'))).get('retired')
    except Exception:
        retired = None
    if retired:
        # a later repair made the code robust against this change: it is no property-breaking change any more
        return seed, {'property': prop, 'retired': retired}
    d = tempfile.mkdtemp(prefix='pyvc_seed_')
    t0 = time.time()
    try:
        shutil.copytree('/repo/gnpy', os.path.join(d, 'gnpy'))
        subprocess.run(['git', 'init', '-q'], cwd=d)
        r = subprocess.run(['git', 'apply', '--include=gnpy/*', patch], cwd=d, capture_output=True, text=True)
        if r.returncode:
            return seed, {'property': prop, 'applies': False, 'detail': r.stderr.strip()[:200]}
        env = dict(os.environ, PYVC_REPO=d, PYVC_OUT=os.path.join(d, 'out'))
        r = subprocess.run([os.path.join(ROOT, 'check'), prop], env=env, cwd=ROOT, capture_output=True, text=True)
        lines = [l for l in r.stdout.splitlines() if l.startswith('VIOLATION')]
        return seed, {'property': prop, 'applies': True, 'exit': r.returncode, 'violations': len(lines),
                      'replayed_natively': sum(1 for l in lines if not l.endswith('no-failing-input-found')),
                      'first': [l.split('replay=')[1][:140] for l in lines[:3]], 'wall_s': round(time.time() - t0, 1),
                      'summary': r.stdout.strip().splitlines()[-1][:200] if r.stdout.strip() else r.stderr[-200:]}
    finally:
        shutil.rmtree(d, ignore_errors=True)


def main():
    jobs = int(sys.argv[sys.argv.index('--jobs') + 1]) if '--jobs' in sys.argv else 5
    only = sys.argv[sys.argv.index('--only') + 1] if '--only' in sys.argv else ''
    seeds = sorted(s for s in os.listdir(SEEDS) if os.path.isfile(os.path.join(SEEDS, s, 'patch.diff')) and only in s)
    out = {}
    with cf.ThreadPoolExecutor(jobs) as ex:
        for seed, res in ex.map(run, seeds):
            out[seed] = res
            if res.get('retired'):
                print(f"{seed:8s} RETIRED {res['retired'][:120]}", flush=True)
                continue
            print(f"{seed:8s} " + (f"exit {res['exit']} violations {res['violations']:3d} (native replay {res['replayed_natively']}) "
                                   f"{res['wall_s']}s  {res['first'][:1]}" if res['applies'] else f"PATCH DOES NOT APPLY {res['detail']}"), flush=True)
    mpath = os.path.join(SEEDS, 'MATRIX.json')
    if only and os.path.exists(mpath):
        # a partial run refreshes its own rows of the last full matrix
        full = json.load(open(mpath))
        full.update(out)
        out = dict(sorted(full.items()))
    json.dump(out, open(mpath, 'w'), indent=1)
    live = {s: r for s, r in out.items() if not r.get('retired')}
    missed = [s for s, r in live.items() if r.get('applies') and r['exit'] != 1]
    print('detected', sum(1 for r in live.values() if r.get('exit') == 1), 'of', len(live), 'missed:', missed,
          'not applicable to the current tree:', [s for s, r in live.items() if not r.get('applies')],
          'retired:', [s for s, r in out.items() if r.get('retired')])


main()
