#!/bin/bash
# run every registered check (quick or thorough tier) a few at a time and print one line per property
cd "$(dirname "$0")/.."
tier=${1:-quick}; jobs=${2:-5}
ids=$(python3 -c "import json; print(' '.join(c['property_id'] for c in json.load(open('MANIFEST.json'))['checks']))")
printf '%s\n' $ids | xargs -P "$jobs" -I{} sh -c './check {} --tier '"$tier"' > /tmp/runall_{}.out 2>&1; echo "{} exit $? $(tail -1 /tmp/runall_{}.out)"'
