#!/usr/bin/env python3
"""Rewrite the B.2 table of DESIGN.md (between the TABLE-B2 markers) from the evidence files of the last run."""
import glob, json, os, re
ROOT = os.path.dirname(os.path.dirname(os.path.abspath(__file__)))
rows = ['| id  | level | contracts | obl. | solver s | wall s | tier | bounded stand-ins (cases) |',
        '|-----|-------|-----------|------|----------|--------|------|---------------------------|']
for f in sorted(glob.glob(os.path.join(ROOT, 'evidence', 'C*.json'))):
    e = json.load(open(f))
    c = e['coverage']
    b = '; '.join(f"{os.path.basename(x.get('script') or '') or x['name'][:30]} ({x.get('cases')})" for x in c['bounded']) or '–'
    b = '; '.join(f"{x['name'][:48]} ({x.get('cases')})" for x in c['bounded']) or '–'
    rows.append(f"| {e['property_id']} | {e['level']} | {len(c['functions_under_contract'])} | {c['obligations']} | "
                f"{c['solver_time_s']:.0f} | {e['wall_s']:.0f} | {e['tier']} | {b} |")
p = os.path.join(ROOT, 'DESIGN.md')
s = open(p).read()
s2 = re.sub(r'<!-- TABLE-B2 -->.*?<!-- /TABLE-B2 -->', '<!-- TABLE-B2 -->\n' + '\n'.join(rows) + '\n<!-- /TABLE-B2 -->', s, flags=re.S)
open(p, 'w').write(s2)
print('\n'.join(rows))
