#!/usr/bin/env python3
"""Apply a textual mutation (or a patch) to a scratch copy of /repo's gnpy and run a check against it.
usage: trymut.py <prop> <relative file> <old text> <new text> [--only substr]
       trymut.py <prop> --patch <patch.diff>
"""
import os, shutil, subprocess, sys, tempfile
ROOT = os.path.dirname(os.path.dirname(os.path.abspath(__file__)))
prop = sys.argv[1]
d = tempfile.mkdtemp(prefix='pyvc_mut_')
try:
    shutil.copytree('/repo/gnpy', os.path.join(d, 'gnpy'))
    extra = []
    if sys.argv[2] == '--patch':
        subprocess.run(['git', 'init', '-q'], cwd=d)
        r = subprocess.run(['git', 'apply', '--include=gnpy/*', os.path.abspath(sys.argv[3])], cwd=d)
        if r.returncode:
            print('patch failed'); sys.exit(9)
        extra = sys.argv[4:]
    else:
        f, old, new = sys.argv[2:5]
        p = os.path.join(d, f)
        s = open(p).read()
        if s.count(old) != 1:
            print(f'pattern occurs {s.count(old)} times'); sys.exit(9)
        open(p, 'w').write(s.replace(old, new))
        extra = sys.argv[5:]
    env = dict(os.environ, PYVC_REPO=d, PYVC_OUT=os.path.join(d, 'out'))      # evidence/replays of a mutant run stay in the scratch dir
    r = subprocess.run([os.path.join(ROOT, 'check'), prop] + extra, env=env, cwd=ROOT)
    print('exit', r.returncode)
    sys.exit(r.returncode)
finally:
    shutil.rmtree(d, ignore_errors=True)
