#!/usr/bin/env python3
"""Confirm a candidate seeded change independently, then file it under /verif/seeded/<name>/.

usage: confirm_seed.py <prop> <candidate dir with patch.diff demo.py meta.json> <name>
Confirms, in a scratch worktree of /repo that is removed afterwards:
  demo passes (exit 0) on the unchanged tree; patch applies; demo fails (exit 1) with the patch;
  the full test suite with the patch has exactly the passing set of the unchanged worktree baseline.
"""
import json, os, re, shutil, subprocess, sys, tempfile
ROOT = os.path.dirname(os.path.dirname(os.path.abspath(__file__)))
prop, cand, name = sys.argv[1:4]
wt = tempfile.mkdtemp(prefix='seedwt_')
os.rmdir(wt)
BASE = os.path.join(ROOT, 'seeded', 'baseline_failed.txt')
PY = '/venv/bin/python'

def sh(cmd, **kw):
    return subprocess.run(cmd, capture_output=True, text=True, **kw)

def suite(cwd):
    r = sh([PY, '-m', 'pytest', '-q', '-p', 'no:cacheprovider', '--timeout=900', '-n', '8', '-rf'], cwd=cwd)
    failed = sorted(set(re.findall(r'^FAILED (\S+)', r.stdout, re.M)))
    m = re.search(r'(\d+) failed, (\d+) passed|(\d+) passed', r.stdout)
    return failed, (r.stdout.strip().splitlines() or [''])[-1]

log = []
ok = False
try:
    sh(['git', '-C', '/repo', 'worktree', 'add', '--detach', wt, 'HEAD'])
    if not os.path.exists(BASE):
        f, line = suite(wt)
        os.makedirs(os.path.dirname(BASE), exist_ok=True)
        open(BASE, 'w').write('\n'.join(f) + '\n# ' + line + '\n')
        sh(['git', '-C', wt, 'clean', '-fdq'])
    base_failed = [l for l in open(BASE).read().splitlines() if l and not l.startswith('#')]
    shutil.copy(os.path.join(cand, 'demo.py'), os.path.join(wt, 'seed_demo.py'))
    r0 = sh([PY, 'seed_demo.py'], cwd=wt)
    log.append(f'demo on unchanged tree: exit {r0.returncode}: {(r0.stdout.strip().splitlines() or [""])[-1][:200]}')
    ra = sh(['git', '-C', wt, 'apply', os.path.abspath(os.path.join(cand, 'patch.diff'))])
    log.append(f'git apply: exit {ra.returncode} {ra.stderr.strip()[:200]}')
    r1 = sh([PY, 'seed_demo.py'], cwd=wt)
    log.append(f'demo with the change: exit {r1.returncode}: {(r1.stdout.strip().splitlines() or [""])[-1][:300]}')
    os.remove(os.path.join(wt, 'seed_demo.py'))
    failed, line = suite(wt)
    log.append(f'pytest with the change: {line}; failed set equals unchanged-worktree baseline: {failed == base_failed}')
    ok = r0.returncode == 0 and ra.returncode == 0 and r1.returncode == 1 and failed == base_failed
finally:
    sh(['git', '-C', '/repo', 'worktree', 'remove', '--force', wt])
    shutil.rmtree(wt, ignore_errors=True)
print('\n'.join(log))
print('CONFIRMED' if ok else 'REJECTED')
if ok:
    d = os.path.join(ROOT, 'seeded', name)
    os.makedirs(d, exist_ok=True)
    shutil.copy(os.path.join(cand, 'patch.diff'), d)
    shutil.copy(os.path.join(cand, 'demo.py'), d)
    try:
        meta = json.load(open(os.path.join(cand, 'meta.json')))
    except Exception:
        meta = {}
    meta.update({'property': prop, 'confirmed': log,
                 'confirmed_how': 'tools/confirm_seed.py in a scratch worktree of /repo (removed afterwards)'})
    json.dump(meta, open(os.path.join(d, 'meta.json'), 'w'), indent=1)
sys.exit(0 if ok else 1)
