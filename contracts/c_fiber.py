"""Fibre propagation: loss budget, CD/PMD/latency accumulation, NLI hand-over (C05, C02, C01, C03)."""
from .common import *   # noqa
from .c_elements import SPEC_EL

FPARAMS = obj('FiberParams', _length=real(), _att_in=real(), _con_in=real(), _con_out=real(), _loss_coef=vec1(),
              _f_loss_ref=vec1(), _ref_frequency=real(), _pmd_coef=real(), _latency=real(), _dispersion=vec1(),
              _dispersion_slope=opt(real()), _f_dispersion_ref=real())
FIBER = obj('Fiber', uid=string(), params=FPARAMS, lumped_losses=vec('nlump', lo=0), z_lumped_losses=vec('nlump', lo=0),
            pch_out_dbm=opt(vec('n')), propagated_labels=vec('n', 'str'), passive=const(True), ref_pch_in_dbm=real(),
            pch_out_db=opt(real()))

SPEC_FIB = SPEC_EL + '''
def LC(fiber):
    # scalar loss coefficient (dB/m); per-frequency tables go through interpolate_parameter_over_spectrum (not modelled)
    return fiber.params._loss_coef[0]
'''

# total lumped loss of the fibre as a ghost (product of the linear lumped losses, each once)
SPEC_LUMP = SPEC_FIB + '''
def LUMP_DB(fiber):
    # sum of the lumped losses in dB, as Fiber.loss computes it
    return sum(spec_lin2db(1 / fiber.lumped_losses))
'''

# call-site contract of the attenuation profile with the Raman computation off (verified below on the real function
# for fibres without lumped losses; with lumped losses the cumulative product is an assumed numpy contract)
contract('gnpy.core.science_utils.RamanSolver.calculate_stimulated_raman_scattering', props=[], trusted=True,
         params={'spectral_info': SI(), 'fiber': FIBER}, spec=SPEC_LUMP,
         requires=[('inv', 'INV(spectral_info)')],
         ensures=[('attenuation_positive', 'forall(lambda i: result.loss_profile[i, result.loss_profile.shape[1] - 1] > 0, NCH(spectral_info))'),
                  ('loss_budget_db', 'forall(lambda i: spec_lin2db(result.loss_profile[i, result.loss_profile.shape[1] - 1]) == '
                                     '-(LC(fiber) * fiber.params._length) - LUMP_DB(fiber), NCH(spectral_info))')],
         returns=obj('<ns>', loss_profile=mat_dims('NCH(spectral_info)', 'nz')),
         note='Raman flag off: last column of the loss profile = exp(-alpha L) x product of the lumped losses, i.e. '
              'loss_coef x length + sum of lumped losses in dB')

contract('gnpy.core.science_utils.NliSolver.compute_nli', name='gnpy.core.science_utils.NliSolver.compute_nli[call-site summary]',
         props=[], trusted=True,
         params={'spectral_info': SI(), 'srs': obj('<ns>'), 'fiber': FIBER}, spec=SPEC_INV,
         ensures=[('nli_nonneg', 'forall(lambda i: result[i] >= 0, NCH(spectral_info))'),
                  # STATED ASSUMPTION of C01: first-order NLI stays below the channel power (launch powers up to +10 dBm)
                  ('nli_below_channel_power', 'forall(lambda i: result[i] <= spectral_info._pch[i], NCH(spectral_info))')],
         returns=vec_len('NCH(spectral_info)'),
         note='NLI >= 0 is proved for the analytic GN model (C03); NLI <= channel power is the stated assumption of C01')


_SI = 'spectral_info'
contract('gnpy.core.elements.Fiber.propagate', props=['C05', 'C02', 'C01'],
         params={'self': FIBER, 'spectral_info': SI()}, spec=SPEC_LUMP,
         let={'si': 'spectral_info', 'n': 'NCH(spectral_info)', 'p': 'self.params',
              'cd': 'self.chromatic_dispersion(spectral_info._frequency)'},
         requires=[('inv', 'INV(spectral_info)'), ('length', 'self.params._length >= 0')],
         ensures=[('inv', 'INV(spectral_info)'),
                  # loss budget in dB, per channel (Raman computation off)
                  ('loss_budget', 'forall(lambda i: W(old(si._pch)[i]) - W(si._pch[i]) == p._att_in + p._con_in + '
                                  'LC(self) * p._length + LUMP_DB(self) + p._con_out, n)'),
                  ('same_budget_as_Fiber_loss', 'forall(lambda i: W(old(si._pch)[i]) - W(si._pch[i]) == self.loss, n)'),
                  # a (non-Raman) fibre can only lower SNR_NLI; OSNR_ASE unchanged
                  ('osnr_ase_kept', 'forall(lambda i: si._signal_ratio[i] * old(si._ase_ratio)[i] == old(si._signal_ratio)[i] * si._ase_ratio[i], n)'),
                  ('snr_nli_not_up', 'forall(lambda i: si._signal_ratio[i] * old(si._nli_ratio)[i] <= old(si._signal_ratio)[i] * si._nli_ratio[i], n)'),
                  ('gsnr_not_up', 'forall(lambda i: si._signal_ratio[i] <= old(si._signal_ratio)[i], n)'),
                  # accumulation: CD and latency add, PMD adds in quadrature
                  ('cd_adds', 'forall(lambda i: si._chromatic_dispersion[i] == old(si._chromatic_dispersion)[i] + cd[i], n)'),
                  ('latency_adds', 'forall(lambda i: si._latency[i] == old(si._latency)[i] + p._latency, n)'),
                  ('pmd_quadrature', 'forall(lambda i: si._pmd[i] ** 2 == old(si._pmd)[i] ** 2 + p._pmd_coef ** 2 * p._length and si._pmd[i] >= 0, n)'),
                  ('pdl_untouched', 'forall(lambda i: si._pdl[i] == old(si._pdl)[i], n)')],
         modifies=['spectral_info._pch', 'spectral_info._signal_ratio', 'spectral_info._ase_ratio', 'spectral_info._nli_ratio',
                   'spectral_info._chromatic_dispersion', 'spectral_info._pmd', 'spectral_info._latency',
                   ('self.pch_out_dbm', vec_len('NCH(spectral_info)')), 'self.propagated_labels'])

# ---------------------------------------------------------------- attenuation profile, Raman computation off (C05)
# ASSUMED (np.unique / argsort / cumprod; checked bounded in bounded/lumped_losses.py): the merged position grid ends
# at the fibre end and the cumulative product of the merged losses ends at the product of all lumped losses
contract('gnpy.core.science_utils.RamanSolver._create_lumped_losses', trusted=True, props=[],
         params={'z': vec('nz0'), 'lumped_losses': vec('nlump', lo=0), 'z_lumped_losses': vec('nlump', lo=0)},
         ensures=[('ends_at_fibre_end', 'result[0][len(result[0]) - 1] == z[len(z) - 1]'),
                  ('total_lumped_loss', 'spec_lin2db(cumprod(result[1])[len(result[1]) - 1]) == -sum(spec_lin2db(1 / lumped_losses))'),
                  ('positive', 'cumprod(result[1])[len(result[1]) - 1] > 0'),
                  ('same_length', 'len(result[0]) == len(result[1])')],
         returns=tup(vec('nzm', lo=2), vec('nzm', lo=2)),
         note='ASSUMED for lumped-loss positions pairwise distinct and strictly inside the fibre (bounded check; two losses '
              'at one position are applied once: finding F7)')

SIMP_OFF = {('gnpy.core.science_utils', 'sim_params'):
            (lambda it: __import__('pyvc.vals', fromlist=['Obj']).Obj('<ns>', {
                'raman_params': __import__('pyvc.vals', fromlist=['Obj']).Obj('<ns>', {'flag': False}),
                'nli_params': __import__('pyvc.vals', fromlist=['Obj']).Obj('<ns>', {'method': 'gn_model_analytic'})}))}
contract('gnpy.core.science_utils.RamanSolver.calculate_stimulated_raman_scattering',
         name='gnpy.core.science_utils.RamanSolver.calculate_stimulated_raman_scattering[Raman off]', props=['C05'],
         params={'spectral_info': SI(), 'fiber': FIBER}, spec=SPEC_LUMP, overrides=SIMP_OFF, use_at_calls=False,
         inline_callees=['gnpy.core.elements.Fiber.alpha'],
         let={'lp': 'result.loss_profile', 'last': 'result.loss_profile.shape[1] - 1'},
         requires=[('inv', 'INV(spectral_info)')],
         ensures=[('attenuation_positive', 'forall(lambda i: lp[i, last] > 0, NCH(spectral_info))'),
                  # exp(-alpha L) x lumped losses  ==  loss_coef x length + lumped losses, in dB
                  ('loss_budget_db', 'forall(lambda i: spec_lin2db(lp[i, last]) == -(LC(fiber) * fiber.params._length) - LUMP_DB(fiber), '
                                     'NCH(spectral_info))')],
         modifies=[])

# ---------------------------------------------------------------- RamanFiber.propagate (Raman computation on): the two Raman solver
# calls are opaque - they hand back a per-channel net attenuation profile v (> 0) and a spontaneous Raman ASE (>= 0), carried
# here as ghost fields of the fibre; the contract fixes everything the element itself does around them
from pyvc.vals import Obj as _Obj, Builtin as _Builtin, Mat as _Mat
RAMANFIBER = obj('RamanFiber', **dict(FIBER.fields, ghost_profile=vec('n'), ghost_ase=vec('n'), actual_raman_gain=real()))
OV_RAMAN_EL = {('gnpy.core.elements', 'RamanSolver'): lambda it: _Obj('<ns>', {
    'calculate_stimulated_raman_scattering': _Builtin('srs', lambda it2, a, k: _Obj('<ns>', {
        'loss_profile': _Mat(a[1].fields['ghost_profile'].n, 2, lambda i, j, v=a[1].fields['ghost_profile']: v.at(i))})),
    'calculate_spontaneous_raman_scattering': _Builtin('spont', lambda it2, a, k: a[2].fields['ghost_ase'])})}
contract('gnpy.core.elements.RamanFiber.propagate', props=['C05', 'C01', 'C03', 'C09'], overrides=OV_RAMAN_EL,
         params={'self': RAMANFIBER, 'spectral_info': SI()}, spec=SPEC_LUMP,
         let={'si': 'spectral_info', 'n': 'NCH(spectral_info)', 'p': 'self.params', 'v': 'self.ghost_profile', 'ase': 'self.ghost_ase',
              'cd': 'self.chromatic_dispersion(spectral_info._frequency)'},
         requires=[('inv', 'INV(spectral_info)'), ('length', 'self.params._length >= 0'),
                   ('solver_profile_positive', 'forall(lambda i: self.ghost_profile[i] > 0, NCH(spectral_info))'),
                   ('solver_ase_nonneg', 'forall(lambda i: self.ghost_ase[i] >= 0, NCH(spectral_info))')],
         ensures=[('inv', 'INV(spectral_info)'),
                  # padding + input connector in front of the Raman solver, its profile, then the output connector; the
                  # spontaneous Raman ASE is added at the input side of the profile
                  ('power_budget', 'forall(lambda i: si._pch[i] * spec_db2lin(p._con_out) == '
                                   '(old(si._pch)[i] / spec_db2lin(p._con_in + p._att_in) + ase[i]) * v[i], n)'),
                  ('cd_adds', 'forall(lambda i: si._chromatic_dispersion[i] == old(si._chromatic_dispersion)[i] + cd[i], n)'),
                  ('latency_adds', 'forall(lambda i: si._latency[i] == old(si._latency)[i] + p._latency, n)'),
                  ('pmd_quadrature', 'forall(lambda i: si._pmd[i] ** 2 == old(si._pmd)[i] ** 2 + p._pmd_coef ** 2 * p._length and si._pmd[i] >= 0, n)'),
                  ('pdl_untouched', 'forall(lambda i: si._pdl[i] == old(si._pdl)[i], n)')],
         modifies=['spectral_info._pch', 'spectral_info._signal_ratio', 'spectral_info._ase_ratio', 'spectral_info._nli_ratio',
                   'spectral_info._chromatic_dispersion', 'spectral_info._pmd', 'spectral_info._latency',
                   ('self.pch_out_dbm', vec_len('NCH(spectral_info)')), 'self.propagated_labels', 'self.actual_raman_gain'],
         use_at_calls=False,
         note='RamanSolver.calculate_stimulated_raman_scattering / calculate_spontaneous_raman_scattering are opaque (ghost results)')

# accumulated chromatic dispersion of one fibre: D(f) L with D = -(beta2 + 2 pi beta3 (f - f_ref)) 2 pi f_ref^2 / c
contract('gnpy.core.elements.Fiber.beta3', name='gnpy.core.elements.Fiber.beta3[call-site summary]', trusted=True, props=[],
         params={'self': FIBER, 'frequency': vec('n')}, ensures=[], returns=vec_len('len(frequency)'), pure=True,
         note='ASSUMED pure per-channel coefficient of the fibre')
contract('gnpy.core.elements.Fiber.chromatic_dispersion', props=['C05'],
         params={'self': FIBER, 'freq': vec('n')},
         let={'b2': 'self.beta2(freq)', 'b3': 'self.beta3(freq)', 'fr': 'self.params._ref_frequency', 'c0': '299792458'},
         ensures=[('dispersion_times_length', 'forall(lambda i: at(result, i) == -(b2[i] + 2 * pi * b3[i] * (freq[i] - fr)) * 2 * pi * fr ** 2 / c0 '
                                              '* self.params._length, len(freq))')],
         use_at_calls=False, modifies=[])

# the loss budget the design works with: fibre attenuation at the reference frequency, padding, both connectors, and every
# lumped loss once, as a loss (LUMP_DB: the lumped factors are attenuations < 1, counted as 10 log10(1 / factor))
contract('gnpy.core.elements.Fiber.loss', name='gnpy.core.elements.Fiber.loss[scalar loss coefficient]', props=['C05', 'C09', 'C08'],
         params={'self': FIBER}, spec=SPEC_LUMP, use_at_calls=False,
         ensures=[('budget', 'result == LC(self) * self.params._length + self.params._con_in + self.params._con_out + self.params._att_in '
                             '+ LUMP_DB(self)')],
         modifies=[])
