"""gnpy/core/elements.py — per-element propagation (C01, C02, C04, C05, C06, C13)."""
from .common import *   # noqa

SPEC_EL = SPEC_INV + '''
def W(p):
    return spec_lin2db(p * 1000)
def shares_kept(si, osi):
    return forall(lambda i: si._signal_ratio[i] == osi._signal_ratio[i] and si._ase_ratio[i] == osi._ase_ratio[i]
                  and si._nli_ratio[i] == osi._nli_ratio[i], si._number_of_channels)
'''

# ---------------------------------------------------------------- Fused
FUSED = obj('Fused', loss=real(), uid=string(), passive=const(True))
contract('gnpy.core.elements.Fused.propagate', props=['C01', 'C02', 'C05'],
         params={'self': FUSED, 'spectral_info': SI()}, spec=SPEC_EL,
         requires=[('inv', 'INV(spectral_info)')],
         ensures=[('inv', 'INV(spectral_info)'),
                  ('loss_db', 'forall(lambda i: W(spectral_info._pch[i]) == W(old(spectral_info._pch)[i]) - self.loss, NCH(spectral_info))')],
         modifies=['spectral_info._pch'])

# ---------------------------------------------------------------- Roadm
ROADM = obj('Roadm', uid=string(),
            per_degree_pch_out_dbm=sdict(), per_degree_pch_psd=sdict(), per_degree_pch_psw=sdict(),
            target_pch_out_dbm=opt(real()), target_psd_out_mWperGHz=opt(real()), target_out_mWperSlotWidth=opt(real()),
            ref_carrier=obj('ReferenceCarrier', baud_rate=real(), slot_width=real()),
            ref_pch_in_dbm=sdict(), ref_pch_out_dbm=opt(real()), ref_effective_loss=opt(real()),
            pch_out_dbm=opt(vec('n')), loss_pch_db=opt(vec('n')), propagated_labels=vec('n', 'str'))

# assumed contract (loop over the spectrum with data-dependent matching): one value per channel, max-loss >= 0
contract('gnpy.core.elements.Roadm.get_impairment', trusted=True, props=[],
         params={'self': ROADM, 'impairment': string(), 'frequency_array': vec('n'), 'from_degree': string(),
                 'degree': string()},
         ensures=[('maxloss_nonneg', "implies(impairment == 'roadm-maxloss', forall(lambda i: result[i] >= 0, len(frequency_array)))")],
         returns=vec_len('len(frequency_array)'), pure=True,
         note='ASSUMED: every channel frequency falls in an impairment band whose value is set; roadm-maxloss >= 0 '
              '(library data; default 0)')

SPEC_ROADM = SPEC_EL + '''
def PSD(x, bw):
    return spec_lin2db(bw * x * 1e-9)
def TGT(r, degree, si, i):
    # the egress degree's own setting if one exists, else the node's: constant power | PSD x baud rate | PSW x slot
    return (r.per_degree_pch_out_dbm[degree] if degree in r.per_degree_pch_out_dbm else
            PSD(r.per_degree_pch_psd[degree], si._baud_rate[i]) if degree in r.per_degree_pch_psd else
            PSD(r.per_degree_pch_psw[degree], si._slot_width[i]) if degree in r.per_degree_pch_psw else
            r.target_pch_out_dbm if r.target_pch_out_dbm is not None else
            PSD(r.target_psd_out_mWperGHz, si._baud_rate[i]) if r.target_psd_out_mWperGHz is not None else
            PSD(r.target_out_mWperSlotWidth, si._slot_width[i]))
def MINR(a, b):
    return a if a <= b else b
'''
# the same precedence for the reference carrier (what the design of the next span and the per-degree reference power use)
SPEC_ROADM_REF = SPEC_ROADM + '''
def TGT_REF(r, degree):
    return (r.per_degree_pch_out_dbm[degree] if degree in r.per_degree_pch_out_dbm else
            PSD(r.per_degree_pch_psd[degree], r.ref_carrier.baud_rate) if degree in r.per_degree_pch_psd else
            PSD(r.per_degree_pch_psw[degree], r.ref_carrier.slot_width) if degree in r.per_degree_pch_psw else
            r.target_pch_out_dbm if r.target_pch_out_dbm is not None else
            PSD(r.target_psd_out_mWperGHz, r.ref_carrier.baud_rate) if r.target_psd_out_mWperGHz is not None else
            PSD(r.target_out_mWperSlotWidth, r.ref_carrier.slot_width))
'''
_SOME_TARGET = ('some_target', 'self.target_pch_out_dbm is not None or self.target_psd_out_mWperGHz is not None or '
                               'self.target_out_mWperSlotWidth is not None')
_POS_REF = ('ref_carrier', 'self.ref_carrier.baud_rate > 0 and self.ref_carrier.slot_width > 0')
_POS_DENS = ('positive_densities', 'implies(degree in self.per_degree_pch_psd, self.per_degree_pch_psd[degree] > 0) and '
                                   'implies(degree in self.per_degree_pch_psw, self.per_degree_pch_psw[degree] > 0) and '
                                   'implies(self.target_psd_out_mWperGHz is not None, self.target_psd_out_mWperGHz > 0) and '
                                   'implies(self.target_out_mWperSlotWidth is not None, self.target_out_mWperSlotWidth > 0)')
contract('gnpy.core.elements.Roadm.get_per_degree_ref_power', props=['C06', 'C09'],
         params={'self': ROADM, 'degree': string()}, spec=SPEC_ROADM_REF,
         requires=[_SOME_TARGET, _POS_REF, _POS_DENS],
         ensures=[('degree_setting_before_node_setting', 'result == TGT_REF(self, degree)')],
         returns=real(), use_at_calls=False, modifies=[])
contract('gnpy.core.elements.Roadm.get_per_degree_power', props=['C06'],
         params={'self': ROADM, 'degree': string(), 'spectral_info': SI()}, spec=SPEC_ROADM_REF,
         let={'si': 'spectral_info', 'n': 'NCH(spectral_info)'},
         requires=[_SOME_TARGET, _POS_DENS, ('bw', 'forall(lambda i: si._baud_rate[i] > 0 and si._slot_width[i] > 0, n)')],
         # scalar (constant power) or one value per channel, always the target TGT of Roadm.propagate
         ensures=[('degree_setting_before_node_setting', 'forall(lambda i: at(result, i) == TGT(self, degree, si, i), n)')],
         use_at_calls=False, modifies=[])
contract('gnpy.core.elements.Roadm.get_roadm_target_power', name='gnpy.core.elements.Roadm.get_roadm_target_power[reference carrier]',
         props=['C06', 'C09'],
         params={'self': ROADM, 'spectral_info': const(None)}, spec=SPEC_ROADM_REF,
         requires=[_POS_REF, ('positive_densities', 'implies(self.target_psd_out_mWperGHz is not None, self.target_psd_out_mWperGHz > 0) and '
                                                    'implies(self.target_out_mWperSlotWidth is not None, self.target_out_mWperSlotWidth > 0)')],
         ensures=[('power_before_psd_before_psw', 'implies(self.target_pch_out_dbm is not None, result == self.target_pch_out_dbm) and '
                   'implies(self.target_pch_out_dbm is None and self.target_psd_out_mWperGHz is not None, result == PSD(self.target_psd_out_mWperGHz, self.ref_carrier.baud_rate)) and '
                   'implies(self.target_pch_out_dbm is None and self.target_psd_out_mWperGHz is None and self.target_out_mWperSlotWidth is not None, '
                   'result == PSD(self.target_out_mWperSlotWidth, self.ref_carrier.slot_width))'),
                  ('none_only_without_any_target', 'iff(result is None, self.target_pch_out_dbm is None and self.target_psd_out_mWperGHz is None '
                                                   'and self.target_out_mWperSlotWidth is None)')],
         use_at_calls=False, modifies=[])

contract('gnpy.core.elements.Roadm.propagate', props=['C06', 'C01', 'C02', 'C05'],
         params={'self': ROADM, 'spectral_info': SI(), 'degree': string(), 'from_degree': string()}, spec=SPEC_ROADM,
         let={'maxloss': "self.get_impairment('roadm-maxloss', spectral_info._frequency, from_degree, degree)",
              'pmd_i': "self.get_impairment('roadm-pmd', spectral_info._frequency, from_degree, degree)",
              'pdl_i': "self.get_impairment('roadm-pdl', spectral_info._frequency, from_degree, degree)",
              'n': 'NCH(spectral_info)'},
         requires=[('inv', 'INV(spectral_info)'),
                   ('one_policy', 'degree in self.per_degree_pch_out_dbm or degree in self.per_degree_pch_psd or '
                                  'degree in self.per_degree_pch_psw or self.target_pch_out_dbm is not None or '
                                  'self.target_psd_out_mWperGHz is not None or self.target_out_mWperSlotWidth is not None'),
                   ('ingress_known', 'from_degree in self.ref_pch_in_dbm'),
                   ('positive_widths', 'forall(lambda i: spectral_info._baud_rate[i] > 0 and spectral_info._slot_width[i] > 0, n)'),
                   ('positive_targets', 'implies(degree in self.per_degree_pch_psd, self.per_degree_pch_psd[degree] > 0) and '
                                        'implies(degree in self.per_degree_pch_psw, self.per_degree_pch_psw[degree] > 0) and '
                                        'implies(self.target_psd_out_mWperGHz is not None, self.target_psd_out_mWperGHz > 0) and '
                                        'implies(self.target_out_mWperSlotWidth is not None, self.target_out_mWperSlotWidth > 0)')],
         ensures=[('inv', 'INV(spectral_info)'),
                  ('equalised', 'forall(lambda i: W(spectral_info._pch[i]) == MINR(TGT(self, degree, spectral_info, i) + '
                                'spectral_info._delta_pdb_per_channel[i], W(old(spectral_info._pch)[i]) - maxloss[i]), n)'),
                  ('never_amplifies', 'forall(lambda i: spectral_info._pch[i] <= old(spectral_info._pch)[i], n)'),
                  ('loss_reported', 'forall(lambda i: self.loss_pch_db[i] == W(old(spectral_info._pch)[i]) - W(spectral_info._pch[i]), n)'),
                  ('pch_out_reported', 'forall(lambda i: self.pch_out_dbm[i] == W(spectral_info._pch[i]), n)'),
                  ('pmd_quadrature', 'forall(lambda i: spectral_info._pmd[i] ** 2 == old(spectral_info._pmd)[i] ** 2 + pmd_i[i] ** 2 and spectral_info._pmd[i] >= 0, n)'),
                  ('pdl_quadrature', 'forall(lambda i: spectral_info._pdl[i] ** 2 == old(spectral_info._pdl)[i] ** 2 + pdl_i[i] ** 2 and spectral_info._pdl[i] >= 0, n)'),
                  ],
         modifies=['spectral_info._pch', 'spectral_info._pmd', 'spectral_info._pdl',
                   ('self.ref_pch_out_dbm', real()), ('self.ref_effective_loss', real()),
                   ('self.pch_out_dbm', vec_len('NCH(spectral_info)')), ('self.loss_pch_db', vec_len('NCH(spectral_info)')),
                   'self.propagated_labels'])

# ---------------------------------------------------------------- Transceiver (receiver figures)
TRX = obj('Transceiver', uid=string(),
          osnr_ase_01nm=opt(vec('n')), osnr_ase=opt(vec('n')), osnr_nli=opt(vec('n')), snr=opt(vec('n')),
          snr_01nm=opt(vec('n')), baud_rate=opt(vec('n')), propagated_labels=vec('n', 'str'),
          raw_osnr_ase=opt(vec('n')), raw_osnr_ase_01nm=opt(vec('n')), raw_osnr_nli=opt(vec('n')),
          raw_snr=opt(vec('n')), raw_snr_01nm=opt(vec('n')))
_RAW = ['raw_osnr_ase', 'raw_osnr_ase_01nm', 'raw_osnr_nli', 'raw_snr', 'raw_snr_01nm']
_PUB = ['osnr_ase', 'osnr_ase_01nm', 'osnr_nli', 'snr', 'snr_01nm']

contract('gnpy.core.elements.Transceiver._calc_snr', props=['C01', 'C13'],
         params={'self': TRX, 'spectral_info': SI()}, spec=SPEC_EL,
         let={'si': 'spectral_info', 'n': 'NCH(spectral_info)'},
         requires=[('inv', 'INV(spectral_info)'),
                   ('noisy', 'forall(lambda i: si._signal_ratio[i] > 0 and si._ase_ratio[i] > 0 and si._nli_ratio[i] > 0 and si._baud_rate[i] > 0, n)')],
         ensures=[('osnr_ase', 'forall(lambda i: self.osnr_ase[i] == spec_lin2db(si._signal_ratio[i] / si._ase_ratio[i]), n)'),
                  ('osnr_nli', 'forall(lambda i: self.osnr_nli[i] == spec_lin2db(si._signal_ratio[i] / si._nli_ratio[i]), n)'),
                  ('gsnr', 'forall(lambda i: self.snr[i] == spec_lin2db(si._signal_ratio[i] / (si._ase_ratio[i] + si._nli_ratio[i])), n)'),
                  # 1/GSNR = 1/OSNR_ASE + 1/SNR_NLI in linear units, on the figures reported to the user
                  ('inverse_gsnr_identity', 'forall(lambda i: 1 / spec_db2lin(self.snr[i]) == 1 / spec_db2lin(self.osnr_ase[i]) + 1 / spec_db2lin(self.osnr_nli[i]), n)'),
                  ('in_01nm', 'forall(lambda i: self.snr_01nm[i] == self.snr[i] - spec_lin2db(12.5e9 / si._baud_rate[i]) and '
                              'self.osnr_ase_01nm[i] == self.osnr_ase[i] - spec_lin2db(12.5e9 / si._baud_rate[i]), n)')] +
                 [(f'raw_{p}', f'forall(lambda i: self.raw_{p}[i] == self.{p}[i], n)') for p in _PUB],
         modifies=[(f'self.{f}', vec_len('NCH(spectral_info)')) for f in _RAW + _PUB] +
                  [('self.baud_rate', vec_len('NCH(spectral_info)')), 'self.propagated_labels'])

contract('gnpy.core.utils.snr_sum', props=['C13'],
         params={'snr': real(), 'bw': real(), 'snr_added': real(), 'bw_added': real()},
         requires=[('bw_pos', 'bw > 0 and bw_added > 0')],
         ensures=[('inverse_sum', '1 / spec_db2lin(result) == 1 / spec_db2lin(snr) + (bw / bw_added) / spec_db2lin(snr_added)')],
         returns=real(), use_at_calls=False)

SPEC_UPD = SPEC_EL + '''
def ADDED(args):
    # sum over the contributions actually given (None = not given) of 1/osnr, linear
    return sum([0 if s is None else 1 / spec_db2lin(s) for s in args])
'''
contract('gnpy.core.elements.Transceiver.update_snr', props=['C13', 'C01'], varargs='args',
         params={'self': TRX, 'args': tup(opt(real()), opt(real()), opt(real()))}, spec=SPEC_UPD,
         let={'n': 'len(self.raw_snr)'},
         requires=[('computed', 'self.raw_snr is not None and self.raw_osnr_ase is not None and self.raw_snr_01nm is not None '
                                'and self.raw_osnr_ase_01nm is not None and self.baud_rate is not None'),
                   ('some_contribution', 'args[0] is not None or args[1] is not None or args[2] is not None'),
                   ('bw', 'forall(lambda i: self.baud_rate[i] > 0, n)')],
         # every given contribution is counted exactly once, on top of the RAW figures (no accumulation over calls)
         ensures=[('snr_01nm', 'forall(lambda i: 1 / spec_db2lin(self.snr_01nm[i]) == 1 / spec_db2lin(self.raw_snr_01nm[i]) + ADDED(args), n)'),
                  ('osnr_ase_01nm', 'forall(lambda i: 1 / spec_db2lin(self.osnr_ase_01nm[i]) == 1 / spec_db2lin(self.raw_osnr_ase_01nm[i]) + ADDED(args), n)'),
                  ('snr', 'forall(lambda i: 1 / spec_db2lin(self.snr[i]) == 1 / spec_db2lin(self.raw_snr[i]) + (self.baud_rate[i] / 12.5e9) * ADDED(args), n)'),
                  ('osnr_ase', 'forall(lambda i: 1 / spec_db2lin(self.osnr_ase[i]) == 1 / spec_db2lin(self.raw_osnr_ase[i]) + (self.baud_rate[i] / 12.5e9) * ADDED(args), n)')],
         # frame: raw_* and osnr_nli are NOT in the modifies clause
         modifies=[('self.snr_01nm', vec_len('len(self.raw_snr)')), ('self.osnr_ase_01nm', vec_len('len(self.raw_snr)')),
                   ('self.snr', vec_len('len(self.raw_snr)')), ('self.osnr_ase', vec_len('len(self.raw_snr)'))],
         note='number of contributions bounded by 3 in this contract (tx OSNR + two add/drop OSNR); the loop is a fold')

# receiver read-off of the accumulated impairments, in the units the penalty tables and the response use
for _m, _attr, _src, _k in (('_calc_cd', 'chromatic_dispersion', '_chromatic_dispersion', '1e3'), ('_calc_pmd', 'pmd', '_pmd', '1e12'),
                            ('_calc_pdl', 'pdl', '_pdl', '1'), ('_calc_latency', 'latency', '_latency', '1e3')):
    contract(f'gnpy.core.elements.Transceiver.{_m}', props=['C05', 'C13'],
             params={'self': obj('Transceiver', uid=string()), 'spectral_info': SI()}, spec=SPEC_EL,
             ensures=[('what_the_path_accumulated', f'forall(lambda i: self.{_attr}[i] == spectral_info.{_src}[i] * {_k}, NCH(spectral_info))'),
                      ('one_value_per_channel', f'len(self.{_attr}) == NCH(spectral_info)')],
             modifies=[f'self.{_attr}'], use_at_calls=False)

# ---------------------------------------------------------------- Edfa noise figure (C04)
NF_MODEL = obj('Model_vg', nf1=real(), nf2=real(), delta_p=real(), nf0=real(), nf_coef=lst(real(), real(), real(), real()))


def EDFA(type_def='variable_gain', **more):
    params = obj('EdfaParams', type_def=const(type_def), nf_model=NF_MODEL, nf_fit_coeff=lst(real(), real(), real(), real()),
                 gain_min=real(), gain_flatmax=real(), p_max=real(), f_min=real(), f_max=real(),
                 dgt=vec('nd'), gain_ripple=vec('ng'), nf_ripple=vec('nr'), pmd=real(), pdl=real(),
                 bands=lst(dct(f_min=real(), f_max=real())), type_variety=string(),
                 preamp_type_def=const('variable_gain'), preamp_nf_model=NF_MODEL, preamp_nf_fit_coeff=const(None),
                 preamp_gain_min=real(), preamp_gain_flatmax=real(),
                 booster_type_def=const('variable_gain'), booster_nf_model=NF_MODEL, booster_nf_fit_coeff=const(None),
                 booster_gain_min=real(), booster_gain_flatmax=real())
    f = dict(uid=string(), params=params, effective_gain=real(), in_voa=opt(real()), out_voa=real(),
             tilt_target=real(), delta_p=opt(real()), pin_db=real(), nch=integer(), slot_width=real(),
             interpol_dgt=vec('n'), interpol_gain_ripple=vec('n'), interpol_nf_ripple=vec('n'),
             channel_freq=vec('n'), nf=vec('n'), gprofile=vec('n'), pout_db=real(), att_in=real(),
             pch_out_dbm=opt(vec('n')), propagated_labels=vec('n', 'str'), passive=const(False))
    f.update(more)
    return obj('Edfa', **f)


SPEC_NF = '''
def NFVG(m, gmin, gmax, g):
    # documented min/max-NF model: two coils nf1, nf2, first-stage gain g - delta_p - (gmax - g) clipped at gmax,
    # and below gmin the amplifier is padded: NF grows dB for dB
    pad = gmin - g if gmin > g else 0
    ge = g + pad
    dg = gmax - ge if gmax > ge else 0
    return spec_lin2db(spec_db2lin(m.nf1) + spec_db2lin(m.nf2) / spec_db2lin(ge - m.delta_p - dg)) + pad
'''

contract('gnpy.core.elements.Edfa._nf', name='gnpy.core.elements.Edfa._nf[variable_gain]', props=['C04'],
         params={'self': EDFA(), 'type_def': const('variable_gain'), 'nf_model': NF_MODEL, 'nf_fit_coeff': const(None),
                 'gain_min': real(), 'gain_flatmax': real(), 'gain_target': real()}, spec=SPEC_NF,
         ensures=[('model', 'result[0] == NFVG(nf_model, gain_min, gain_flatmax, gain_target)'),
                  ('pad', 'result[1] == (gain_min - gain_target if gain_min > gain_target else 0)')],
         use_at_calls=False, modifies=[])

contract('gnpy.core.elements.Edfa._nf', name='gnpy.core.elements.Edfa._nf[fixed_gain]', props=['C04'],
         params={'self': EDFA(), 'type_def': const('fixed_gain'), 'nf_model': NF_MODEL, 'nf_fit_coeff': const(None),
                 'gain_min': real(), 'gain_flatmax': real(), 'gain_target': real()},
         ensures=[('model', 'result[0] == nf_model.nf0 + (gain_min - gain_target if gain_min > gain_target else 0)')],
         use_at_calls=False, modifies=[])

contract('gnpy.core.elements.Edfa._nf', name='gnpy.core.elements.Edfa._nf[unknown type]', props=['C04'],
         params={'self': EDFA(), 'type_def': const('no_such_model'), 'nf_model': NF_MODEL, 'nf_fit_coeff': const(None),
                 'gain_min': real(), 'gain_flatmax': real(), 'gain_target': real()},
         raises={'EquipmentConfigError': 'True'}, ensures=[], use_at_calls=False, modifies=[])

# OpenROADM models: the MSA gives OSNR (0.1 nm) against the input power per 50 GHz slot; a channel in a slot of width w
# carries 50 GHz / w of its power per 50 GHz, so P50 = Pin_total - 10 log10(nch) + 10 log10(50 GHz / w), NF = P50 - OSNR(P50) + 58
SPEC_ORM = '''
def P50(amp):
    return amp.pin_db - spec_lin2db(amp.nch) + spec_lin2db(50e9 / amp.slot_width)
def PADG(gmin, g):
    return gmin - g if gmin > g else 0
'''
_NFP = {'nf_model': NF_MODEL, 'nf_fit_coeff': const(None), 'gain_min': real(), 'gain_flatmax': real(), 'gain_target': real()}
contract('gnpy.core.elements.Edfa._nf', name='gnpy.core.elements.Edfa._nf[openroadm]', props=['C04'], spec=SPEC_ORM,
         params={'self': EDFA(), 'type_def': const('openroadm'), **_NFP},
         requires=[('channels', 'self.nch > 0 and self.slot_width > 0')],
         let={'c': 'nf_model.nf_coef', 'x': 'P50(self)'},
         ensures=[('msa_polynomial', 'result[0] == x - (((c[0] * x + c[1]) * x + c[2]) * x + c[3]) + 58 + PADG(gain_min, gain_target)')],
         use_at_calls=False, modifies=[])
contract('gnpy.core.elements.Edfa._nf', name='gnpy.core.elements.Edfa._nf[openroadm_preamp]', props=['C04'], spec=SPEC_ORM,
         params={'self': EDFA(), 'type_def': const('openroadm_preamp'), **_NFP},
         requires=[('channels', 'self.nch > 0 and self.slot_width > 0')],
         let={'x': 'P50(self)', 'osnr': '(4 * P50(self) + 275) / 7'},
         ensures=[('msa_preamp_mask', 'result[0] == x - (osnr if osnr <= 33 else 33) + 58 + PADG(gain_min, gain_target)')],
         use_at_calls=False, modifies=[])
contract('gnpy.core.elements.Edfa._nf', name='gnpy.core.elements.Edfa._nf[advanced_model]', props=['C04'], spec=SPEC_ORM,
         params={'self': EDFA(), 'type_def': const('advanced_model'), 'nf_model': const(None), 'nf_fit_coeff': lst(real(), real(), real(), real()),
                 'gain_min': real(), 'gain_flatmax': real(), 'gain_target': real()},
         # polynomial in the gain reduction below maximum flat gain (after padding up to minimum gain)
         let={'c': 'nf_fit_coeff', 'g': 'gain_target + PADG(gain_min, gain_target)', 'dg': 'gain_flatmax - g if gain_flatmax > g else 0'},
         ensures=[('fit_polynomial', 'result[0] == (((c[0] * (-dg) + c[1]) * (-dg) + c[2]) * (-dg) + c[3]) + PADG(gain_min, gain_target)')],
         use_at_calls=False, modifies=[])

# relational laws of the min/max-NF model, on the real _nf (two runs of the real code in one harness)
H_NF2 = '''
def nf_two_gains(amp, nf_model, gain_min, gain_flatmax, g1, g2):
    a = amp._nf('variable_gain', nf_model, None, gain_min, gain_flatmax, g1)
    b = amp._nf('variable_gain', nf_model, None, gain_min, gain_flatmax, g2)
    return (a[0], b[0])
'''
contract('harness:nf_two_gains', harness=H_NF2, module='gnpy.core.elements', props=['C04'],
         params={'amp': EDFA(), 'nf_model': NF_MODEL, 'gain_min': real(), 'gain_flatmax': real(), 'g1': real(), 'g2': real()},
         requires=[('ordered', 'g1 <= g2'), ('range', 'gain_min <= gain_flatmax')],
         ensures=[('nf_non_increasing_with_gain', 'result[0] >= result[1]'),
                  ('dB_for_dB_below_min_gain', 'implies(g2 == gain_min, result[0] == result[1] + (gain_min - g1))')],
         modifies=[])

# nf1/nf2/delta_p derived from the datasheet (nf_min at max flat gain, nf_max at min gain) reproduce them through the
# real _nf: three real functions in one harness
H_NF_END = '''
def nf_endpoints(amp, type_variety, gain_min, gain_max, nf_min, nf_max):
    from gnpy.tools.json_io import Model_vg
    from gnpy.core.science_utils import estimate_nf_model
    nf1, nf2, delta_p = estimate_nf_model(type_variety, gain_min, gain_max, nf_min, nf_max)
    m = Model_vg(nf1, nf2, delta_p, nf_min, nf_max)
    at_max = amp._nf('variable_gain', m, None, gain_min, gain_max, gain_max)
    at_min = amp._nf('variable_gain', m, None, gain_min, gain_max, gain_min)
    return (at_max[0], at_min[0], nf1, nf2, delta_p)
'''
contract('harness:nf_endpoints', harness=H_NF_END, module='gnpy.core.elements', props=['C04'],
         params={'amp': EDFA(), 'type_variety': string(), 'gain_min': real(), 'gain_max': real(), 'nf_min': real(),
                 'nf_max': real()},
         requires=[('range', 'gain_min < gain_max')],
         # degenerate datasheets (coils that cancel) are refused, or divide by zero in the inversion formulas
         raises={'EquipmentConfigError': None, 'ZeroDivisionError': None},
         ensures=[('nf_min_at_max_flat_gain', '-0.01 <= result[0] - nf_min and result[0] - nf_min <= 0.01'),
                  ('nf_max_at_min_gain', '-0.01 <= result[1] - nf_max and result[1] - nf_max <= 0.01'),
                  ('first_coil_at_least_4dB', 'result[2] >= 4')],
         modifies=[])

# ---------------------------------------------------------------- Edfa propagation (C04, C01, C02, C05)
# ASSUMED (numerical: polyfit + one secant step): the gain profile is one value per channel.  The claim "its
# power-weighted mean equals the effective gain" is checked bounded in bounded/gain_profile.py.
contract('gnpy.core.elements.Edfa._gain_profile', trusted=True, props=[],
         params={'self': EDFA(), 'pin': vec('n'), 'err_tolerance': real(), 'simple_opt': boolean()},
         ensures=[], returns=vec_len('len(pin)'), pure=True,
         note='ASSUMED: returns one gain value (dB) per channel; normalisation to effective_gain is a bounded check')

for _avg in (True, False):
    contract('gnpy.core.elements.Edfa._calc_nf', name=f'gnpy.core.elements.Edfa._calc_nf[single stage, avg={_avg}]', props=['C04'],
             params={'self': EDFA('variable_gain'), 'avg': const(_avg)}, spec=SPEC_NF,
             let={'p': 'self.params'},
             ensures=([('avg', 'result == NFVG(p.nf_model, p.gain_min, p.gain_flatmax, self.effective_gain)')] if _avg else
                      [('per_channel', 'forall(lambda i: result[i] == self.interpol_nf_ripple[i] + '
                                       'NFVG(p.nf_model, p.gain_min, p.gain_flatmax, self.effective_gain), len(self.interpol_nf_ripple))')]) +
                     [('pad_recorded', 'self.att_in == (p.gain_min - self.effective_gain if p.gain_min > self.effective_gain else 0)')],
             modifies=['self.att_in'], use_at_calls=False)

contract('gnpy.core.elements.Edfa._calc_nf', name='gnpy.core.elements.Edfa._calc_nf[dual stage]', props=['C04', 'C10'],
         params={'self': EDFA('dual_stage'), 'avg': const(True)}, spec=SPEC_NF,
         let={'p': 'self.params', 'g1': 'self.params.preamp_gain_flatmax'},
         # Friis: nf = nf_pre(g1) + nf_boost(g - g1) / g1, the preamp at its maximum flat gain
         ensures=[('friis', 'spec_db2lin(result) == spec_db2lin(NFVG(p.preamp_nf_model, p.preamp_gain_min, p.preamp_gain_flatmax, g1)) + '
                            'spec_db2lin(NFVG(p.booster_nf_model, p.booster_gain_min, p.booster_gain_flatmax, self.effective_gain - g1)) / spec_db2lin(g1)'),
                  ('no_pad', 'self.att_in == 0')],
         modifies=['self.att_in'], use_at_calls=False)

# dual stage whose two stages are described by their own NF polynomials (advanced models): each stage is rated with its OWN fit
_P4 = lambda: lst(real(), real(), real(), real())
_EDFA_DS_ADV = EDFA('dual_stage')
_EDFA_DS_ADV = extend(_EDFA_DS_ADV, params=extend(_EDFA_DS_ADV.fields['params'], preamp_type_def=const('advanced_model'),
                                                  booster_type_def=const('advanced_model'), preamp_nf_model=const(None),
                                                  booster_nf_model=const(None), preamp_nf_fit_coeff=_P4(), booster_nf_fit_coeff=_P4()))
contract('gnpy.core.elements.Edfa._calc_nf', name='gnpy.core.elements.Edfa._calc_nf[dual stage, advanced-model stages]', props=['C04', 'C10'],
         params={'self': _EDFA_DS_ADV, 'avg': const(True)}, spec=SPEC_ORM + '''
def POLY(c, gmin, gmax, gt):
    g = gt + PADG(gmin, gt)
    dg = gmax - g if gmax > g else 0
    return (((c[0] * (-dg) + c[1]) * (-dg) + c[2]) * (-dg) + c[3]) + PADG(gmin, gt)
''',
         let={'p': 'self.params', 'g1': 'self.params.preamp_gain_flatmax'},
         ensures=[('friis_with_each_stages_own_polynomial',
                   # (written as the sum of the two noise factors, the second referred to the input through the first stage's gain)
                   'result == spec_lin2db(spec_db2lin(POLY(p.preamp_nf_fit_coeff, p.preamp_gain_min, p.preamp_gain_flatmax, g1)) + '
                   'spec_db2lin(POLY(p.booster_nf_fit_coeff, p.booster_gain_min, p.booster_gain_flatmax, self.effective_gain - g1) - g1))')],
         modifies=['self.att_in'], use_at_calls=False)

contract('gnpy.core.elements.Edfa.noise_profile', props=['C04'],
         params={'self': EDFA(), 'spectral_info': SI()},
         # quantum-limited ASE referred to the input: h * f * B * NF
         ensures=[('ase', 'forall(lambda i: result[i] == 6.62607015e-34 * spectral_info._frequency[i] * '
                          'spectral_info._baud_rate[i] * spec_db2lin(self.nf[i]), NCH(spectral_info))'),
                  ('len', 'len(result) == NCH(spectral_info)')],
         spec=SPEC_INV, returns=vec_len('NCH(spectral_info)'), pure=True, modifies=[])

_IP_MOD = [('self.channel_freq', vec_len('NCH(spectral_info)')), ('self.interpol_dgt', vec_len('NCH(spectral_info)')),
           ('self.interpol_gain_ripple', vec_len('NCH(spectral_info)')), ('self.interpol_nf_ripple', vec_len('NCH(spectral_info)')),
           ('self.nch', integer()), ('self.pin_db', real()), ('self.slot_width', real()), ('self.effective_gain', real()),
           ('self.nf', vec_len('NCH(spectral_info)')), ('self.gprofile', vec_len('NCH(spectral_info)')),
           ('self.pout_db', real()), ('self.att_in', real())]

contract('gnpy.core.elements.Edfa.interpol_params', props=['C04'],
         params={'self': EDFA('variable_gain'), 'spectral_info': SI()}, spec=SPEC_EL + SPEC_NF,
         let={'p': 'self.params', 'n': 'NCH(spectral_info)'},
         requires=[('inv', 'INV(spectral_info)')],
         # a one-channel spectrum is amplified like any other (F16, fixed: the slot width was read from the first two channels)
         ensures=[('pin_is_total_input_power', 'self.pin_db == W(sum(spectral_info._pch))'),
                  # saturation clamp on TOTAL power: reduced only as far as needed
                  ('clamp', 'self.effective_gain == (old(self.effective_gain) if old(self.effective_gain) <= p.p_max - self.pin_db '
                            'else p.p_max - self.pin_db)'),
                  ('never_above_p_max', 'self.pin_db + self.effective_gain <= p.p_max'),
                  ('nf_model', 'forall(lambda i: self.nf[i] == self.interpol_nf_ripple[i] + '
                               'NFVG(p.nf_model, p.gain_min, p.gain_flatmax, self.effective_gain), n)'),
                  ('nch', 'self.nch == n'),
                  # the three tables of the model (tilt shape, gain ripple, NF ripple) are laid over the amplifier's own band
                  # [f_min, f_max] and read at the channel frequencies
                  ('tables_over_the_amplifier_band',
                   'forall(lambda i: self.interpol_nf_ripple[i] == interp(spectral_info._frequency, arrange_frequencies(len(p.nf_ripple), p.f_min, p.f_max), p.nf_ripple)[i] '
                   'and self.interpol_gain_ripple[i] == interp(spectral_info._frequency, arrange_frequencies(len(p.gain_ripple), p.f_min, p.f_max), p.gain_ripple)[i] '
                   'and self.interpol_dgt[i] == interp(spectral_info._frequency, arrange_frequencies(len(p.dgt), p.f_min, p.f_max), p.dgt)[i], n)')],
         modifies=_IP_MOD)

contract('gnpy.core.elements.Edfa.propagate', props=['C04', 'C01', 'C02', 'C05'],
         params={'self': EDFA('variable_gain'), 'spectral_info': SI()}, spec=SPEC_EL + SPEC_NF,
         let={'p': 'self.params', 'n': 'NCH(spectral_info)', 'si': 'spectral_info',
              'voa_in': '(1 if self.in_voa is None else spec_db2lin(self.in_voa))'},
         requires=[('inv', 'INV(spectral_info)'),
                   ('physical', 'forall(lambda i: si._frequency[i] > 0 and si._baud_rate[i] > 0, n)')],
         ensures=[('inv', 'INV(spectral_info)'),
                  # total input power is taken after the input VOA
                  ('pin_after_in_voa', 'self.pin_db == W(sum(old(si._pch) / voa_in))' ),
                  ('never_above_p_max', 'self.pin_db + self.effective_gain <= p.p_max'),
                  ('clamp', 'self.effective_gain == (old(self.effective_gain) if old(self.effective_gain) <= p.p_max - self.pin_db '
                            'else p.p_max - self.pin_db)'),
                  # ASE = h f B NF at the input, then the channel gain applies to signal and noise alike
                  ('power', 'forall(lambda i: si._pch[i] == (old(si._pch)[i] / voa_in + 6.62607015e-34 * si._frequency[i] * '
                            'si._baud_rate[i] * spec_db2lin(self.nf[i])) * spec_db2lin(self.gprofile[i] - self.out_voa), n)'),
                  ('ase_added', 'forall(lambda i: si._ase_ratio[i] * si._pch[i] == (old(si._ase_ratio)[i] * old(si._pch)[i] / voa_in + '
                                '6.62607015e-34 * si._frequency[i] * si._baud_rate[i] * spec_db2lin(self.nf[i])) * '
                                'spec_db2lin(self.gprofile[i] - self.out_voa), n)'),
                  ('snr_nli_kept', 'forall(lambda i: si._signal_ratio[i] * old(si._nli_ratio)[i] == old(si._signal_ratio)[i] * si._nli_ratio[i], n)'),
                  ('osnr_ase_not_up', 'forall(lambda i: si._signal_ratio[i] * old(si._ase_ratio)[i] <= old(si._signal_ratio)[i] * si._ase_ratio[i], n)'),
                  ('gsnr_not_up', 'forall(lambda i: si._signal_ratio[i] <= old(si._signal_ratio)[i], n)'),
                  ('pmd_quadrature', 'forall(lambda i: si._pmd[i] ** 2 == old(si._pmd)[i] ** 2 + p.pmd ** 2 and si._pmd[i] >= 0, n)'),
                  ('pdl_quadrature', 'forall(lambda i: si._pdl[i] ** 2 == old(si._pdl)[i] ** 2 + p.pdl ** 2 and si._pdl[i] >= 0, n)')],
         modifies=_IP_MOD + ['spectral_info._pch', 'spectral_info._signal_ratio', 'spectral_info._ase_ratio',
                             'spectral_info._nli_ratio', 'spectral_info._pmd', 'spectral_info._pdl',
                             ('self.pch_out_dbm', vec_len('NCH(spectral_info)')), 'self.propagated_labels'])

# ---------------------------------------------------------------- one equalisation policy per ROADM, checked where the
# parameters are loaded: a target of 0 (dBm, or a zero density) is a target
_RP_BASE = {'add_drop_osnr': real(), 'pmd': real(), 'pdl': real(), 'restrictions': dct(), 'roadm-path-impairments': const([])}
contract('gnpy.core.parameters.RoadmParams.__init__', props=['C06'],
         params={'self': obj('RoadmParams'),
                 'kwargs': dct_k({'target_pch_out_db': opt(real()), 'target_psd_out_mWperGHz': opt(real()),
                                  'target_out_mWperSlotWidth': opt(real()), **_RP_BASE})},
         kwargs_call='kwargs',
         let={'a': "kwargs['target_pch_out_db'] is not None", 'b': "kwargs['target_psd_out_mWperGHz'] is not None",
              'c': "kwargs['target_out_mWperSlotWidth'] is not None"},
         raises={'ParametersError': '(a and b) or (a and c) or (b and c)'},
         ensures=[('targets_stored_as_given', "(self.target_pch_out_db is None) == (not a) and (self.target_psd_out_mWperGHz is None) == (not b) and "
                                              "(self.target_out_mWperSlotWidth is None) == (not c) and "
                                              "implies(a, self.target_pch_out_db == kwargs['target_pch_out_db']) and "
                                              "implies(b, self.target_psd_out_mWperGHz == kwargs['target_psd_out_mWperGHz']) and "
                                              "implies(c, self.target_out_mWperSlotWidth == kwargs['target_out_mWperSlotWidth'])")],
         modifies=['self.*'], use_at_calls=False)

# ---------------------------------------------------------------- dual-stage library entries: the output stage limits the output power
_STAGE = lambda td: obj('Amp', type_def=const(td), type_variety=string(), p_max=real(), gain_flatmax=real(), gain_min=real(),
                        nf_model=NF_MODEL, nf_fit_coeff=const(None))
_DUAL = obj('Amp', type_def=const('dual_stage'), type_variety=string(), p_max=real(), gain_flatmax=real(), gain_min=real(),
            dual_stage_model=obj('<ns>', preamp_variety=const('pre'), booster_variety=const('boost')))
contract('gnpy.tools.json_io._update_dual_stage', props=['C04', 'C10'],
         params={'equipment': dct(Edfa=dct_k({'pre': _STAGE('variable_gain'), 'boost': _STAGE('fixed_gain'), 'dual': _DUAL}))},
         let={'d': "equipment['Edfa']['dual']", 'pre': "old(equipment['Edfa']['pre'])", 'boost': "old(equipment['Edfa']['boost'])",
              'gmin': "old(equipment['Edfa']['dual'].gain_min)"},
         raises={'EquipmentConfigError': "gmin < pre.gain_min"},
         # a dual-stage amplifier saturates where its output stage (the booster) does; its gain range adds up; each stage's
         # own figures are kept under the preamp_ / booster_ prefixes for the Friis composition
         ensures=[('output_power_limit_of_the_output_stage', 'd.p_max == boost.p_max'),
                  ('gains_add', 'd.gain_flatmax == pre.gain_flatmax + boost.gain_flatmax'),
                  ('stage_figures_kept', 'd.preamp_gain_flatmax == pre.gain_flatmax and d.preamp_gain_min == pre.gain_min and '
                                         'd.booster_gain_flatmax == boost.gain_flatmax and d.booster_gain_min == boost.gain_min and '
                                         "d.preamp_type_def == 'variable_gain' and d.booster_type_def == 'fixed_gain' and "
                                         'd.preamp_nf_model is pre.nf_model and d.booster_nf_model is boost.nf_model')],
         modifies=["equipment['Edfa']['dual'].*"], use_at_calls=False)
