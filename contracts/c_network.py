"""gnpy/core/network.py — auto-design arithmetic and amplifier selection (C08, C09, C10, C17)."""
from .common import *   # noqa
import itertools

SPAN = obj('<ns>', delta_power_range_db=lst(real(), real(), real()), span_loss_ref=real(), power_slope=real(),
           voa_margin=real(), voa_step=real(), target_extended_gain=real(), max_fiber_lineic_loss_for_raman=real(),
           max_length=real(), length_units=const('km'), max_loss=real(), padding=real(), EOL=real(),
           con_in=real(), con_out=real())

SPEC_NET = '''
def R2F(x, step):
    # round2float: nearest multiple of round(step, 1), then to one decimal
    return round(round(x / round(step, 1), 0) * round(step, 1), 1)
def CLAMP(x, lo, hi):
    return hi if (lo if x < lo else x) > hi else (lo if x < lo else x)
'''

contract('gnpy.core.utils.round2float', props=['C09'],
         params={'number': real(), 'step': real()}, spec=SPEC_NET,
         requires=[('step', 'round(step, 1) >= 0.01')],
         ensures=[('value', 'result == R2F(number, step)'),
                  ('within_half_a_step', 'result - number <= round(step, 1) / 2 + 0.05 and number - result <= round(step, 1) / 2 + 0.05')],
         returns=real(), pure=True)

# ghost: span_loss walks the graph (fibre/fused chain); here it is an unknown real per (network, node)
contract('gnpy.core.network.span_loss', trusted=True, props=[],
         params={'network': obj('<ns>'), 'node': obj('<ns>'), 'equipment': dct(), 'input_power': opt(real())},
         ensures=[], returns=real(), pure=True,
         note='ASSUMED: the loss of the fibre/fused chain around a node is a function of (network, node); its value is '
              'the design_span_loss cached by add_fiber_padding (C08/C17)')

EQPT_SPAN = dct(Span=dct(default=SPAN))
contract('gnpy.core.network.target_power', name='gnpy.core.network.target_power[before a ROADM]', props=['C09'],
         params={'network': obj('<ns>'), 'node': obj('Roadm'), 'equipment': EQPT_SPAN, 'deviation_db': real()},
         ensures=[('zero_before_roadm', 'result == 0')], use_at_calls=False)
contract('gnpy.core.network.target_power', name='gnpy.core.network.target_power[line]', props=['C09'],
         params={'network': obj('<ns>'), 'node': obj('Fiber'), 'equipment': EQPT_SPAN, 'deviation_db': real()},
         spec=SPEC_NET, let={'sp': "equipment['Span']['default']", 'loss': 'span_loss(network, node, equipment)'},
         requires=[('step', 'round(sp.delta_power_range_db[2], 1) >= 0.01'),
                   ('range', 'sp.delta_power_range_db[0] <= sp.delta_power_range_db[1]')],
         # documented rule: slope x (next span loss - reference), rounded to the step, clamped to the range
         ensures=[('rule', 'result == CLAMP(R2F((loss + deviation_db - sp.span_loss_ref) * sp.power_slope, sp.delta_power_range_db[2]), '
                           'sp.delta_power_range_db[0], sp.delta_power_range_db[1])'),
                  ('inside_range', 'sp.delta_power_range_db[0] <= result and result <= sp.delta_power_range_db[1]')],
         returns=real(), pure=True)

AMPN = obj('Edfa', uid=string(), out_voa=opt(real()), in_voa=opt(real()), delta_p=opt(real()), effective_gain=opt(real()),
           tilt_target=opt(real()), _delta_p=opt(real()), target_pch_out_dbm=opt(real()), type_variety=string(),
           operational=obj('<ns>', delta_p=opt(real()), tilt_target=opt(real()), gain_target=opt(real()), out_voa=opt(real())),
           params=obj('EdfaParams', p_max=real(), gain_flatmax=real(), gain_min=real(), out_voa_auto=boolean(),
                      type_variety=string(), raman=boolean()))

contract('gnpy.core.network.set_amplifier_voa', props=['C09', 'C08'],
         params={'amp': AMPN, 'power_target': real(), 'power_mode': boolean(), 'voa_margin': real(), 'voa_step': real()},
         spec=SPEC_NET,
         let={'auto': 'old(amp.out_voa) is None and power_mode and amp.params.out_voa_auto',
              'room': '(amp.params.p_max - power_target if amp.params.p_max - power_target <= amp.params.gain_flatmax - old(amp.effective_gain) '
                      'else amp.params.gain_flatmax - old(amp.effective_gain))'},
         requires=[('designed', 'amp.effective_gain is not None'), ('power_mode_has_delta_p', 'implies(power_mode, amp.delta_p is not None)'),
                   ('step', 'round(voa_step, 1) >= 0.01')],
         ensures=[('voa_set', 'amp.out_voa is not None and amp.in_voa is not None'),
                  ('user_voa_kept', 'implies(old(amp.out_voa) is not None, amp.out_voa == old(amp.out_voa) and '
                                    'amp.effective_gain == old(amp.effective_gain))'),
                  ('in_voa_default', 'implies(old(amp.in_voa) is None, amp.in_voa == 0)'),
                  ('auto_voa', 'implies(auto, amp.out_voa == (R2F(room, voa_step) - voa_margin if R2F(room, voa_step) - voa_margin > 0 else 0))'),
                  ('no_voa_otherwise', 'implies(old(amp.out_voa) is None and not auto, amp.out_voa == 0)'),
                  # the VOA is compensated by gain and power offset: power after the VOA is unchanged
                  ('compensated', 'implies(old(amp.out_voa) is None, amp.effective_gain - amp.out_voa == old(amp.effective_gain))'),
                  ('delta_p_compensated', 'implies(auto, amp.delta_p - amp.out_voa == old(amp.delta_p))'),
                  ('delta_p_kept_otherwise', 'implies(not auto, amp.delta_p == old(amp.delta_p))'),
                  ('delta_p_presence', 'iff(amp.delta_p is None, old(amp.delta_p) is None)'),
                  ('gain_kept_otherwise', 'implies(not auto, amp.effective_gain == old(amp.effective_gain))')],
         modifies=[('amp.out_voa', real()), ('amp.in_voa', real()), ('amp.delta_p', opt(real())), ('amp.effective_gain', real())])

NODE_E = AMPN
contract('gnpy.core.network.compute_gain_power_and_tilt_target', props=['C09', 'C17', 'C10'],
         # C10 rests on the gain and the total output power that the selection is asked for
         prop_clauses={'C10': ['budget', 'power_target', 'voa_reported']},
         params={'node': AMPN, 'prev_node': obj('Fiber'), 'next_node': obj('Fiber'), 'power_mode': boolean(), 'prev_voa': real(),
                 'prev_dp': real(), 'pref_total_db': real(), 'network': obj('<ns>'), 'equipment': EQPT_SPAN,
                 'deviation_db': real(), 'tilt_target': real()}, spec=SPEC_NET,
         let={'loss': 'span_loss(network, prev_node, equipment)',
              'voa': '(node.out_voa if node.out_voa is not None and node.out_voa != 0 else 0)',
              'ivoa': '(node.in_voa if node.in_voa is not None and node.in_voa != 0 else 0)',
              'gain': 'result[0]', 'dp': 'result[3]'},
         requires=[('step', "round(equipment['Span']['default'].delta_power_range_db[2], 1) >= 0.01"),
                   ('range', "equipment['Span']['default'].delta_power_range_db[0] <= equipment['Span']['default'].delta_power_range_db[1]")],
         ensures=[('loss_reported', 'result[5] == loss'), ('voa_reported', 'result[4] == voa'),
                  # the budget: gain = loss since the previous amplifier + change of power target (+ VOA terms)
                  ('budget', 'gain == loss + deviation_db + dp - prev_dp + prev_voa + ivoa'),
                  ('power_target', 'result[1] == pref_total_db + dp'),
                  ('operator_offset_kept', 'implies(node.operational.delta_p is not None and (power_mode or node.effective_gain is None), '
                                           'dp == node.operational.delta_p)'),
                  ('documented_rule_otherwise', 'implies(node.operational.delta_p is None and (power_mode or node.effective_gain is None), '
                                                'dp == target_power(network, next_node, equipment, deviation_db) + voa)'),
                  ('operator_gain_kept_in_gain_mode', 'implies(not power_mode and node.effective_gain is not None, gain == node.effective_gain)'),
                  ('tilt', 'result[2] == (node.operational.tilt_target if node.operational.tilt_target is not None else -tilt_target)')],
         returns=tup(real(), real(), real(), real(), real(), real()), modifies=[])

# ---------------------------------------------------------------- C10 amplifier selection
def AMP_LIB(raman):
    return obj('<ns>', gain_flatmax=real(), gain_min=real(), p_max=real(), raman=raman, f_min=real(), f_max=real(),
               type_def=const('variable_gain'), type_variety=string(), allowed_for_design=boolean())


# ASSUMED: the noise figure of a library model at a gain is a function of (gain, model) (its body is Edfa._calc_nf, C04)
contract('gnpy.core.network.edfa_nf', trusted=True, props=[],
         params={'gain_target': real(), 'amp_params': obj('<ns>')}, ensures=[], returns=real(), pure=True,
         note='ASSUMED: edfa_nf(gain, model) is a pure function; the NF models themselves are proved under C04')

SPEC_SEL_AMP = '''
def POWER(a, gain_target, power_target, ext):
    v = power_target - gain_target + a.gain_flatmax + ext
    return (v if v <= a.p_max else a.p_max) - power_target
def CAPABLE(a, gain_target, power_target, ext, raman_allowed):
    # can deliver the required gain (3 dB allowance below its minimum gain, none for Raman) and output power
    return ((gain_target - a.gain_min > 0 and raman_allowed) if a.raman else gain_target + 3 - a.gain_min > 0) \\
        and POWER(a, gain_target, power_target, ext) > 0
'''
LIB3 = dct(A=AMP_LIB(const(False)), B=AMP_LIB(const(False)), C=AMP_LIB(boolean()))
_caps = {k: f"CAPABLE(edfa_eqpt['{k}'], gain_target, power_target, target_extended_gain, raman_allowed)" for k in 'ABC'}
_nf = {k: f"edfa_nf(gain_target, edfa_eqpt['{k}'])" for k in 'ABC'}
contract('gnpy.core.network.select_edfa', props=['C10'],
         params={'raman_allowed': boolean(), 'gain_target': real(), 'power_target': real(), 'edfa_eqpt': LIB3,
                 'uid': string(), 'target_extended_gain': real(), 'verbose': const(False)}, spec=SPEC_SEL_AMP,
         let={'v': 'result[0]'},
         raises={'ConfigurationError': None},
         ensures=[('chosen_is_permitted', "v == 'A' or v == 'B' or v == 'C'"),
                  ('raman_only_if_allowed', "implies(v == 'C' and edfa_eqpt['C'].raman, raman_allowed)")] +
                 # if any permitted model is capable, the chosen one is, and none capable is quieter
                 [(f'capable_if_{k}_capable', f"implies({_caps[k]}, " + ' and '.join(f"implies(v == '{j}', {_caps[j]})" for j in 'ABC') + ')')
                  for k in 'ABC'] +
                 [(f'not_noisier_than_capable_{k}', f"implies({_caps[k]}, " + ' and '.join(f"implies(v == '{j}', {_nf[j]} <= {_nf[k]})" for j in 'ABC') + ')')
                  for k in 'ABC'] +
                 [('no_reduction_if_capable', ' and '.join(f"implies(v == '{j}' and {_caps[j]}, result[1] == 0)" for j in 'ABC'))],
         use_at_calls=False, modifies=[], max_paths=3000)


# ---------------------------------------------------------------- set_one_amplifier, operator-chosen model
LIB_A = obj('<ns>', p_max=real(), gain_flatmax=real(), gain_min=real(), raman=const(False), type_def=const('variable_gain'))
AMP_FIXED = extend(AMPN, params=obj('EdfaParams', p_max=real(), gain_flatmax=real(), gain_min=real(), out_voa_auto=boolean(),
                                   type_variety=const('A'), raman=const(False)))
EQPT_FULL = dct(Span=dct(default=SPAN), Edfa=dct(A=LIB_A))
contract('gnpy.core.network.set_one_amplifier', name='gnpy.core.network.set_one_amplifier[operator-chosen model]',
         props=['C09', 'C08', 'C17'],
         params={'node': AMP_FIXED, 'prev_node': obj('Fused'), 'next_node': obj('Fiber'), 'power_mode': boolean(),
                 'prev_voa': real(), 'prev_dp': real(), 'pref_ch_db': real(), 'pref_total_db': real(),
                 'network': obj('<ns>'), 'restrictions': lst(), 'equipment': EQPT_FULL, 'verbose': const(False),
                 'deviation_db': real(), 'tilt_target': real()}, spec=SPEC_NET,
         let={'sp': "equipment['Span']['default']", 'lib': "equipment['Edfa']['A']",
              'tgt': 'compute_gain_power_and_tilt_target(old(node), prev_node, next_node, power_mode, prev_voa, prev_dp, pref_total_db, network, equipment, deviation_db, tilt_target)',
              'pout': '(pref_total_db + tgt[3] if power_mode else pref_total_db + prev_dp - tgt[5] - prev_voa + tgt[0])',
              'red': '(0 if lib.p_max - pout >= 0 else lib.p_max - pout)'},
         requires=[('step', 'round(sp.delta_power_range_db[2], 1) >= 0.01 and round(sp.voa_step, 1) >= 0.01'),
                   ('range', 'sp.delta_power_range_db[0] <= sp.delta_power_range_db[1]'),
                   ('same_model', 'node.params.p_max == lib.p_max and node.params.gain_flatmax == lib.gain_flatmax')],
         ensures=[('complete', 'node.effective_gain is not None and node.out_voa is not None and node.in_voa is not None and '
                               'node.tilt_target is not None and implies(power_mode, node.delta_p is not None)'),
                  # total design power never above p_max; the reduction is exactly what is needed
                  ('reduced_only_as_needed', 'result[0] == tgt[3] + red'),
                  ('no_saturation_by_design', 'implies(power_mode, pref_total_db + result[0] <= lib.p_max)'),
                  ('gain_follows', 'node.effective_gain - node.out_voa == tgt[0] + red - (old(node.out_voa) if old(node.out_voa) is not None else 0) '
                                   'or old(node.out_voa) is None'),
                  ('gain_before_voa', 'implies(old(node.out_voa) is not None, node.effective_gain == tgt[0] + red)'),
                  ('operator_values_kept_unless_saturating', 'implies(red == 0 and not power_mode and old(node.effective_gain) is not None, '
                                                             'node.effective_gain - (node.out_voa if old(node.out_voa) is None else 0) == old(node.effective_gain))'),
                  ('hand_over', 'result[1] == tgt[4]'),
                  # what the next amplifier is told (offset, VOA) is the power actually leaving this one after its VOA
                  ('hand_over_is_the_power_after_the_voa', 'implies(power_mode, result[0] - result[1] == node.delta_p - node.out_voa)'),
                  ('hand_over_voa_is_the_amplifier_voa_unless_optimised', 'implies(old(node.out_voa) is not None or not power_mode or not node.params.out_voa_auto, result[1] == node.out_voa)'),
                  ('design_offset_recorded', 'node._delta_p == (node.delta_p if power_mode else result[0])')],
         modifies=['node.delta_p', 'node.effective_gain', 'node.tilt_target', 'node.out_voa', 'node.in_voa', 'node._delta_p',
                   'node.target_pch_out_dbm'], use_at_calls=False, max_paths=3000)

# ---------------------------------------------------------------- C06: per-degree targets populated at design
RP = obj('<ns>', target_pch_out_db=opt(real()), target_psd_out_mWperGHz=opt(real()), target_out_mWperSlotWidth=opt(real()))
for _given in ('none', 'pch', 'psd', 'psw'):
    _d = {'per_degree_pch_out_dbm': dct_k({'deg': real()}) if _given == 'pch' else dct(),
          'per_degree_pch_psd': dct_k({'deg': real()}) if _given == 'psd' else dct(),
          'per_degree_pch_psw': dct_k({'deg': real()}) if _given == 'psw' else dct()}
    contract('gnpy.core.network.set_roadm_per_degree_targets',
             name=f'gnpy.core.network.set_roadm_per_degree_targets[loop body, degree setting: {_given}]', loop=0,
             props=['C06', 'C08'], use_at_calls=False,
             params={'roadm': obj('Roadm', uid=string(), params=RP, **_d), 'node': obj('Fiber', uid=const('deg'))},
             let={'n_pch': "(1 if 'deg' in roadm.per_degree_pch_out_dbm else 0)", 'n_psd': "(1 if 'deg' in roadm.per_degree_pch_psd else 0)",
                  'n_psw': "(1 if 'deg' in roadm.per_degree_pch_psw else 0)", 'p': 'roadm.params'},
             # a node without any equalisation target cannot be designed; any value (0 dBm included) is a target
             raises=({'ConfigurationError': 'p.target_pch_out_db is None and p.target_psd_out_mWperGHz is None and '
                                            'p.target_out_mWperSlotWidth is None'} if _given == 'none' else {}),
             ensures=[('exactly_one_policy_on_the_degree', 'n_pch + n_psd + n_psw == 1')] +
                     ([('user_value_kept', {'pch': "roadm.per_degree_pch_out_dbm['deg'] == old(roadm.per_degree_pch_out_dbm['deg'])",
                                            'psd': "roadm.per_degree_pch_psd['deg'] == old(roadm.per_degree_pch_psd['deg'])",
                                            'psw': "roadm.per_degree_pch_psw['deg'] == old(roadm.per_degree_pch_psw['deg'])"}[_given])]
                      if _given != 'none' else
                      [('node_level_value_used', "implies(n_pch == 1, roadm.per_degree_pch_out_dbm['deg'] == p.target_pch_out_db) and "
                                                 "implies(n_psd == 1, roadm.per_degree_pch_psd['deg'] == p.target_psd_out_mWperGHz) and "
                                                 "implies(n_psw == 1, roadm.per_degree_pch_psw['deg'] == p.target_out_mWperSlotWidth)")]),
             modifies=['roadm.per_degree_pch_out_dbm[*]', 'roadm.per_degree_pch_psd[*]', 'roadm.per_degree_pch_psw[*]'])

# ---------------------------------------------------------------- C08: span splitting, connector loss, padding
contract('gnpy.core.network.calculate_new_length', props=['C08'],
         params={'fiber_length': real(), 'bounds': obj('<ns>', start=integer(), stop=integer()), 'target_length': real()},
         requires=[('positive', 'fiber_length > 0 and bounds.start > 0'),
                   ('target_inside_bounds', 'bounds.start <= target_length and target_length <= bounds.stop')],
         let={'l': 'result[0]', 'n': 'result[1]'},
         ensures=[('at_least_one_span', 'n >= 1'),
                  ('spans_add_up_to_the_original_length', 'l * n == fiber_length'),
                  ('short_fibre_untouched', 'implies(fiber_length < bounds.stop, n == 1 and l == fiber_length)'),
                  ('no_span_longer_than_the_maximum', 'implies(fiber_length >= bounds.stop, l <= bounds.stop)')],
         use_at_calls=False, modifies=[])

# ghost: the successor of a node in the graph
contract('gnpy.core.network.get_next_node', trusted=True, props=[],
         params={'node': obj('<ns>'), 'network': obj('<ns>')}, ensures=[], returns=expr('network.ghost_next'), pure=True,
         note='ghost: next(network.successors(node)) is the contract parameter network.ghost_next (networkx assumed)')

FIB_P = obj('Fiber', uid=string(), params=obj('FiberParams', _con_in=opt(real()), _con_out=opt(real()), _att_in=real()))
for _nx in ('Fused', 'Edfa'):
    contract('gnpy.core.network.add_connector_loss', name=f'gnpy.core.network.add_connector_loss[loop body, next node {_nx}]',
             loop=0, props=['C08', 'C17'], use_at_calls=False,
             params={'fiber': FIB_P, 'network': obj('<ns>', ghost_next=obj(_nx)), 'default_con_in': real(),
                     'default_con_out': real(), 'EOL': real()},
             let={'p': 'fiber.params'},
             ensures=[('connector_losses_set', 'p.con_in is not None and p.con_out is not None'),
                      ('con_in', 'p.con_in == (old(p.con_in) if old(p.con_in) is not None else default_con_in)'),
                      # ageing margin added once, at the end of a span (not before a fused junction)
                      ('con_out', 'p.con_out == (old(p.con_out) if old(p.con_out) is not None else default_con_out) + '
                                  + ('0' if _nx == 'Fused' else 'EOL'))],
             modifies=['fiber.params._con_in', 'fiber.params._con_out'])

# span_loss as a ghost: loss of the span = base + att_in of its first fibre (the only term padding changes)
contract('gnpy.core.network.find_first_node', trusted=True, props=[],
         params={'network': obj('<ns>'), 'node': obj('<ns>')}, ensures=[], returns=expr('network.ghost_first'), pure=True,
         note='ghost: first fibre of the span (graph walk, networkx assumed)')
FIRST = obj('Fiber', uid=string(), params=obj('FiberParams', _att_in=real(), _con_in=real(), _con_out=real()))
contract('gnpy.core.network.add_fiber_padding', name='gnpy.core.network.add_fiber_padding[loop body]', loop=0,
         props=['C08', 'C09', 'C17'], use_at_calls=False,
         params={'fiber': obj('Fiber', uid=string(), params=obj('FiberParams', _att_in=real())),
                 'network': obj('<ns>', ghost_next=obj('Edfa'), ghost_first=FIRST, ghost_loss0=real()),
                 'padding': real(), 'equipment': dct()},
         native_patches={'gnpy.core.network.get_next_node': 'lambda node, network: network.ghost_next',
                         'gnpy.core.network.find_first_node': 'lambda network, node: network.ghost_first',
                         'gnpy.core.network.span_loss': 'lambda network, node, equipment, input_power=None: network.ghost_loss0'},
         let={'first': 'network.ghost_first', 'loss0': 'span_loss(network, fiber, equipment)',
              'actual': 'loss0 + (first.params.att_in - old(first.params.att_in))'},
         requires=[('att_in_nonneg', 'network.ghost_first.params.att_in >= 0'),
                   ('ghost_loss', 'span_loss(network, fiber, equipment) == network.ghost_loss0')],
         ensures=[('span_loss_at_least_padding', 'actual >= padding'),
                  ('padded_only_as_needed', 'actual == (loss0 if loss0 >= padding else padding)'),
                  # the loss the amplifier design will compensate is the span's actual loss
                  ('design_span_loss_is_the_actual_loss', 'fiber.design_span_loss == actual')],
         modifies=['network.ghost_first.params._att_in', ('fiber.design_span_loss', real())])

# ---------------------------------------------------------------- C10: permitted set (restrictions precedence, band)
def LIBE(**kw):
    d = dict(type_def=const('variable_gain'), f_min=real(), f_max=real(), allowed_for_design=boolean())
    d.update(kw)
    return obj('<ns>', **d)


EQ_LIB = dct(Edfa=dct(A=LIBE(), B=LIBE(), M=LIBE(type_def=const('multi_band'))))
BANDS = dct(CBAND=dct(f_min=real(), f_max=real()))
SPEC_RESTR = '''
def COVERS(a, band):
    return a.f_min <= band['f_min'] and a.f_max >= band['f_max']
'''
for _case, _node, _prev, _next, _perm in (
        ('own variety list', dict(variety_list=const(['A'])), obj('Fiber'), obj('Fiber'), "x == 'A'"),
        ('booster restriction of the previous ROADM', dict(variety_list=const(None)),
         obj('Roadm', restrictions=dct(booster_variety_list=const(['B']), preamp_variety_list=const([]))), obj('Fiber'), "x == 'B'"),
        ('preamp restriction of the next ROADM', dict(variety_list=const([])), obj('Fiber'),
         obj('Roadm', restrictions=dct(booster_variety_list=const([]), preamp_variety_list=const(['A']))), "x == 'A'"),
        ('models allowed for design', dict(variety_list=const(None)), obj('Fiber'), obj('Fiber'),
         "equipment['Edfa'][x].allowed_for_design")):
    contract('gnpy.core.network.get_node_restrictions', name=f'gnpy.core.network.get_node_restrictions[{_case}]', props=['C10', 'C08'],
             params={'node': obj('Edfa', params=obj('<ns>', type_variety=const('')), **_node), 'prev_node': _prev,
                     'next_node': _next, 'equipment': EQ_LIB, '_design_bands': BANDS}, spec=SPEC_RESTR,
             let={'band': "_design_bands['CBAND']"},
             ensures=[(f'member_{k}', f"iff('{k}' in result, " +
                       _perm.replace('x', f"'{k}'") + f" and COVERS(equipment['Edfa']['{k}'], band))") for k in 'AB'] +
                     [('no_multiband_model', "'M' not in result")],
             use_at_calls=False, modifies=[])
contract('gnpy.core.network.get_node_restrictions', name='gnpy.core.network.get_node_restrictions[operator-chosen model]', props=['C10', 'C08'],
         params={'node': obj('Edfa', params=obj('<ns>', type_variety=const('B')), variety_list=const(['A'])), 'prev_node': obj('Fiber'),
                 'next_node': obj('Fiber'), 'equipment': EQ_LIB, '_design_bands': BANDS},
         ensures=[('only_that_model', "result == ['B']")], use_at_calls=False, modifies=[])

# ---------------------------------------------------------------- set_one_amplifier, automatic selection (C10 Raman gate)
# call-site summary of select_edfa: the clauses chosen_is_permitted / raman_only_if_allowed proved above for a
# three-model library, stated over the keys of whatever dict is passed
contract('gnpy.core.network.select_edfa', name='gnpy.core.network.select_edfa[call-site summary]', props=[],
         trusted=True,
         params={'raman_allowed': boolean(), 'gain_target': real(), 'power_target': real(), 'edfa_eqpt': dct(),
                 'uid': string(), 'target_extended_gain': real(), 'verbose': boolean()},
         raises={'ConfigurationError': None},
         ensures=[('chosen_is_permitted', 'result[0] in edfa_eqpt'),
                  ('raman_only_if_allowed', 'implies(edfa_eqpt[result[0]].raman, raman_allowed)'),
                  ('reduction_nonpositive', 'result[1] <= 0')],
         returns=tup(string(), real()),
         note='summary of select_edfa for call sites; its clauses are those proved on three-model libraries')

LIB_N = obj('<ns>', p_max=real(), gain_flatmax=real(), gain_min=real(), raman=const(False), type_def=const('variable_gain'),
            type_variety=const('N'))
LIB_R = obj('<ns>', p_max=real(), gain_flatmax=real(), gain_min=real(), raman=const(True), type_def=const('variable_gain'),
            type_variety=const('R'))
AMP_AUTO = extend(AMPN, params=obj('EdfaParams', p_max=real(), gain_flatmax=real(), gain_min=real(), out_voa_auto=boolean(),
                                  type_variety=const(''), raman=boolean()))
SPAN_R = SPAN
for _pv, _prev in (('fibre', obj('Fiber', params=obj('FiberParams', _loss_coef=vec('nl')))), ('not a fibre', obj('Fused'))):
    contract('gnpy.core.network.set_one_amplifier', name=f'gnpy.core.network.set_one_amplifier[automatic selection, previous node: {_pv}]',
             props=['C10', 'C08'],
             params={'node': AMP_AUTO, 'prev_node': _prev, 'next_node': obj('Fiber'), 'power_mode': const(True),
                     'prev_voa': real(), 'prev_dp': real(), 'pref_ch_db': real(), 'pref_total_db': real(),
                     'network': obj('<ns>'), 'restrictions': lst(),
                     'equipment': dct(Span=dct(default=SPAN), Edfa=dct(N=LIB_N, R=LIB_R)), 'verbose': const(False),
                     'deviation_db': real(), 'tilt_target': real()}, spec=SPEC_NET,
             let={'sp': "equipment['Span']['default']"},
             requires=[('step', 'round(sp.delta_power_range_db[2], 1) >= 0.01 and round(sp.voa_step, 1) >= 0.01'),
                       ('range', 'sp.delta_power_range_db[0] <= sp.delta_power_range_db[1]')],
             raises={'ConfigurationError': None},
             ensures=[('model_from_library', "node.params.type_variety == 'N' or node.params.type_variety == 'R'"),
                      ('complete', 'node.effective_gain is not None and node.out_voa is not None and node.delta_p is not None'),
                      # a Raman model only after a fibre whose loss coefficient is below the limit at every frequency
                      ('raman_gate', "implies(node.params.type_variety == 'R', " +
                       ('forall(lambda i: prev_node.params._loss_coef[i] < sp.max_fiber_lineic_loss_for_raman * 1e-3, len(prev_node.params._loss_coef))'
                        if _pv == 'fibre' else 'False') + ')')],
             modifies=['node.delta_p', 'node.effective_gain', 'node.tilt_target', 'node.out_voa', 'node.in_voa', 'node._delta_p',
                       'node.target_pch_out_dbm', 'node.type_variety', 'node.params.*'],
             use_at_calls=False, max_paths=3000)

# ---------------------------------------------------------------- multiband pre-selection: every band's candidates are rated against
# that band's own targets (gain, power, tilt) and the library's extended-gain allowance - the real loop body with the rating
# function opaque (it records what it was asked)
from pyvc.vals import Builtin as _Builtin


def _rec_filter(it, a, k):
    g = it.p.live['equipment']['ghost_call']
    for nm, v in zip(('uid', 'edfa_eqpt', 'power_target', 'gain_target', 'tilt_target', 'target_extended_gain'), a):
        g[nm] = v
    g.update(k)
    return []


OV_MB = {('gnpy.core.network', 'filter_edfa_list_based_on_targets'): lambda it: _Builtin('rated', _rec_filter),
         # the library also holds a type outside the restrictions that shares the band amplifiers of the permitted one
         ('gnpy.core.network', 'find_type_varieties'): lambda it: _Builtin('groups', lambda it2, a, k: [['outsider', 'group'], ['group']])}
_MBLIB = dct_k({'group': obj('<ns>', multi_band=const(['amp_C', 'amp_L']), type_def=const('multi_band')),
                'amp_C': obj('<ns>', f_min=real(), f_max=real(), type_variety=const('amp_C')),
                'amp_L': obj('<ns>', f_min=real(), f_max=real(), type_variety=const('amp_L'))})
contract('gnpy.core.network.preselect_multiband_amps', name='gnpy.core.network.preselect_multiband_amps[loop body, one band]', loop=0,
         loop_returns=['_selected_type_varieties'], props=['C10'], use_at_calls=False, overrides=OV_MB, spec=SPEC_NET,
         params={'band': const('C'), 'amp': AMPN, 'uid': string(), 'prev_node': obj('Fiber'), 'next_node': obj('Fiber'), 'power_mode': boolean(),
                 'prev_voa': dct_k({'C': real()}), 'prev_dp': dct_k({'C': real()}), 'pref_total_db': dct_k({'C': real()}),
                 'network': obj('<ns>'), 'restrictions': const(['group']), '_design_bands': dct_k({'C': dct(f_min=real(), f_max=real())}),
                 'deviation_db': dct_k({'C': real()}), 'tilt_target': dct_k({'C': real()}), '_selected_type_varieties': const(['group']),
                 'target_extended_gain': real(),
                 'equipment': dct(Edfa=_MBLIB, Span=dct(default=SPAN), ghost_call=dct())},
         requires=[('step', "round(equipment['Span']['default'].delta_power_range_db[2], 1) >= 0.01"),
                   ('range', "equipment['Span']['default'].delta_power_range_db[0] <= equipment['Span']['default'].delta_power_range_db[1]")],
         let={'g': "compute_gain_power_and_tilt_target(amp, prev_node, next_node, power_mode, prev_voa['C'], prev_dp['C'], pref_total_db['C'], "
                   "network, equipment, deviation_db['C'], tilt_target['C'])", 'asked': "equipment['ghost_call']"},
         ensures=[('rated_against_this_bands_targets', "asked['gain_target'] == g[0] and asked['power_target'] == g[1] and asked['tilt_target'] == g[2]"),
                  ('with_the_librarys_extended_gain_allowance', "asked['target_extended_gain'] == target_extended_gain"),
                  ('for_this_amplifier', "asked['uid'] == uid"),
                  # the selection only shrinks: a type of the library that was not permitted never enters it
                  ('permitted_set_never_widened', "all(m == 'group' for m in result[0])")],
         modifies=["equipment['ghost_call'][*]"])

# ---------------------------------------------------------------- head of a line: what the first amplifier is told about the power
# entering the line (real body of the per-band initialisation loop of set_egress_amplifier)
_HEAD = dict(node=obj('Fiber', uid=string()), band_name=const('C'), band=dct(f_min=real(), f_max=real(), spacing=real()),
             pref_ch_db=real(), reference_channel=obj('<ns>', nb_channel=integer(1)), network=obj('<ns>'),
             dp=dct(), prev_dp=dct(), voa=dct(), prev_voa=dct(), pref_total_db=dct())
contract('gnpy.core.network.set_egress_amplifier', name='gnpy.core.network.set_egress_amplifier[line head at a transceiver]', loop=1,
         loop_returns=['prev_dp', 'dp', 'prev_voa', 'voa', 'pref_total_db'], props=['C09'], use_at_calls=False,
         params=dict(_HEAD, this_node=obj('Transceiver', uid=string()),
                     equipment=dct(SI=dct(default=obj('<ns>', tx_power_dbm=opt(real()), power_dbm=real())))),
         let={'si': "equipment['SI']['default']"},
         # the line starts at the transmitter's own launch power when one is configured, else at the reference power
         ensures=[('offset_of_the_launch_power', "implies(si.tx_power_dbm is not None, prev_dp['C'] == si.tx_power_dbm - pref_ch_db) and "
                                                 "implies(si.tx_power_dbm is None, prev_dp['C'] == 0)"),
                  ('first_target_is_that_offset', "dp['C'] == prev_dp['C'] and voa['C'] == 0 and prev_voa['C'] == 0"),
                  ('design_load', "pref_total_db['C'] == pref_ch_db + spec_lin2db(reference_channel.nb_channel)")],
         modifies=['dp[*]', 'prev_dp[*]', 'voa[*]', 'prev_voa[*]', 'pref_total_db[*]'])
contract('gnpy.core.network.set_egress_amplifier', name='gnpy.core.network.set_egress_amplifier[line head at a ROADM]', loop=1,
         loop_returns=['prev_dp', 'dp', 'prev_voa', 'voa', 'pref_total_db'], props=['C09', 'C06'], use_at_calls=False,
         params=dict(_HEAD, this_node=obj('Roadm', uid=string(), per_degree_pch_out_dbm=sdict(), per_degree_pch_psd=const({}), per_degree_pch_psw=const({}),
                                         ref_carrier=obj('<ns>', baud_rate=real(), slot_width=real())),
                     equipment=dct(SI=dct(default=obj('<ns>', tx_power_dbm=opt(real()), power_dbm=real())))),
         requires=[('degree_has_a_power_target', 'node.uid in this_node.per_degree_pch_out_dbm')],
         ensures=[('offset_of_the_degree_target', "prev_dp['C'] == this_node.per_degree_pch_out_dbm[node.uid] - pref_ch_db and dp['C'] == prev_dp['C']")],
         modifies=['dp[*]', 'prev_dp[*]', 'voa[*]', 'prev_voa[*]', 'pref_total_db[*]'])

# ---------------------------------------------------------------- multiband amplifier, one band: the models offered to the selection of
# a band amplifier are exactly the amplifiers of the (pre)selected group that cover that design band and belong to one of the multiband
# types still compatible with the amplifiers already chosen for the other bands; the selection is asked for this band's own figures, and
# the compatible types are narrowed to those holding the amplifier it chose (real body of the band loop of set_egress_amplifier; the
# selection itself records what it gets and "chooses" the model named by the contract variant)
def _rec_set_one(chosen):
    def rec(it, a, k):
        import z3 as _z3
        from pyvc.vals import SV as _SV, fresh as _fresh
        g = it.p.live['equipment']['ghost_call']
        for nm, v in zip(('amp', 'prev_node', 'next_node', 'power_mode', 'prev_voa', 'prev_dp', 'pref_ch_db', 'pref_total_db', 'network',
                          'restrictions', 'equipment', 'verbose'), a):
            g[nm] = v
        g.update(k)
        a[0].fields['type_variety'] = chosen
        return (_SV(_fresh('dp_band', _z3.RealSort())), _SV(_fresh('voa_band', _z3.RealSort())))
    return rec


_BAMP = lambda nm: obj('<ns>', f_min=real(), f_max=real(), type_variety=const(nm))
_MBLIB2 = dct_k({'group': obj('<ns>', multi_band=const(['amp_C', 'amp_L']), type_def=const('multi_band')),
                 'group2': obj('<ns>', multi_band=const(['amp_C2', 'amp_L']), type_def=const('multi_band')),
                 'amp_C': _BAMP('amp_C'), 'amp_C2': _BAMP('amp_C2'), 'amp_L': _BAMP('amp_L')})
SPEC_BAND = '''
def COVERS(lib, n, band):
    return lib[n].f_min <= band['f_min'] and lib[n].f_max >= band['f_max']
def HELD(lib, n, types):
    return any(n in lib[m].multi_band for m in types)
'''
for _cand, _chosen in itertools.product((['group', 'group2'], ['group2'], ['group']), ('amp_C', 'amp_C2', 'amp_L')):
    contract('gnpy.core.network.set_egress_amplifier',
             name=f'gnpy.core.network.set_egress_amplifier[multiband amplifier, one band; compatible types {_cand}, {_chosen} chosen]', loop=4,
             loop_returns=['dp', 'voa', 'candidate_types'], props=['C10'], use_at_calls=False, spec=SPEC_BAND,
             overrides={('gnpy.core.network', 'set_one_amplifier'): (lambda c: lambda it: _Builtin('selected', _rec_set_one(c)))(_chosen)},
             params={'band_name': const('C'), 'amp': obj('Edfa', uid=string(), type_variety=string()),
                     'restrictions_edfa': const(['amp_C', 'amp_L', 'amp_C2']), 'candidate_types': const(list(_cand)),
                     'prev_node': obj('Fiber'), 'next_node': obj('Fiber'), 'power_mode': boolean(), 'pref_ch_db': real(),
                     'prev_voa': dct_k({'C': real(), 'L': real()}), 'prev_dp': dct_k({'C': real(), 'L': real()}),
                     'pref_total_db': dct_k({'C': real(), 'L': real()}), 'deviation_db': dct_k({'C': real(), 'L': real()}),
                     'tilt_target': dct_k({'C': real(), 'L': real()}), 'network': obj('<ns>'), 'verbose': boolean(),
                     '_design_bands': dct_k({'C': dct(f_min=real(), f_max=real()), 'L': dct(f_min=real(), f_max=real())}),
                     'dp': dct(), 'voa': dct(),
                     'equipment': dct(Edfa=_MBLIB2, ghost_call=dct())},
             let={'asked': "equipment['ghost_call']", 'lib': "equipment['Edfa']", 'band': "_design_bands['C']", 'cand': repr(list(_cand))},
             ensures=[('offered_models_cover_the_band_and_complete_a_compatible_type',
                       "all(iff(n in asked['restrictions'], COVERS(lib, n, band) and HELD(lib, n, cand)) for n in ['amp_C', 'amp_L', 'amp_C2'])"),
                      ('only_members_of_the_group', "all(n in ['amp_C', 'amp_L', 'amp_C2'] for n in asked['restrictions'])"),
                      ('this_bands_own_figures', "asked['amp'] is amp and asked['prev_voa'] == prev_voa['C'] and asked['prev_dp'] == prev_dp['C'] and "
                                                 "asked['pref_total_db'] == pref_total_db['C'] and asked['deviation_db'] == deviation_db['C'] and "
                                                 "asked['tilt_target'] == tilt_target['C'] and asked['pref_ch_db'] == pref_ch_db"),
                      ('compatible_types_narrowed_to_those_holding_the_chosen_amplifier',
                       f"result[2] == [m for m in cand if {_chosen!r} in lib[m].multi_band]")],
             modifies=["equipment['ghost_call'][*]", 'dp[*]', 'voa[*]', 'amp.type_variety'])

# ---------------------------------------------------------------- the spacing of a degree's band is that of the design band holding its middle
contract('gnpy.core.utils.get_spacing_from_band', props=['C09', 'C08'],
         params={'design_bands': lst(dct(f_min=real(), f_max=real(), spacing=real()), dct(f_min=real(), f_max=real(), spacing=real())),
                 'f_min': real(), 'f_max': real()},
         let={'mid': '(f_min + f_max) / 2', 'b0': 'design_bands[0]', 'b1': 'design_bands[1]'},
         ensures=[('first_band_holding_the_middle',
                   "implies(b0['f_min'] <= mid and mid <= b0['f_max'], result == b0['spacing']) and "
                   "implies(not (b0['f_min'] <= mid and mid <= b0['f_max']) and b1['f_min'] <= mid and mid <= b1['f_max'], result == b1['spacing'])"),
                  ('none_when_outside_every_band',
                   "implies(not (b0['f_min'] <= mid and mid <= b0['f_max']) and not (b1['f_min'] <= mid and mid <= b1['f_max']), result is None)")],
         use_at_calls=False, modifies=[])

# ---------------------------------------------------------------- walk along an OMS: the tilt estimate of every step is made for the power that
# enters the next span - the reference power plus the offset of the previous amplifier, minus its output VOA (real body of the OMS loop
# of set_egress_amplifier at a fibre; the tilt function records what it is asked)
def _rec_tilt(it, a, k):
    g = it.p.live['equipment']['ghost_call']
    for nm, v in zip(('prev_node', 'next_node', 'design_bands', 'input_powers', 'equipment', 'network'), a):
        g[nm] = v
    g.update(k)
    return ({'C': 0, 'L': 0}, {'C': 0, 'L': 0})


contract('gnpy.core.network.set_egress_amplifier', name='gnpy.core.network.set_egress_amplifier[OMS walk, at a fibre]', loop=2,
         loop_returns=['prev_dp', 'prev_voa', 'prev_node', 'node'], props=['C09', 'C17'], use_at_calls=False,
         overrides={('gnpy.core.network', 'compute_tilt_using_previous_and_next_spans'): lambda it: _Builtin('tilt', _rec_tilt)},
         params={'node': obj('Fiber', uid=string()), 'next_node': obj('Edfa', uid=string()), 'prev_node': obj('Edfa', uid=string()),
                 'pref_ch_db': real(), 'power_mode': boolean(), 'verbose': boolean(), 'network': obj('<ns>'),
                 '_design_bands': dct_k({'C': dct(f_min=real(), f_max=real()), 'L': dct(f_min=real(), f_max=real())}),
                 'prev_dp': dct_k({'C': real(), 'L': real()}), 'prev_voa': dct_k({'C': real(), 'L': real()}),
                 'dp': dct_k({'C': real(), 'L': real()}), 'voa': dct_k({'C': real(), 'L': real()}),
                 'pref_total_db': dct_k({'C': real(), 'L': real()}),
                 'equipment': dct(ghost_call=dct())},
         let={'asked': "equipment['ghost_call']"},
         ensures=[('tilt_estimated_for_the_power_behind_the_previous_voa',
                   "asked['input_powers']['C'] == spec_db2lin(pref_ch_db + old(prev_dp)['C'] - old(prev_voa)['C']) * 1e-3 and "
                   "asked['input_powers']['L'] == spec_db2lin(pref_ch_db + old(prev_dp)['L'] - old(prev_voa)['L']) * 1e-3"),
                  ('for_the_spans_around_this_element', "asked['prev_node'] is old(prev_node) and asked['next_node'] is next_node"),
                  ('hand_over', "result[0]['C'] == dp['C'] and result[1]['C'] == voa['C'] and result[2] is old(node) and result[3] is next_node")],
         modifies=["equipment['ghost_call'][*]", 'prev_dp[*]', 'prev_voa[*]'])
