"""gnpy/tools/convert.py, gnpy/tools/service_sheet.py — spreadsheet rows to topology / request values (C20)."""
from .common import *   # noqa

_C = 'gnpy.tools.convert'
_S = 'gnpy.tools.service_sheet'

# a sheet cell: a number, or blank (None)
CELL = lambda: opt(real())
_EAST = ['distance', 'lineic', 'con_in', 'con_out', 'pmd']
LINK_KW = dct_k({'from_city': string(), 'to_city': string(), 'east_fiber': opt(string()), 'west_fiber': opt(string()),
                 **{f'east_{f}': CELL() for f in _EAST}, **{f'west_{f}': CELL() for f in _EAST}})
_DEF = {'distance': '80', 'lineic': '0.2', 'con_in': 'None', 'con_out': 'None', 'pmd': 'None'}
SPEC_CELL = '''
def GIVEN(kw, k):
    return kw[k] is not None
def SAME(a, b):
    # two optional values are the same: both blank, or both filled with equal content
    return (a is None) == (b is None) and implies(a is not None, a == b)
'''


def _link_clauses():
    out = []
    for f in _EAST:
        d = _DEF[f]
        e, w = f'east_{f}', f'west_{f}'
        if d == 'None':
            out.append((f'east_{f}', f"implies(GIVEN(kwargs, '{e}'), self.{e} == kwargs['{e}']) and implies(not GIVEN(kwargs, '{e}'), self.{e} is None)"))
        else:
            out.append((f'east_{f}', f"implies(GIVEN(kwargs, '{e}'), self.{e} == kwargs['{e}']) and implies(not GIVEN(kwargs, '{e}'), self.{e} == {d})"))
        # west: its own cell when filled (a filled zero included), otherwise whatever east ended up with
        out.append((f'west_{f}_own_cell_when_filled', f"implies(GIVEN(kwargs, '{w}'), self.{w} == kwargs['{w}'])"))
        out.append((f'west_{f}_defaults_to_east', f"implies(not GIVEN(kwargs, '{w}'), SAME(self.{w}, self.{e}))"))
    out.append(('fiber_type', "implies(GIVEN(kwargs, 'east_fiber'), self.east_fiber == kwargs['east_fiber']) and "
                              "implies(not GIVEN(kwargs, 'east_fiber'), self.east_fiber == 'SSMF') and "
                              "implies(GIVEN(kwargs, 'west_fiber'), self.west_fiber == kwargs['west_fiber']) and "
                              "implies(not GIVEN(kwargs, 'west_fiber'), self.west_fiber == self.east_fiber)"))
    out.append(('end_points', 'self.from_city == kwargs["from_city"] and self.to_city == kwargs["to_city"]'))
    return out


_LINK_REQ = [('names_not_blank', "kwargs['from_city'] != '' and kwargs['to_city'] != ''")]
_FIB_REQ = [('filled_text_cells_not_blank', "implies(kwargs['east_fiber'] is not None, kwargs['east_fiber'] != '') and "
                                            "implies(kwargs['west_fiber'] is not None, kwargs['west_fiber'] != '')")]
_LC = _link_clauses()
for _f in _EAST:
    # the row's cells of one column pair are blank or filled in every combination; the other columns are blank
    contract(_C + '.Link.update_attr', name=_C + f'.Link.update_attr[{_f} cells]', props=['C20'], spec=SPEC_CELL,
             params={'self': obj('Link'), 'kwargs': dct_k({'from_city': string(), 'to_city': string(), f'east_{_f}': CELL(), f'west_{_f}': CELL()})},
             requires=_LINK_REQ, ensures=[c for c in _LC if c[0].startswith((f'east_{_f}', f'west_{_f}', 'end_points'))],
             modifies=['self.*'], use_at_calls=False)
contract(_C + '.Link.update_attr', name=_C + '.Link.update_attr[fibre type cells]', props=['C20'], spec=SPEC_CELL,
         params={'self': obj('Link'), 'kwargs': dct_k({'from_city': string(), 'to_city': string(), 'east_fiber': opt(string()), 'west_fiber': opt(string())})},
         requires=_LINK_REQ + _FIB_REQ, ensures=[c for c in _LC if c[0] in ('fiber_type', 'end_points')], modifies=['self.*'], use_at_calls=False)
contract(_C + '.Link.update_attr', name=_C + '.Link.update_attr[every cell filled]', props=['C20'], spec=SPEC_CELL,
         params={'self': obj('Link'), 'kwargs': dct_k({'from_city': string(), 'to_city': string(), 'east_fiber': string(), 'west_fiber': string(),
                                                       **{f'east_{f}': real() for f in _EAST}, **{f'west_{f}': real() for f in _EAST}})},
         requires=_LINK_REQ + [('fibre_names_not_blank', "kwargs['east_fiber'] != '' and kwargs['west_fiber'] != ''")],
         ensures=[(f'all_{side}_values_are_the_row_values', ' and '.join(f"self.{side}_{f} == kwargs['{side}_{f}']" for f in _EAST + ['fiber']))
                  for side in ('east', 'west')],
         modifies=['self.*'], use_at_calls=False)

_AMP = ['amp_gain', 'amp_dp', 'tilt_vs_wavelength', 'att_out', 'att_in']
EQPT_KW = dct_k({'from_city': string(), 'to_city': string(), 'east_amp_type': opt(string()), 'west_amp_type': opt(string()),
                 **{f'east_{f}': CELL() for f in _AMP}, **{f'west_{f}': CELL() for f in _AMP}})


def _eqpt_clauses():
    out = []
    for f in _AMP:
        d = '0' if f == 'att_in' else 'None'
        for side in ('east', 'west'):
            k = f'{side}_{f}'
            # each side of an Eqpt row stands for a different amplifier: a blank west cell is blank, not a copy of east
            out.append((k, f"implies(GIVEN(kwargs, '{k}'), self.{k} == kwargs['{k}']) and implies(not GIVEN(kwargs, '{k}'), " +
                        (f"self.{k} is None)" if d == 'None' else f"self.{k} == {d})")))
    for side in ('east', 'west'):
        k = f'{side}_amp_type'
        out.append((k, f"implies(GIVEN(kwargs, '{k}'), self.{k} == kwargs['{k}']) and implies(not GIVEN(kwargs, '{k}'), self.{k} == '')"))
    return out


_EC = _eqpt_clauses()
for _f in _AMP:
    contract(_C + '.Eqpt.update_attr', name=_C + f'.Eqpt.update_attr[{_f} cells]', props=['C20'], spec=SPEC_CELL,
             params={'self': obj('Eqpt'), 'kwargs': dct_k({'from_city': string(), 'to_city': string(), f'east_{_f}': CELL(), f'west_{_f}': CELL()})},
             requires=_LINK_REQ, ensures=[c for c in _EC if c[0] in (f'east_{_f}', f'west_{_f}')], modifies=['self.*'], use_at_calls=False)
contract(_C + '.Eqpt.update_attr', name=_C + '.Eqpt.update_attr[amp type cells]', props=['C20'], spec=SPEC_CELL,
         params={'self': obj('Eqpt'), 'kwargs': dct_k({'from_city': string(), 'to_city': string(), 'east_amp_type': opt(string()),
                                                       'west_amp_type': opt(string())})},
         requires=_LINK_REQ + [('filled_text_cells_not_blank', "implies(kwargs['east_amp_type'] is not None, kwargs['east_amp_type'] != '') and "
                                                               "implies(kwargs['west_amp_type'] is not None, kwargs['west_amp_type'] != '')")],
         ensures=[c for c in _EC if c[0].endswith('amp_type')], modifies=['self.*'], use_at_calls=False)

# ---------------------------------------------------------------- Service sheet row -> request
TRX_LIB = dct(Transceiver=dct_k({'Voyager': obj('<ns>', mode=lst(dct(format=const('mode 1')), dct(format=const('mode 2'))))}))


def ROW(**over):
    base = dict(request_id=string(), source=string(), destination=string(), trx_type=const('Voyager'), mode=const('mode 2'),
                spacing=real(), power=opt(real()), nb_channel=opt(real()), disjoint_from=const(''), nodes_list=const(''),
                is_loose=boolean(), path_bandwidth=opt(real()))
    base.update(over)
    return obj('Request', **base)


_UNITS = [('end_points_are_the_sites_transceivers', "self.source == f'trx {request_param.source}' and self.destination == f'trx {request_param.destination}' "
                                                    "and self.srctpid == self.source and self.dsttpid == self.destination"),
          ('spacing_GHz_to_Hz', 'self.spacing == request_param.spacing * 1e9'),
          ('power_dBm_to_W', '(self.power is None) == (request_param.power is None) and '
                             'implies(request_param.power is not None, self.power == spec_db2lin(request_param.power) * 1e-3)'),
          ('bandwidth_Gbit_to_bit', 'implies(request_param.path_bandwidth is not None, self.path_bandwidth == request_param.path_bandwidth * 1e9) and '
                                    'implies(request_param.path_bandwidth is None, self.path_bandwidth == 0)'),
          ('channel_count', '(self.nb_channel is None) == (request_param.nb_channel is None) and '
                            'implies(request_param.nb_channel is not None, self.nb_channel == int(request_param.nb_channel))'),
          ('strictness', "iff(self.loose == 'LOOSE', request_param.is_loose) and iff(self.loose == 'STRICT', not request_param.is_loose)"),
          ('identity', 'self.request_id == request_param.request_id and self.trx_type == request_param.trx_type and iff(self.bidir, bidir)')]
contract(_S + '.Request_element.__init__', name=_S + '.Request_element.__init__[mode given, no route]', props=['C20'],
         params={'self': obj('Request_element'), 'request_param': ROW(), 'equipment': TRX_LIB, 'bidir': boolean()},
         raises={'ServiceError': 'request_param.spacing == 0'},
         ensures=_UNITS + [('mode', "self.mode == 'mode 2'"), ('no_route_no_group', 'len(self.nodes_list) == 0 and len(self.disjoint_from) == 0')],
         modifies=['self.*'], use_at_calls=False)
contract(_S + '.Request_element.__init__', name=_S + '.Request_element.__init__[mode blank, route and two disjoint-from ids]', props=['C20'],
         params={'self': obj('Request_element'), 'request_param': ROW(mode=const(None), nodes_list=const('roadm a | edfa x | roadm b'),
                                                                     disjoint_from=const('3 | prot')),
                 'equipment': TRX_LIB, 'bidir': boolean()},
         raises={'ServiceError': 'request_param.spacing == 0'},
         ensures=_UNITS + [('mode_left_open', 'self.mode is None'),
                           ('route_in_sheet_order', "self.nodes_list == ['roadm a', 'edfa x', 'roadm b']"),
                           ('disjoint_from_ids', "self.disjoint_from == ['3', 'prot']")],
         modifies=['self.*'], use_at_calls=False)
for _lab, _row in (('unknown mode', ROW(mode=const('mode 9'))), ('unknown transceiver', ROW(trx_type=const('Nope')))):
    contract(_S + '.Request_element.__init__', name=_S + f'.Request_element.__init__[{_lab}]', props=['C20'],
             params={'self': obj('Request_element'), 'request_param': _row, 'equipment': TRX_LIB, 'bidir': boolean()},
             raises={'ServiceError': 'True'}, ensures=[], modifies=['self.*'], use_at_calls=False)

RE_OBJ = obj('Request_element', request_id=string(), source=string(), destination=string(), srctpid=string(), dsttpid=string(),
             bidir=boolean(), trx_type=string(), mode=opt(string()), spacing=real(), nb_channel=opt(integer()), power=opt(real()),
             nodes_list=const(['roadm a', 'edfa x', 'roadm b']), loose=string(), path_bandwidth=real(), disjoint_from=const(['3', 'prot']))
contract(_S + '.Request_element.pathrequest', props=['C20'], params={'self': RE_OBJ},
         let={'te': "result['path-constraints']['te-bandwidth']", 'ro': "result['explicit-route-objects']['route-object-include-exclude']"},
         ensures=[('request_fields', "result['request-id'] == self.request_id and result['source'] == self.source and "
                                     "result['destination'] == self.destination and result['src-tp-id'] == self.srctpid and "
                                     "result['dst-tp-id'] == self.dsttpid and iff(result['bidirectional'], self.bidir)"),
                  ('constraints', "te['trx_type'] == self.trx_type and (te['trx_mode'] is None) == (self.mode is None) and "
                                  "implies(self.mode is not None, te['trx_mode'] == self.mode) and te['spacing'] == self.spacing and "
                                  "te['path_bandwidth'] == self.path_bandwidth and "
                                  "(te['max-nb-of-channel'] is None) == (self.nb_channel is None) and "
                                  "implies(self.nb_channel is not None, te['max-nb-of-channel'] == self.nb_channel) and "
                                  "(te['output-power'] is None) == (self.power is None) and "
                                  "implies(self.power is not None, te['output-power'] == self.power)"),
                  ('slot_left_to_assignment', "len(te['effective-freq-slot']) == 1 and te['effective-freq-slot'][0]['N'] is None and "
                                              "te['effective-freq-slot'][0]['M'] is None"),
                  ('route_list_in_order_with_strictness', "len(ro) == 3 and all(ro[k]['index'] == k and ro[k]['num-unnum-hop']['node-id'] == self.nodes_list[k] "
                                                          "and ro[k]['num-unnum-hop']['hop-type'] == self.loose and "
                                                          "ro[k]['explicit-route-usage'] == 'route-include-ero' for k in range(3))")],
         modifies=[], use_at_calls=False)
contract(_S + '.Request_element.pathsync', props=['C20'], params={'self': RE_OBJ},
         ensures=[('one_group_per_row', "result['synchronization-id'] == self.request_id and "
                                        "len(result['svec']['request-id-number']) == 3 and result['svec']['request-id-number'][0] == self.request_id "
                                        "and result['svec']['request-id-number'][1] == '3' and result['svec']['request-id-number'][2] == 'prot' and "
                                        "result['svec']['relaxable'] == False")],
         modifies=[], use_at_calls=False)

contract('gnpy.tools.xls_utils.correct_cell_int_to_str', props=['C20'], params={'v': opt(string())},
         ensures=[('text_cells_unchanged', '(result is None) == (v is None) and implies(v is not None, result == v)')], returns=opt(string()), pure=True,
         note='proved for text and empty cells (numeric ids 3.0 -> "3" are checked by the bounded stand-in: str(int(v)) of a symbolic number is outside the encoding)')
contract(_S + '.Request.update_attr', name=_S + '.Request.update_attr[is loose? cell]', props=['C20', 'C12', 'C11'],
         params={'self': obj('Request'), 'kwargs': dct_k({'request_id': string(), 'source': string(), 'destination': string(),
                                                          'is_loose': opt(string())})},
         # a request is strict only when the cell says something else than yes: blank means loose
         ensures=[('loose_unless_told_otherwise', "iff(self.is_loose, kwargs['is_loose'] is None or kwargs['is_loose'] == '' or "
                                                  "kwargs['is_loose'] == 'yes' or kwargs['is_loose'] == 'Yes' or kwargs['is_loose'] == 'YES')"),
                  ('blank_cells_take_defaults', "self.mode is None and self.power is None and self.nb_channel is None and "
                                                "self.disjoint_from == '' and self.nodes_list == '' and self.path_bandwidth is None")],
         modifies=['self.*'], use_at_calls=False)

# ---- Roadms sheet: a filled per-degree target cell (a filled zero included) becomes the target of the degree facing that neighbour
_NODE_A = obj('Node', city=const('A'), region=string(), latitude=real(), longitude=real(), preamp_restriction=const(''), booster_restriction=const(''))
_ROW = lambda: obj('Roadm', from_node=const('A'), to_node=const('B'), target_pch_out_db=CELL(), from_degrees=const(None), impairment_ids=const(None),
                   type_variety=opt(string()))
contract(_C + '.create_roadm_element', name=_C + '.create_roadm_element[one Roadms row, no impairment columns]', props=['C20', 'C06'],
         params={'node': _NODE_A, 'roadms_by_city': dct(A=lst(_ROW()))},
         let={'row': "roadms_by_city['A'][0]", 'deg': "'east edfa in A to B'"},
         ensures=[('filled_target_lands_on_the_degree_facing_the_neighbour',
                   "implies(row.target_pch_out_db is not None, deg in result['params']['per_degree_pch_out_db'] and "
                   "result['params']['per_degree_pch_out_db'][deg] == row.target_pch_out_db)"),
                  ('blank_target_sets_nothing', "implies(row.target_pch_out_db is None, deg not in result['params']['per_degree_pch_out_db'])"),
                  ('element', "result['uid'] == 'roadm A' and result['type'] == 'Roadm'"),
                  ('type_variety_of_the_row', "implies(row.type_variety is not None, result['type_variety'] == row.type_variety) and "
                                              "implies(row.type_variety is None, 'type_variety' not in result)")],
         modifies=[])

# ---- Roadms sheet rows with impairment columns, and node restrictions of the Nodes sheet (fixed texts: splitting a symbolic cell is not modelled)
_ROW_IMP = lambda fd, ids: obj('Roadm', from_node=const('A'), to_node=const('B'), target_pch_out_db=CELL(), from_degrees=const(fd),
                                impairment_ids=const(ids), type_variety=const(None))
contract(_C + '.create_roadm_element', name=_C + '.create_roadm_element[from degrees C | D with impairment ids 1 | 2]', props=['C20', 'C06'],
         params={'node': _NODE_A, 'roadms_by_city': dct(A=lst(_ROW_IMP('C | D', '1 | 2')))},
         let={'imp': "result['params']['per_degree_impairments']"},
         ensures=[('one_entry_per_from_degree_towards_the_named_neighbour',
                   "len(imp) == 2 and imp[0] == {'from_degree': 'west edfa in A to C', 'to_degree': 'east edfa in A to B', 'impairment_id': 1} and "
                   "imp[1] == {'from_degree': 'west edfa in A to D', 'to_degree': 'east edfa in A to B', 'impairment_id': 2}")],
         modifies=[])
contract(_C + '.create_roadm_element', name=_C + '.create_roadm_element[restrictions of the Nodes sheet]', props=['C20', 'C10'],
         params={'node': obj('Node', city=const('A'), region=string(), latitude=real(), longitude=real(),
                             preamp_restriction=const('std_low_gain | std_medium_gain'), booster_restriction=const('')),
                 'roadms_by_city': dct()},
         ensures=[('restriction_lists', "result['params']['restrictions']['preamp_variety_list'] == ['std_low_gain', 'std_medium_gain'] and "
                                        "result['params']['restrictions']['booster_variety_list'] == []"),
                  ('no_per_degree_block', "'per_degree_pch_out_db' not in result['params']")],
         modifies=[])
