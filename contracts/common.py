"""Shapes and spec functions shared by the sidecars."""
from pyvc.engine import Contract
from pyvc.shapes import *   # noqa

REG = []        # all contracts, in declaration order


def contract(qual, **kw):
    c = Contract(qual, **kw)
    REG.append(c)
    return c


SI_FIELDS = dict(
    _frequency=vec('n'), _slot_width=vec('n'), _baud_rate=vec('n'), _pch=vec('n'),
    _signal_ratio=vec('n'), _nli_ratio=vec('n'), _ase_ratio=vec('n'), _roll_off=vec('n'),
    _chromatic_dispersion=vec('n'), _pmd=vec('n'), _pdl=vec('n'), _latency=vec('n'),
    _delta_pdb_per_channel=vec('n'), _tx_osnr=vec('n'), _tx_power=vec('n'), _label=vec('n', 'str'),
    _number_of_channels=None,   # filled by SI()
)


def SI(dim='n'):
    f = {k: (vec(dim, 'str') if k == '_label' else vec(dim)) for k in SI_FIELDS if k != '_number_of_channels'}

    def nch(c, label):
        from pyvc.vals import SV
        return SV(c.path.new_dim(dim, 1))
    nch.recipe = ('dim', dim)
    f['_number_of_channels'] = nch
    f['_channel_number'] = vec(dim, 'int')
    f['_df'] = mat(dim)
    return obj('SpectralInformation', **f)


# class invariant of SpectralInformation (C01): total power positive, shares in [0,1] and summing to one
SPEC_INV = '''
def INV(si):
    return forall(lambda i: si._pch[i] > 0 and 0 <= si._signal_ratio[i] and si._signal_ratio[i] <= 1
                  and 0 <= si._ase_ratio[i] and si._ase_ratio[i] <= 1
                  and 0 <= si._nli_ratio[i] and si._nli_ratio[i] <= 1
                  and si._signal_ratio[i] + si._ase_ratio[i] + si._nli_ratio[i] == 1, si._number_of_channels)
def NCH(si):
    return si._number_of_channels
'''
