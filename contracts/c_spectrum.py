"""gnpy/topology/spectrum_assignment.py — spectrum maps and slot assignment (C14, C15)."""
from .common import *   # noqa

FREE, OCC, UNU = 1, 0, 1002      # integer codes of BitmapValue.FREE / OCCUPIED / UNUSABLE inside symbolic lists

SPEC_BM = '''
def WF(b):
    # representation invariant of a spectrum map: one value per ITU slot index n_min..n_max, indices consecutive
    return (len(b.bitmap) == b.n_max - b.n_min + 1 and len(b.freq_index) == b.n_max - b.n_min + 1
            and b.n_max >= b.n_min)
def WFI(b):
    return forall(lambda k: b.freq_index[k] == b.n_min + k, len(b.freq_index))
def VALS(l):
    return forall(lambda k: l[k] == BitmapValue.FREE or l[k] == BitmapValue.OCCUPIED or l[k] == BitmapValue.UNUSABLE, len(l))
def TRUNC(x):
    return int(x)
'''

BITMAP = obj('Bitmap', n_min=integer(), n_max=integer(), freq_index_min=integer(), freq_index_max=integer(),
             freq_index=ilist('nfi'), bitmap=ilist('nbm', enum='BitmapValue'), guardband=real())


def BM(tag):
    return obj('Bitmap', n_min=integer(), n_max=integer(), freq_index_min=integer(), freq_index_max=integer(),
               freq_index=ilist('nfi' + tag), bitmap=ilist('nbm' + tag, enum='BitmapValue'), guardband=real())


contract('gnpy.topology.spectrum_assignment.frequency_to_n', props=['C15'],
         params={'freq': real(), 'grid': real()}, requires=[('grid', 'grid > 0')],
         # truncation toward zero of (f - 193.1 THz) / grid
         ensures=[('trunc', 'implies(freq >= 193.1e12, result * grid <= freq - 193.1e12 and freq - 193.1e12 < (result + 1) * grid)'),
                  ('trunc_neg', 'implies(freq < 193.1e12, result * grid >= freq - 193.1e12 and freq - 193.1e12 > (result - 1) * grid)')],
         returns=integer(), pure=True)

H_ROUNDTRIP = '''
def n_roundtrip(n, grid):
    return frequency_to_n(nvalue_to_frequency(n, grid), grid)
'''
contract('harness:n_roundtrip', harness=H_ROUNDTRIP, module='gnpy.topology.spectrum_assignment', props=['C15'],
         params={'n': integer(), 'grid': real()}, requires=[('grid', 'grid > 0')],
         ensures=[('inverse_on_integers', 'result == n')], modifies=[])

contract('gnpy.topology.spectrum_assignment.mvalue_to_slots', props=['C14', 'C15'],
         params={'nvalue': integer(), 'mvalue': integer()},
         ensures=[('range', 'result[0] == nvalue - mvalue and result[1] == nvalue + mvalue - 1')],
         use_at_calls=False)

contract('gnpy.topology.spectrum_assignment.Bitmap.__init__', name='gnpy.topology.spectrum_assignment.Bitmap.__init__[given list]',
         props=['C15', 'C14'],
         params={'self': obj('Bitmap'), 'f_min': real(), 'f_max': real(), 'grid': real(), 'guardband': real(),
                 'bitmap': shared('the_list', ilist('nb', enum='BitmapValue'))}, spec=SPEC_BM,
         let={'lo': 'frequency_to_n(f_min, grid)', 'hi': 'frequency_to_n(f_max, grid)'},
         requires=[('grid', 'grid > 0'), ('ordered', 'f_min <= f_max')],
         raises={'SpectrumError': 'len(bitmap) != hi - lo + 1'},
         ensures=[('extent', 'self.n_min == lo and self.n_max == hi'),
                  ('wf', 'WF(self)'), ('indices', 'WFI(self)'),
                  ('stores_the_given_list_object', 'self.bitmap is bitmap'),
                  ('guard_indices', 'self.freq_index_min == frequency_to_n(f_min + guardband, 0.00625e12) and '
                                    'self.freq_index_max == frequency_to_n(f_max - guardband, 0.00625e12)')],
         modifies=['self.*'], use_at_calls=False)

contract('gnpy.topology.spectrum_assignment.Bitmap.__init__', name='gnpy.topology.spectrum_assignment.Bitmap.__init__[fresh]',
         props=['C15', 'C14'],
         params={'self': obj('Bitmap'), 'f_min': real(), 'f_max': real(), 'grid': real(), 'guardband': real(),
                 'bitmap': const(None)}, spec=SPEC_BM,
         let={'lo': 'frequency_to_n(f_min, grid)', 'hi': 'frequency_to_n(f_max, grid)'},
         requires=[('grid', 'grid > 0'), ('ordered', 'f_min <= f_max')],
         ensures=[('extent', 'self.n_min == lo and self.n_max == hi'),
                  ('wf', 'WF(self)'), ('indices', 'WFI(self)'),
                  ('all_free', 'forall(lambda k: self.bitmap[k] == BitmapValue.FREE, len(self.bitmap))')],
         modifies=['self.*'], use_at_calls=False)

for _side in ('insert_left', 'insert_right'):
    contract(f'gnpy.topology.spectrum_assignment.Bitmap.{_side}', props=['C15'],
             params={'self': BITMAP, 'newbitmap': ilist('nnew', enum='BitmapValue')}, spec=SPEC_BM,
             let={'k': 'len(newbitmap)'},
             requires=[('wf', 'WF(self)'), ('indices', 'WFI(self)')],
             ensures=[('wf', 'WF(self)'),
                      # slot indices stay unique and consecutive
                      ('indices', 'WFI(self)'),
                      ('extent', ('self.n_min == old(self.n_min) - k and self.n_max == old(self.n_max)') if _side == 'insert_left'
                       else ('self.n_max == old(self.n_max) + k and self.n_min == old(self.n_min)')),
                      # every existing occupancy stays at its ITU index (= at its frequency)
                      ('old_values_kept_at_their_n', 'forall(lambda j: self.bitmap[j + old(self.n_min) - self.n_min] == old(self.bitmap)[j], len(old(self.bitmap)))'),
                      ('new_values_in_order', ('forall(lambda j: self.bitmap[j] == newbitmap[j], k)') if _side == 'insert_left'
                       else ('forall(lambda j: self.bitmap[len(old(self.bitmap)) + j] == newbitmap[j], k)'))],
             modifies=['self.bitmap', 'self.freq_index', 'self.n_min', 'self.n_max'])
