"""gnpy/topology/spectrum_assignment.py — spectrum maps and slot assignment (C14, C15)."""
from .common import *   # noqa

FREE, OCC, UNU = 1, 0, 1002      # integer codes of BitmapValue.FREE / OCCUPIED / UNUSABLE inside symbolic lists

SPEC_BM = '''
def WF(b):
    # representation invariant of a spectrum map: one value per ITU slot index n_min..n_max, indices consecutive
    return (len(b.bitmap) == b.n_max - b.n_min + 1 and len(b.freq_index) == b.n_max - b.n_min + 1
            and b.n_max >= b.n_min)
def WFI(b):
    return forall(lambda k: b.freq_index[k] == b.n_min + k, len(b.freq_index))
def VALS(l):
    return forall(lambda k: l[k] == BitmapValue.FREE or l[k] == BitmapValue.OCCUPIED or l[k] == BitmapValue.UNUSABLE, len(l))
def TRUNC(x):
    return int(x)
'''

BITMAP = obj('Bitmap', n_min=integer(), n_max=integer(), freq_index_min=integer(), freq_index_max=integer(),
             freq_index=ilist('nfi'), bitmap=ilist('nbm', enum='BitmapValue'), guardband=real())


def BM(tag):
    return obj('Bitmap', n_min=integer(), n_max=integer(), freq_index_min=integer(), freq_index_max=integer(),
               freq_index=ilist('nfi' + tag), bitmap=ilist('nbm' + tag, enum='BitmapValue'), guardband=real())


contract('gnpy.topology.spectrum_assignment.frequency_to_n', props=['C15'],
         params={'freq': real(), 'grid': real()}, requires=[('grid', 'grid > 0')],
         # truncation toward zero of (f - 193.1 THz) / grid
         ensures=[('trunc', 'implies(freq >= 193.1e12, result * grid <= freq - 193.1e12 and freq - 193.1e12 < (result + 1) * grid)'),
                  ('trunc_neg', 'implies(freq < 193.1e12, result * grid >= freq - 193.1e12 and freq - 193.1e12 > (result - 1) * grid)')],
         returns=integer(), pure=True)

H_ROUNDTRIP = '''
def n_roundtrip(n, grid):
    return frequency_to_n(nvalue_to_frequency(n, grid), grid)
'''
contract('harness:n_roundtrip', harness=H_ROUNDTRIP, module='gnpy.topology.spectrum_assignment', props=['C15'],
         params={'n': integer(), 'grid': real()}, requires=[('grid', 'grid > 0')],
         ensures=[('inverse_on_integers', 'result == n')], modifies=[])

contract('gnpy.topology.spectrum_assignment.mvalue_to_slots', props=['C14', 'C15'],
         params={'nvalue': integer(), 'mvalue': integer()},
         ensures=[('range', 'result[0] == nvalue - mvalue and result[1] == nvalue + mvalue - 1')],
         use_at_calls=False)

contract('gnpy.topology.spectrum_assignment.Bitmap.__init__', name='gnpy.topology.spectrum_assignment.Bitmap.__init__[given list]',
         props=['C15', 'C14'],
         params={'self': obj('Bitmap'), 'f_min': real(), 'f_max': real(), 'grid': real(), 'guardband': real(),
                 'bitmap': shared('the_list', ilist('nb', enum='BitmapValue'))}, spec=SPEC_BM,
         let={'lo': 'frequency_to_n(f_min, grid)', 'hi': 'frequency_to_n(f_max, grid)'},
         requires=[('grid', 'grid > 0'), ('ordered', 'f_min <= f_max')],
         raises={'SpectrumError': 'len(bitmap) != hi - lo + 1'},
         ensures=[('extent', 'self.n_min == lo and self.n_max == hi'),
                  ('wf', 'WF(self)'), ('indices', 'WFI(self)'),
                  ('stores_the_given_list_object', 'self.bitmap is bitmap'),
                  ('guard_indices', 'self.freq_index_min == frequency_to_n(f_min + guardband, 0.00625e12) and '
                                    'self.freq_index_max == frequency_to_n(f_max - guardband, 0.00625e12)')],
         modifies=['self.*'], use_at_calls=False)

contract('gnpy.topology.spectrum_assignment.Bitmap.__init__', name='gnpy.topology.spectrum_assignment.Bitmap.__init__[fresh]',
         props=['C15', 'C14'],
         params={'self': obj('Bitmap'), 'f_min': real(), 'f_max': real(), 'grid': real(), 'guardband': real(),
                 'bitmap': const(None)}, spec=SPEC_BM,
         let={'lo': 'frequency_to_n(f_min, grid)', 'hi': 'frequency_to_n(f_max, grid)'},
         requires=[('grid', 'grid > 0'), ('ordered', 'f_min <= f_max')],
         ensures=[('extent', 'self.n_min == lo and self.n_max == hi'),
                  ('wf', 'WF(self)'), ('indices', 'WFI(self)'),
                  ('all_free', 'forall(lambda k: self.bitmap[k] == BitmapValue.FREE, len(self.bitmap))'),
                  ('guard_band_inside', 'implies(grid == 0.00625e12 and guardband >= 2 * grid and f_max - f_min >= guardband, '
                                        'self.n_min < self.freq_index_min and self.freq_index_max <= self.n_max)')],
         modifies=['self.*'], use_at_calls=False)

for _side in ('insert_left', 'insert_right'):
    contract(f'gnpy.topology.spectrum_assignment.Bitmap.{_side}', props=['C15'],
             params={'self': BITMAP, 'newbitmap': ilist('nnew', enum='BitmapValue')}, spec=SPEC_BM,
             let={'k': 'len(newbitmap)'},
             requires=[('wf', 'WF(self)'), ('indices', 'WFI(self)')],
             ensures=[('wf', 'WF(self)'),
                      # slot indices stay unique and consecutive
                      ('indices', 'WFI(self)'),
                      ('extent', ('self.n_min == old(self.n_min) - k and self.n_max == old(self.n_max)') if _side == 'insert_left'
                       else ('self.n_max == old(self.n_max) + k and self.n_min == old(self.n_min)')),
                      # every existing occupancy stays at its ITU index (= at its frequency)
                      ('old_values_kept_at_their_n', 'forall(lambda j: self.bitmap[j + old(self.n_min) - self.n_min] == old(self.bitmap)[j], len(old(self.bitmap)))'),
                      ('new_values_in_order', ('forall(lambda j: self.bitmap[j] == newbitmap[j], k)') if _side == 'insert_left'
                       else ('forall(lambda j: self.bitmap[len(old(self.bitmap)) + j] == newbitmap[j], k)'))],
             modifies=['self.bitmap', 'self.freq_index', 'self.n_min', 'self.n_max'])

contract('gnpy.topology.spectrum_assignment.Bitmap.geti', props=['C14', 'C15'],
         params={'self': BITMAP, 'nvalue': integer()}, spec=SPEC_BM,
         requires=[('wf', 'WF(self)'), ('indices', 'WFI(self)')],
         raises={'ValueError': 'nvalue < self.n_min or nvalue > self.n_max'},
         ensures=[('local_index', 'result == nvalue - self.n_min')], returns=integer(), pure=True,
         hints=['nvalue - self.n_min'])

# ---- create_oms_bitmap: ghost parameter equipment['__common_range__'] stands for the value returned by
# find_elements_common_range (C07 proves that function); variants for 1, 2 and 3 common bands
contract('gnpy.topology.request.find_elements_common_range', trusted=True, props=[],
         params={'el_list': lst(), 'equipment': dct()},
         ensures=[], returns=expr("equipment['__common_range__']"),
         note='ghost: the common range is a parameter of the create_oms_bitmap contract; the function itself is under '
              'contract for C07')

BAND = dct(f_min=real(), f_max=real())
for _nb in (1, 2, 3):
    _bands = [f"equipment['__common_range__'][{k}]" for k in range(_nb)]
    _in_band = ' or '.join(f"(frequency_to_n({b}['f_min'], grid) <= n0 + k and n0 + k <= frequency_to_n({b}['f_max'], grid))"
                           for b in _bands)
    contract('gnpy.topology.spectrum_assignment.create_oms_bitmap',
             name=f'gnpy.topology.spectrum_assignment.create_oms_bitmap[{_nb} band(s)]', props=['C15', 'C14'],
             params={'oms': obj('OMS', el_list=lst()), 'equipment': dct(__common_range__=lst(*[BAND] * _nb)),
                     'f_min': real(), 'f_max': real(), 'grid': real()}, spec=SPEC_BM,
             let={'n0': 'frequency_to_n(f_min, grid)', 'n1': 'frequency_to_n(f_max, grid)'},
             requires=[('grid', 'grid > 0'),
                       ('first_band_inside', f"n0 <= frequency_to_n({_bands[0]}['f_min'], grid)"),
                       ('last_band_inside', f"frequency_to_n({_bands[-1]}['f_max'], grid) <= n1")] +
                      [(f'band{k}_nonempty', f"frequency_to_n({b}['f_min'], grid) <= frequency_to_n({b}['f_max'], grid)")
                       for k, b in enumerate(_bands)] +
                      [(f'bands_{k}_{k + 1}_apart', f"frequency_to_n({_bands[k]}['f_max'], grid) < frequency_to_n({_bands[k + 1]}['f_min'], grid)")
                       for k in range(_nb - 1)],
             # every OMS map covers the same contiguous slot range n(f_min)..n(f_max) of the network
             ensures=[('covers_network_range', 'len(result) == n1 - n0 + 1'),
                      ('usable_exactly_inside_common_bands',
                       f'forall(lambda k: result[k] == (BitmapValue.FREE if ({_in_band}) else BitmapValue.UNUSABLE), len(result))')],
             use_at_calls=False, modifies=[],
             native_patches={'gnpy.topology.spectrum_assignment.find_elements_common_range':
                             "lambda el_list, equipment: equipment['__common_range__']"})

# ---- align_grids: (1) the loop body for ONE arbitrary map (mechanically extracted; any number of maps, any extents),
# (2) the glue (extent = min/max over the list, every map visited, the list returned) on a two-map list
def OMSB(tag):
    return obj('OMS', oms_id=integer(), spectrum_bitmap=BM(tag), el_id_list=lst(), el_list=lst(), nb_channels=integer(),
               service_list=lst())


_O = 'this_o.spectrum_bitmap'
contract('gnpy.topology.spectrum_assignment.align_grids', name='gnpy.topology.spectrum_assignment.align_grids[loop body]',
         loop=0, props=['C15'], use_at_calls=False,
         params={'this_o': OMSB('a'), 'n_min': integer(), 'n_max': integer()}, spec=SPEC_BM,
         requires=[('wf', f'WF({_O})'), ('indices', f'WFI({_O})'),
                   ('global_extent_covers_map', f'n_min <= {_O}.n_min and {_O}.n_max <= n_max')],
         ensures=[('wf', f'WF({_O})'), ('indices', f'WFI({_O})'),
                  ('common_extent', f'{_O}.n_min == n_min and {_O}.n_max == n_max'),
                  ('old_values_kept_at_their_n', f'forall(lambda j: {_O}.bitmap[j + old({_O}.n_min) - n_min] == old({_O}.bitmap)[j], len(old({_O}.bitmap)))'),
                  ('added_slots_occupied', f'forall(lambda j: implies(j < old({_O}.n_min) - n_min or j > old({_O}.n_max) - n_min, '
                                           f'{_O}.bitmap[j] == BitmapValue.OCCUPIED), n_max - n_min + 1)')],
         modifies=[f'{_O}.{f}' for f in ('bitmap', 'freq_index', 'n_min', 'n_max')])

contract('gnpy.topology.spectrum_assignment.align_grids', name='gnpy.topology.spectrum_assignment.align_grids[two maps]',
         props=['C15'], use_at_calls=False,
         params={'oms_list': lst(OMSB('a'), OMSB('b'))}, spec=SPEC_BM,
         let={'A': 'oms_list[0].spectrum_bitmap', 'B': 'oms_list[1].spectrum_bitmap',
              'lo': 'min(old(A.n_min), old(B.n_min))', 'hi': 'max(old(A.n_max), old(B.n_max))'},
         requires=[('wf_a', 'WF(A)'), ('wfi_a', 'WFI(A)'), ('wf_b', 'WF(B)'), ('wfi_b', 'WFI(B)')],
         ensures=[('common_extent', 'A.n_min == lo and A.n_max == hi and B.n_min == lo and B.n_max == hi'),
                  ('wf', 'WF(A) and WF(B)'), ('same_list', 'result is oms_list')],
         modifies=[f'oms_list[{k}].spectrum_bitmap.{f}' for k in range(2) for f in ('bitmap', 'freq_index', 'n_min', 'n_max')])

# ================================================================== C14
SPEC_ASG = SPEC_BM + '''
def INRANGE(bm, nvalue, mvalue, k):
    return nvalue - mvalue <= bm.n_min + k and bm.n_min + k <= nvalue + mvalue - 1
'''
contract('gnpy.topology.spectrum_assignment.OMS.assign_spectrum', props=['C14'],
         params={'self': OMSB('a'), 'nvalue': integer(), 'mvalue': integer()}, spec=SPEC_ASG,
         let={'bm': 'self.spectrum_bitmap'},
         requires=[('wf', 'WF(bm)'), ('indices', 'WFI(bm)')],
         raises={'SpectrumError': 'mvalue <= 0 or nvalue > bm.freq_index_max or nvalue < bm.freq_index_min or '
                                  'nvalue + mvalue - 1 > bm.n_max or nvalue - mvalue <= bm.n_min'},
         ensures=[('wf', 'WF(bm)'),
                  # exactly the slots N-M .. N+M-1 become OCCUPIED, everything else keeps its value
                  ('marks_exactly_the_range', 'forall(lambda k: bm.bitmap[k] == (BitmapValue.OCCUPIED if INRANGE(bm, nvalue, mvalue, k) '
                                              'else old(bm.bitmap)[k]), len(bm.bitmap))'),
                  ],
         # frame: the map keeps its list object (only its contents change)
         modifies=['self.spectrum_bitmap.bitmap[*]'])

contract('gnpy.topology.spectrum_assignment.bitmap_sum', props=['C14'],
         params={'band1': ilist('n1', enum='BitmapValue'), 'band2': ilist('n2', enum='BitmapValue')}, spec=SPEC_BM,
         requires=[('values1', 'VALS(band1)'), ('values2', 'VALS(band2)')],
         ensures=[('length', 'len(result) == (len(band1) if len(band1) <= len(band2) else len(band2))'),
                  # a slot is free in the union only if it is FREE in both; UNUSABLE counts as not free
                  ('free_iff_both_free', 'forall(lambda k: result[k] == (BitmapValue.FREE if band1[k] == BitmapValue.FREE and '
                                         'band2[k] == BitmapValue.FREE else BitmapValue.OCCUPIED), len(result))'),
                  ('fresh', 'result is not band1 and result is not band2')],
         returns=ilist('nsum', enum='BitmapValue'), modifies=[])

OMS_A = OMSB('a')
SPEC_SEL = SPEC_ASG + '''
def FREEWIN(bm, c, r):
    # slots c-r .. c+r-1 (local indices) all FREE
    return forall(lambda t: bm.bitmap[t] == BitmapValue.FREE, c - r, c + r)
def OKWIN(bm, c, r):
    # the window of half-width r around local index c lies inside the list and inside the guard-band indices
    return c - r >= 0 and c + r <= len(bm.bitmap) and bm.n_min + c - r >= bm.freq_index_min and bm.n_min + c + r - 1 <= bm.freq_index_max
'''
contract('gnpy.topology.spectrum_assignment.determine_slot_numbers', props=['C14'],
         params={'test_oms': OMS_A, 'requested_n': integer(), 'required_m': integer(), 'per_channel_m': integer()},
         spec=SPEC_SEL,
         let={'bm': 'test_oms.spectrum_bitmap', 'c': 'requested_n - test_oms.spectrum_bitmap.n_min'},
         requires=[('wf', 'WF(bm)'), ('indices', 'WFI(bm)'), ('pcm', 'per_channel_m > 0'),
                   ('n_on_grid', 'bm.n_min <= requested_n and requested_n <= bm.n_max')],
         loops={0: {'invariant': [('multiple', 'i >= per_channel_m and (i - per_channel_m) % per_channel_m == 0'),
                                  ('bounded', 'i - per_channel_m <= required_m or i == per_channel_m'),
                                  ('prev_window_ok', 'implies(i > per_channel_m, OKWIN(bitmap, center_i, i - per_channel_m))'),
                                  ('prev_window_free', 'implies(i > per_channel_m, FREEWIN(bitmap, center_i, i - per_channel_m))'),
                                  ('center', 'center_i == requested_n - bitmap.n_min')]}},
         ensures=[('multiple_of_channel_width', 'result >= 0 and result % per_channel_m == 0'),
                  ('not_more_than_required', 'result <= required_m or result == 0'),
                  ('window_free', 'implies(result > 0, FREEWIN(bm, c, result))'),
                  ('window_inside_guard_bands', 'implies(result > 0, OKWIN(bm, c, result))')],
         returns=integer(), pure=True, modifies=[], hints=['requested_n - test_oms.spectrum_bitmap.n_min'])

# a centre the user fixed outside the slot range of the path: nothing is available there (the request is then blocked), no exception
contract('gnpy.topology.spectrum_assignment.determine_slot_numbers',
         name='gnpy.topology.spectrum_assignment.determine_slot_numbers[centre outside the map]', props=['C14'],
         params={'test_oms': OMS_A, 'requested_n': integer(), 'required_m': integer(), 'per_channel_m': integer()}, spec=SPEC_SEL,
         let={'bm': 'test_oms.spectrum_bitmap'},
         requires=[('wf', 'WF(bm)'), ('indices', 'WFI(bm)'), ('pcm', 'per_channel_m > 0'),
                   ('n_off_the_map', 'requested_n < bm.n_min or requested_n > bm.n_max')],
         ensures=[('nothing_available', 'result == 0')],
         returns=integer(), pure=True, modifies=[], use_at_calls=False)

SPEC_SEL2 = SPEC_SEL + '''
def ROOM(bm, s, m):
    # a window of 2m slots starting at local index s lies inside the list and inside the guard-band indices
    return (0 <= s and s + 2 * m <= len(bm.bitmap) and bm.freq_index[s] >= bm.freq_index_min
            and bm.freq_index[s + 2 * m - 1] <= bm.freq_index_max)
'''
contract('gnpy.topology.spectrum_assignment.spectrum_selection', name='gnpy.topology.spectrum_assignment.spectrum_selection[free N]',
         props=['C14'],
         params={'test_oms': OMS_A, 'requested_m': integer(), 'requested_n': const(None), 'policy': const('first_fit')},
         spec=SPEC_SEL2, let={'bm': 'test_oms.spectrum_bitmap'},
         requires=[('wf', 'WF(bm)'), ('indices', 'WFI(bm)'), ('m', 'requested_m > 0')],
         ensures=[('triple', 'implies(result[0] is not None, result[1] == result[0] - requested_m and result[2] == result[0] + requested_m - 1)'),
                  ('window_free', 'implies(result[0] is not None, FREEWIN(bm, result[0] - bm.n_min, requested_m))'),
                  ('window_inside_guard_bands', 'implies(result[0] is not None, OKWIN(bm, result[0] - bm.n_min, requested_m))'),
                  # first fit: no feasible window starts below the returned one ...
                  ('lowest_feasible', 'implies(result[0] is not None, forall(lambda s: given([ROOM(bm, s, requested_m), '
                                      'forall(lambda t: bm.bitmap[t] == BitmapValue.FREE, s, s + 2 * requested_m)], False), '
                                      'result[1] - bm.n_min))'),
                  # ... and none at all exists when nothing is returned
                  ('none_only_if_no_room', 'implies(result[0] is None, forall(lambda s: given([ROOM(bm, s, requested_m), '
                                           'forall(lambda t: bm.bitmap[t] == BitmapValue.FREE, s, s + 2 * requested_m)], False), '
                                           'len(bm.bitmap)))')],
         use_at_calls=False, modifies=[])

contract('gnpy.topology.spectrum_assignment.spectrum_selection', name='gnpy.topology.spectrum_assignment.spectrum_selection[fixed N]',
         props=['C14'],
         params={'test_oms': OMS_A, 'requested_m': integer(), 'requested_n': integer(), 'policy': const('first_fit')},
         spec=SPEC_SEL2, let={'bm': 'test_oms.spectrum_bitmap', 'c': 'requested_n - test_oms.spectrum_bitmap.n_min'},
         requires=[('wf', 'WF(bm)'), ('indices', 'WFI(bm)'), ('m', 'requested_m > 0'),
                   ('n_on_grid', 'bm.n_min <= requested_n and requested_n <= bm.n_max')],
         ensures=[('verbatim', 'implies(result[0] is not None, result[0] == requested_n and result[1] == requested_n - requested_m '
                               'and result[2] == requested_n + requested_m - 1)'),
                  ('window_free', 'implies(result[0] is not None, FREEWIN(bm, c, requested_m))'),
                  ('window_inside_guard_bands', 'implies(result[0] is not None, OKWIN(bm, c, requested_m))'),
                  ('none_only_if_infeasible', 'implies(result[0] is None, given([OKWIN(bm, c, requested_m), '
                                              'forall(lambda t: bm.bitmap[t] == BitmapValue.FREE, c - requested_m, c + requested_m)], False))')],
         use_at_calls=False, modifies=[], hints=['requested_n - test_oms.spectrum_bitmap.n_min'])

# ---- aggregate over the OMS of a path.  Structure bound of these contracts: two OMS in oms_list, paths crossing one
# or both (sizes, extents and contents of the maps are unbounded).
SPEC_AGG = SPEC_SEL2 + '''
def SAME_EXTENT(a, b):
    return (a.n_min == b.n_min and a.n_max == b.n_max and a.freq_index_min == b.freq_index_min
            and a.freq_index_max == b.freq_index_max)
def CONSIST(b):
    # guard indices as recomputed by aggregate_oms_bitmap from the map's own extent and guardband (true for band
    # edges on the 6.25 GHz grid; off-grid edges can shift the recomputed guard index by one slot - not claimed)
    return (b.freq_index_min == frequency_to_n(nvalue_to_frequency(b.n_min) + b.guardband)
            and b.freq_index_max == frequency_to_n(nvalue_to_frequency(b.n_max) - b.guardband))
def GB(b):
    # guard band: the assignable indices lie strictly inside the map (established by Bitmap() for guardband >= 2 slots)
    return b.n_min < b.freq_index_min and b.freq_index_max <= b.n_max
'''
_A, _B = 'oms_list[0].spectrum_bitmap', 'oms_list[1].spectrum_bitmap'
_REQ2 = [('wf_a', f'WF({_A})'), ('wfi_a', f'WFI({_A})'), ('vals_a', f'VALS({_A}.bitmap)'),
         ('wf_b', f'WF({_B})'), ('wfi_b', f'WFI({_B})'), ('vals_b', f'VALS({_B}.bitmap)'),
         ('aligned', f'SAME_EXTENT({_A}, {_B})')]
for _po, _free in (([0], f'{_A}.bitmap[k] == BitmapValue.FREE'),
                   ([0, 1], f'{_A}.bitmap[k] == BitmapValue.FREE and {_B}.bitmap[k] == BitmapValue.FREE')):
    contract('gnpy.topology.spectrum_assignment.aggregate_oms_bitmap',
             name=f'gnpy.topology.spectrum_assignment.aggregate_oms_bitmap[path over OMS {_po}]', props=['C14'],
             params={'path_oms': const(_po), 'oms_list': lst(OMSB('a'), OMSB('b'))}, spec=SPEC_AGG,
             let={'r': 'result.spectrum_bitmap'},
             requires=_REQ2 + [('guard_consistent', f'CONSIST({_A})')],
             ensures=[('wf', 'WF(r)'), ('indices', 'WFI(r)'), ('extent', f'SAME_EXTENT(r, {_A})'),
                      ('free_iff_free_on_every_oms_of_the_path',
                       f'forall(lambda k: iff(r.bitmap[k] == BitmapValue.FREE, {_free}), len(r.bitmap))'),
                      # the scratch map must not share its list with a real OMS (it is written by compute_n_m)
                      ('fresh_list_a', f'r.bitmap is not {_A}.bitmap'), ('fresh_list_b', f'r.bitmap is not {_B}.bitmap')],
             use_at_calls=False, modifies=[])

# ---- order_slots / restore_order: proved for one-entry and two-entry requests (sorting of dicts by lambda keys with None/inf
# handling is executed symbolically on lists of concrete length); the call sites of compute_n_m use the one-entry contract,
# whose `returns` expression is exactly its `verbatim` / `kept_unless_none` clause.  The general permutation contract is
# checked natively, exhaustively on small inputs, in bounded/order_slots.py.
contract('gnpy.core.utils.order_slots', name='gnpy.core.utils.order_slots[one entry]', props=['C14'],
         params={'slots': lst(dct(N=opt(integer()), M=opt(integer())))},
         requires=[('one_entry', 'len(slots) == 1')],
         ensures=[('verbatim', "len(result[0]) == 1 and len(result[1]) == 1 and len(result[2]) == 1 and result[0][0] == slots[0]['N'] "
                               "and result[1][0] == slots[0]['M'] and result[2][0] == 0")],
         returns=expr("([slots[0]['N']], [slots[0]['M']], [0])"), pure=True, modifies=[])
contract('gnpy.core.utils.restore_order', name='gnpy.core.utils.restore_order[one entry]', props=['C14'],
         params={'elements': lst(opt(integer())), 'order': lst(integer())},
         requires=[('one_entry', 'len(elements) == 1 and len(order) == 1')],
         ensures=[('kept_unless_none', 'implies(elements[0] is None, len(result) == 0) and '
                                       'implies(elements[0] is not None, len(result) == 1 and result[0] == elements[0])')],
         returns=expr('[e for e in elements if e is not None]'), pure=True, modifies=[])
_SLOT = lambda: dct(N=opt(integer()), M=opt(integer()))
contract('gnpy.core.utils.order_slots', name='gnpy.core.utils.order_slots[two entries]', props=['C14'],
         params={'slots': lst(_SLOT(), _SLOT())},
         let={'i0': 'result[2][0]', 'i1': 'result[2][1]'},
         ensures=[('a_permutation', '(i0 == 0 and i1 == 1) or (i0 == 1 and i1 == 0)'),
                  ('entries_follow_their_index', "result[0][0] == slots[i0]['N'] and result[1][0] == slots[i0]['M'] and "
                                                 "result[0][1] == slots[i1]['N'] and result[1][1] == slots[i1]['M']"),
                  # widest first, entries without M last (they take what is left)
                  ('wider_first_unset_last', 'implies(result[1][1] is not None, result[1][0] is not None and result[1][0] >= result[1][1])'),
                  ('input_untouched', "slots[0]['N'] == old(slots[0]['N']) and slots[1]['M'] == old(slots[1]['M']) and len(slots[0]) == 2")],
         use_at_calls=False, modifies=[])
H_ORDER = '''
def order_roundtrip(slots):
    n, m, order = order_slots(slots)
    return restore_order(n, order), restore_order(m, order)
'''
contract('harness:order_roundtrip', harness=H_ORDER, module='gnpy.core.utils', props=['C14'],
         params={'slots': lst(dct(N=integer(), M=integer()), dct(N=integer(), M=integer()))},
         inline_callees=['gnpy.core.utils.order_slots', 'gnpy.core.utils.restore_order'],
         # the labels reported to the user come back in the order of the request
         ensures=[('restore_inverts_order', "result[0][0] == slots[0]['N'] and result[0][1] == slots[1]['N'] and "
                                            "result[1][0] == slots[0]['M'] and result[1][1] == slots[1]['M'] and len(result[0]) == 2")],
         modifies=[])

RQ1 = obj('<ns>', N=lst(opt(integer())), M=lst(opt(integer())), request_id=string())
for (_po, _oms), _pol in [(x, y) for x in (([0], [_A]), ([0, 1], [_A, _B])) for y in ('first_fit', 'last_fit')]:
    _ptag = '' if _pol == 'first_fit' else ', last fit'
    _freewin = [(f'window_free_on_oms_{k}', f'implies(len(result[0]) == 1, forall(lambda t: old({o}.bitmap)[t] == BitmapValue.FREE, n - m - {o}.n_min, n + m - {o}.n_min))')
                for k, o in enumerate(_oms)]
    contract('gnpy.topology.spectrum_assignment.compute_n_m',
             name=f'gnpy.topology.spectrum_assignment.compute_n_m[one (N, M) entry, path over OMS {_po}{_ptag}]', props=['C14'],
             params={'required_m': integer(), 'rq': RQ1, 'path_oms': const(_po), 'oms_list': lst(OMSB('a'), OMSB('b')),
                     'per_channel_m': integer(), 'policy': const(_pol)}, spec=SPEC_AGG,
             let={'n': 'result[0][0]', 'm': 'result[1][0]', 'A': _A},
             requires=_REQ2 + [('guard_a', f'GB({_A})'), ('guard_consistent', f'CONSIST({_A})'), ('pcm', 'per_channel_m > 0'), ('required', 'required_m > 0'),
                               ('fixed_m_positive', 'implies(rq.M[0] is not None, rq.M[0] > 0)'),
                               # a user-fixed N outside the map raises ValueError in Bitmap.geti (triaged separately, F11)
                               ('fixed_n_on_grid', f'implies(rq.N[0] is not None, {_A}.n_min <= rq.N[0] and rq.N[0] <= {_A}.n_max)')],
             ensures=[('shape', 'len(result[0]) == len(result[1]) and len(result[0]) <= 1'),
                      ('blocked_means_nothing_selected', 'implies(len(result[0]) == 0, result[2] == required_m)'),
                      ('remaining', 'implies(len(result[0]) == 1, result[2] == required_m - m and m > 0)'),
                      ('fixed_n_verbatim', 'implies(len(result[0]) == 1 and rq.N[0] is not None, n == rq.N[0])'),
                      ('fixed_m_verbatim', 'implies(len(result[0]) == 1 and rq.M[0] is not None, m == rq.M[0])'),
                      ('window_inside_guard_bands', 'implies(len(result[0]) == 1, n - m >= A.freq_index_min and n + m - 1 <= A.freq_index_max)')] + _freewin,
             # frame: NO map of oms_list may change (the function works on a scratch aggregate)
             use_at_calls=False, modifies=[])

RQP = obj('<ns>', N=lst(opt(integer())), M=lst(opt(integer())), request_id=string(), path_bandwidth=real(),
          spacing=real(), bit_rate=real())
for (_po, _oms), _pol in [(x, y) for x in (([0], [_A]), ([0, 1], [_A, _B])) for y in ('first_fit', 'last_fit')]:
    _ptag = '' if _pol == 'first_fit' else ', last fit'
    _pth = lst(*[obj('Fiber', oms_id=const(k), uid=string()) for k in _po])
    _others = [o for o in (_A, _B) if o not in _oms]
    contract('gnpy.topology.spectrum_assignment.pth_assign_spectrum',
             name=f'gnpy.topology.spectrum_assignment.pth_assign_spectrum[one request, path over OMS {_po}{_ptag}]', props=['C14'],
             params={'pths': lst(_pth), 'rqs': lst(RQP), 'oms_list': lst(OMSB('a'), OMSB('b')), 'rpths': lst(lst()),
                     'policy': const(_pol)}, spec=SPEC_AGG,
             let={'rq': 'rqs[0]', 'A': _A, 'blocked': "hasattr(rqs[0], 'blocking_reason')"},
             requires=_REQ2 + [('guard_a', f'GB({_A})'), ('guard_consistent', f'CONSIST({_A})'),
                               ('demand', 'rqs[0].path_bandwidth > 0 and rqs[0].spacing > 0 and rqs[0].bit_rate > 0'),
                               ('fixed_m_positive', 'implies(rqs[0].M[0] is not None, rqs[0].M[0] > 0)'),
                               ('fixed_n_on_grid', f'implies(rqs[0].N[0] is not None, {_A}.n_min <= rqs[0].N[0] and rqs[0].N[0] <= {_A}.n_max)')],
             ensures=[('blocked_has_no_labels', 'implies(blocked, rq.N is None and rq.M is None)'),
                      ('accepted_has_one_label', 'implies(not blocked, len(rq.N) == 1 and len(rq.M) == 1 and rq.M[0] > 0)'),
                      ('fixed_n_verbatim', 'implies(not blocked and old(rqs[0].N[0]) is not None, rq.N[0] == old(rqs[0].N[0]))'),
                      ('fixed_m_verbatim', 'implies(not blocked and old(rqs[0].M[0]) is not None, rq.M[0] == old(rqs[0].M[0]))'),
                      ('enough_slots', 'implies(not blocked, rq.M[0] * 0.0125e12 >= rq.spacing * (rq.path_bandwidth / rq.bit_rate))'),
                      ('inside_guard_bands', 'implies(not blocked, rq.N[0] - rq.M[0] >= A.freq_index_min and rq.N[0] + rq.M[0] - 1 <= A.freq_index_max)')] +
                     [(f'was_free_on_oms_{k}', f'implies(not blocked, forall(lambda t: old({o}.bitmap)[t] == BitmapValue.FREE, '
                                               f'rq.N[0] - rq.M[0] - {o}.n_min, rq.N[0] + rq.M[0] - {o}.n_min))') for k, o in enumerate(_oms)] +
                     # occupancy afterwards = occupancy before + exactly the accepted range, on every OMS of the path
                     [(f'occupancy_is_old_plus_the_range_on_oms_{k}',
                       f'implies(not blocked, forall(lambda t: {o}.bitmap[t] == (BitmapValue.OCCUPIED if INRANGE({o}, rq.N[0], rq.M[0], t) '
                       f'else old({o}.bitmap)[t]), len({o}.bitmap)))') for k, o in enumerate(_oms)] +
                     # a blocked request changes no spectrum state
                     [(f'blocked_changes_nothing_on_oms_{k}',
                       f'implies(blocked, forall(lambda t: {o}.bitmap[t] == old({o}.bitmap)[t], len({o}.bitmap)))') for k, o in enumerate(_oms)] +
                     [(f'service_recorded_on_oms_{k}', f'implies(not blocked, len(oms_list[{k}].service_list) == len(old(oms_list[{k}].service_list)) + 1)')
                      for k in _po],
             modifies=['rqs[0].N', 'rqs[0].M', 'rqs[0].blocking_reason'] +
                      [f'oms_list[{k}].spectrum_bitmap.bitmap[*]' for k in _po] +
                      [f'oms_list[{k}].service_list[*]' for k in _po] + [f'oms_list[{k}].nb_channels' for k in _po],
             use_at_calls=False, allow_other_exc=())

# ---- pairing of opposite directions: every OMS is paired with the first OMS that runs between the same two ends the other way
# round, and one that has no opposite direction is recorded as unpaired (three OMS with arbitrary end names)
_OMS3 = lambda: obj('OMS', oms_id=integer(), el_id_list=lst(string(), string(), string()))
SPEC_REV = '''
def OPPOSITE(a, b):
    return a.el_id_list[0] == b.el_id_list[-1] and a.el_id_list[-1] == b.el_id_list[0]
def FIRST_OPPOSITE(l, i, j):
    return OPPOSITE(l[i], l[j]) and not any(OPPOSITE(l[i], l[jj]) for jj in range(j))
'''
contract('gnpy.topology.spectrum_assignment.reversed_oms', name='gnpy.topology.spectrum_assignment.reversed_oms[three OMS]', props=['C15'],
         params={'oms_list': lst(_OMS3(), _OMS3(), _OMS3())}, spec=SPEC_REV,
         ensures=[('paired_with_the_first_opposite_direction',
                   'all(implies(FIRST_OPPOSITE(oms_list, i, j), oms_list[i].reversed_oms is oms_list[j]) for i in range(3) for j in range(3))'),
                  ('unpaired_recorded_as_none',
                   'all(implies(not any(OPPOSITE(oms_list[i], oms_list[j]) for j in range(3)), oms_list[i].reversed_oms is None) for i in range(3))')],
         modifies=['oms_list[0].reversed_oms', 'oms_list[1].reversed_oms', 'oms_list[2].reversed_oms'], use_at_calls=False, max_paths=3000)

# ---- the band of a line without amplifier is the default band handed in, and the path / OMS helpers hand in the SI band
contract('gnpy.core.utils.find_common_range', name='gnpy.core.utils.find_common_range[no amplifier]', props=['C15', 'C07'],
         params={'amp_bands': const([]), 'default_band_f_min': real(), 'default_band_f_max': real(), 'default_spacing': real(),
                 'default_design_bands': const(None)},
         ensures=[('the_default_band', "len(result) == 1 and result[0]['f_min'] == default_band_f_min and result[0]['f_max'] == default_band_f_max")],
         use_at_calls=False, modifies=[])


def _rec_common_range(it, a, k):
    g = it.p.live['equipment']['ghost_call']
    for nm, v in zip(('amp_bands', 'default_band_f_min', 'default_band_f_max', 'default_spacing'), a):
        g[nm] = v
    g.update(k)
    return [{'f_min': a[1], 'f_max': a[2], 'spacing': None}]


from pyvc.vals import Builtin as _Builtin2
contract('gnpy.topology.request.find_elements_common_range', name='gnpy.topology.request.find_elements_common_range[line without amplifier]',
         props=['C15', 'C07'], overrides={('gnpy.topology.request', 'find_common_range'): lambda it: _Builtin2('common', _rec_common_range)},
         params={'el_list': lst(obj('Roadm', uid=string()), obj('Fused', uid=string()), obj('Fiber', uid=string())),
                 'equipment': dct(SI=dct(default=obj('<ns>', f_min=real(), f_max=real(), spacing=real())), ghost_call=dct())},
         let={'asked': "equipment['ghost_call']", 'si': "equipment['SI']['default']"},
         ensures=[('default_band_is_the_si_band', "asked['default_band_f_min'] == si.f_min and asked['default_band_f_max'] == si.f_max and "
                                                  "asked['default_spacing'] == si.spacing"),
                  ('no_amplifier_no_amplifier_band', "len(asked['amp_bands']) == 0")],
         use_at_calls=False, modifies=["equipment['ghost_call'][*]"])

# ---------------------------------------------------------------- round 8: the ITU-grid helpers and the last-fit policy
contract('gnpy.topology.spectrum_assignment.nvalue_to_frequency', props=['C15', 'C14'],
         params={'nvalue': integer(), 'grid': real()},
         # G.694.1: central frequency 193.1 THz + n x granularity
         ensures=[('itu_rule', 'result == 193.1e12 + nvalue * grid')], returns=real(), use_at_calls=False, modifies=[])

contract('gnpy.topology.spectrum_assignment.slots_to_m', props=['C15', 'C14'],
         params={'startn': integer(), 'stopn': integer()},
         requires=[('ordered', 'startn <= stopn'), ('whole_slots', '(stopn - startn + 1) % 2 == 0')],
         # a range of 2m indices startn..stopn is the slot (n, m) with startn = n - m and stopn = n + m - 1
         ensures=[('centre', '2 * result[0] == startn + stopn + 1'), ('width', '2 * result[1] == stopn - startn + 1')],
         use_at_calls=False, modifies=[])

H_SLOTS = '''
def slots_roundtrip(n, m):
    startn, stopn = mvalue_to_slots(n, m)
    return slots_to_m(startn, stopn)
'''
contract('harness:slots_roundtrip', harness=H_SLOTS, module='gnpy.topology.spectrum_assignment', props=['C15', 'C14'],
         params={'n': integer(), 'm': integer()},
         ensures=[('inverse_of_mvalue_to_slots', 'result[0] == n and result[1] == m')], modifies=[])

contract('gnpy.topology.spectrum_assignment.m_to_freq', props=['C15', 'C14'],
         params={'nvalue': integer(), 'mvalue': integer(), 'grid': real()},
         ensures=[('start', 'result[0] == 193.1e12 + (nvalue - mvalue) * grid'),
                  ('stop', 'result[1] == 193.1e12 + (nvalue + mvalue) * grid'),
                  # m slots of 12.5 GHz = 2m steps of the 6.25 GHz granularity
                  ('width', 'result[1] - result[0] == 2 * mvalue * grid')],
         use_at_calls=False, modifies=[])

contract('gnpy.topology.spectrum_assignment.Bitmap.getn', props=['C15'],
         params={'self': BITMAP, 'i': integer()}, spec=SPEC_BM,
         requires=[('wf', 'WF(self)'), ('indices', 'WFI(self)'), ('in_range', '0 <= i and i < len(self.freq_index)')],
         ensures=[('itu_index', 'result == self.n_min + i')], returns=integer(), use_at_calls=False, modifies=[])

H_GETN = '''
def index_roundtrip(b, nvalue):
    return b.getn(b.geti(nvalue))
'''
contract('harness:index_roundtrip', harness=H_GETN, module='gnpy.topology.spectrum_assignment', props=['C15'],
         params={'b': BITMAP, 'nvalue': integer()}, spec=SPEC_BM,
         requires=[('wf', 'WF(b)'), ('indices', 'WFI(b)'), ('on_the_map', 'b.n_min <= nvalue and nvalue <= b.n_max')],
         ensures=[('geti_getn_inverse', 'result == nvalue')], modifies=[])

contract('gnpy.topology.request.compute_spectrum_slot_vs_bandwidth', props=['C14'],
         params={'bandwidth': real(), 'spacing': real(), 'bit_rate': real(), 'slot_width': real()},
         requires=[('positive', 'bandwidth > 0 and spacing > 0 and bit_rate > 0 and slot_width > 0')],
         let={'nch': 'result[0]', 'm': 'result[1]'},
         ensures=[('enough_channels', 'nch * bit_rate >= bandwidth and (nch - 1) * bit_rate < bandwidth'),
                  ('enough_slots', 'm * slot_width >= nch * spacing'),
                  ('a_whole_number_of_slots_per_channel', 'm % nch == 0 and (m / nch - 1) * slot_width < spacing')],
         use_at_calls=False, modifies=[])

contract('gnpy.topology.spectrum_assignment.spectrum_selection', name='gnpy.topology.spectrum_assignment.spectrum_selection[free N, last fit]',
         props=['C14'],
         params={'test_oms': OMS_A, 'requested_m': integer(), 'requested_n': const(None), 'policy': const('last_fit')},
         spec=SPEC_SEL2, let={'bm': 'test_oms.spectrum_bitmap'},
         requires=[('wf', 'WF(bm)'), ('indices', 'WFI(bm)'), ('m', 'requested_m > 0')],
         ensures=[('triple', 'implies(result[0] is not None, result[1] == result[0] - requested_m and result[2] == result[0] + requested_m - 1)'),
                  ('window_free', 'implies(result[0] is not None, FREEWIN(bm, result[0] - bm.n_min, requested_m))'),
                  ('window_inside_guard_bands', 'implies(result[0] is not None, OKWIN(bm, result[0] - bm.n_min, requested_m))'),
                  # last fit: no feasible window starts above the returned one ...
                  ('highest_feasible', 'implies(result[0] is not None, forall(lambda s: given([ROOM(bm, s, requested_m), '
                                       'forall(lambda t: bm.bitmap[t] == BitmapValue.FREE, s, s + 2 * requested_m)], False), '
                                       'result[1] - bm.n_min + 1, len(bm.bitmap)))'),
                  ('none_only_if_no_room', 'implies(result[0] is None, forall(lambda s: given([ROOM(bm, s, requested_m), '
                                           'forall(lambda t: bm.bitmap[t] == BitmapValue.FREE, s, s + 2 * requested_m)], False), '
                                           'len(bm.bitmap)))')],
         use_at_calls=False, modifies=[])

for _pol in ('first_fit', 'last_fit'):
    contract('gnpy.topology.spectrum_assignment.select_candidate', name=f'gnpy.topology.spectrum_assignment.select_candidate[{_pol}]',
             props=['C14'],
             params={'candidates': lst(tup(integer(), integer(), integer()), tup(integer(), integer(), integer()),
                                       tup(integer(), integer(), integer())), 'policy': const(_pol)},
             let={'c': 'candidates[0]' if _pol == 'first_fit' else 'candidates[2]'},
             # first fit = the lowest candidate of the (ascending) list, last fit = the highest
             ensures=[('the_end_of_the_list_the_policy_names', 'result[0] == c[0] and result[1] == c[1] and result[2] == c[2]')],
             use_at_calls=False, modifies=[])
contract('gnpy.topology.spectrum_assignment.select_candidate', name='gnpy.topology.spectrum_assignment.select_candidate[nothing to select]',
         props=['C14'], params={'candidates': lst(), 'policy': string()},
         ensures=[('no_slot', 'result[0] is None and result[1] is None and result[2] is None')], use_at_calls=False, modifies=[])
contract('gnpy.topology.spectrum_assignment.select_candidate', name='gnpy.topology.spectrum_assignment.select_candidate[unknown policy]',
         props=['C14'], params={'candidates': lst(tup(integer(), integer(), integer())), 'policy': string()},
         raises={'ServiceError': "policy != 'first_fit' and policy != 'last_fit'"},
         ensures=[('the_candidate', 'result[0] == candidates[0][0] and result[1] == candidates[0][1] and result[2] == candidates[0][2]')],
         use_at_calls=False, modifies=[])

# ---- two fully user-fixed (N, M) entries: each is used as given or the request is not served (remaining > 0 => blocked by
# pth_assign_spectrum); order_slots / restore_order are inlined (symbolic sort of two entries)
RQ2 = obj('<ns>', N=lst(integer(), integer()), M=lst(integer(), integer()), request_id=string())
contract('gnpy.topology.spectrum_assignment.compute_n_m',
         name='gnpy.topology.spectrum_assignment.compute_n_m[two fixed (N, M) entries, path over OMS [0]]', props=['C14'],
         params={'required_m': integer(), 'rq': RQ2, 'path_oms': const([0]), 'oms_list': lst(OMSB('a'), OMSB('b')),
                 'per_channel_m': integer(), 'policy': const('first_fit')}, spec=SPEC_AGG,
         inline_callees=['gnpy.core.utils.order_slots', 'gnpy.core.utils.restore_order'],
         requires=_REQ2 + [('guard_a', f'GB({_A})'), ('guard_consistent', f'CONSIST({_A})'), ('pcm', 'per_channel_m > 0'), ('required', 'required_m > 0'),
                           ('fixed_m_positive', 'rq.M[0] > 0 and rq.M[1] > 0'),
                           ('fixed_n_on_grid', f'{_A}.n_min <= rq.N[0] and rq.N[0] <= {_A}.n_max and {_A}.n_min <= rq.N[1] and rq.N[1] <= {_A}.n_max')],
         ensures=[('shape', 'len(result[0]) == len(result[1]) and len(result[0]) <= 2'),
                  # a user-fixed entry that cannot be used as given leaves the request unserved, whatever the others carry
                  ('refused_entry_means_not_served', 'implies(len(result[0]) < 2, result[2] > 0)'),
                  ('both_used_verbatim', 'implies(len(result[0]) == 2, result[0][0] == rq.N[0] and result[0][1] == rq.N[1] and '
                                         'result[1][0] == rq.M[0] and result[1][1] == rq.M[1] and result[2] == required_m - rq.M[0] - rq.M[1])'),
                  # two accepted slots of one request never overlap
                  ('disjoint', 'implies(len(result[0]) == 2, rq.N[0] + rq.M[0] - 1 < rq.N[1] - rq.M[1] or rq.N[1] + rq.M[1] - 1 < rq.N[0] - rq.M[0])')],
         use_at_calls=False, modifies=[], max_paths=3000,
         hints=['rq.N[0] - rq.M[0] - oms_list[0].spectrum_bitmap.n_min', 'rq.N[1] - rq.M[1] - oms_list[0].spectrum_bitmap.n_min',
                'rq.N[0] - oms_list[0].spectrum_bitmap.n_min', 'rq.N[1] - oms_list[0].spectrum_bitmap.n_min'])

# ---- the same request through pth_assign_spectrum: accepted => both entries verbatim, both ranges were free, occupancy = old + both
# ranges; blocked => nothing changes
RQP2 = obj('<ns>', N=lst(integer(), integer()), M=lst(integer(), integer()), request_id=string(), path_bandwidth=real(),
           spacing=real(), bit_rate=real())
_pth = lst(obj('Fiber', oms_id=const(0), uid=string()))
_R0 = 'INRANGE({o}, old(rqs[0].N[0]), old(rqs[0].M[0]), t)'
_R1 = 'INRANGE({o}, old(rqs[0].N[1]), old(rqs[0].M[1]), t)'
contract('gnpy.topology.spectrum_assignment.pth_assign_spectrum',
         name='gnpy.topology.spectrum_assignment.pth_assign_spectrum[one request with two fixed (N, M) entries, path over OMS [0]]', props=['C14'],
         params={'pths': lst(_pth), 'rqs': lst(RQP2), 'oms_list': lst(OMSB('a'), OMSB('b')), 'rpths': lst(lst()),
                 'policy': const('first_fit')}, spec=SPEC_AGG,
         inline_callees=['gnpy.core.utils.order_slots', 'gnpy.core.utils.restore_order'],
         let={'rq': 'rqs[0]', 'A': _A, 'blocked': "hasattr(rqs[0], 'blocking_reason')"},
         requires=_REQ2 + [('guard_a', f'GB({_A})'), ('guard_consistent', f'CONSIST({_A})'),
                           ('demand', 'rqs[0].path_bandwidth > 0 and rqs[0].spacing > 0 and rqs[0].bit_rate > 0'),
                           ('fixed_m_positive', 'rqs[0].M[0] > 0 and rqs[0].M[1] > 0'),
                           ('fixed_n_on_grid', f'{_A}.n_min <= rqs[0].N[0] and rqs[0].N[0] <= {_A}.n_max and {_A}.n_min <= rqs[0].N[1] and rqs[0].N[1] <= {_A}.n_max')],
         ensures=[('blocked_has_no_labels', 'implies(blocked, rq.N is None and rq.M is None)'),
                  ('accepted_keeps_both_entries_verbatim', 'implies(not blocked, len(rq.N) == 2 and len(rq.M) == 2 and rq.N[0] == old(rqs[0].N[0]) and '
                   'rq.N[1] == old(rqs[0].N[1]) and rq.M[0] == old(rqs[0].M[0]) and rq.M[1] == old(rqs[0].M[1]))'),
                  ('enough_slots', 'implies(not blocked, (rq.M[0] + rq.M[1]) * 0.0125e12 >= rq.spacing * (rq.path_bandwidth / rq.bit_rate))'),
                  ('both_were_free', 'implies(not blocked, forall(lambda t: implies(' + _R0.format(o=_A) + ' or ' + _R1.format(o=_A) + f', old({_A}.bitmap)[t] == BitmapValue.FREE), len({_A}.bitmap)))'),
                  ('occupancy_is_old_plus_both_ranges', 'implies(not blocked, forall(lambda t: ' + f'{_A}.bitmap[t] == (BitmapValue.OCCUPIED if (' + _R0.format(o=_A) + ' or ' + _R1.format(o=_A) + f') else old({_A}.bitmap)[t]), len({_A}.bitmap)))'),
                  ('blocked_changes_nothing', f'implies(blocked, forall(lambda t: {_A}.bitmap[t] == old({_A}.bitmap)[t], len({_A}.bitmap)))')],
         modifies=['rqs[0].N', 'rqs[0].M', 'rqs[0].blocking_reason', 'oms_list[0].spectrum_bitmap.bitmap[*]', 'oms_list[0].service_list[*]', 'oms_list[0].nb_channels'],
         use_at_calls=False, allow_other_exc=(), max_paths=3000,
         hints=['rqs[0].N[0] - rqs[0].M[0] - oms_list[0].spectrum_bitmap.n_min', 'rqs[0].N[1] - rqs[0].M[1] - oms_list[0].spectrum_bitmap.n_min',
                'rqs[0].N[0] - oms_list[0].spectrum_bitmap.n_min', 'rqs[0].N[1] - oms_list[0].spectrum_bitmap.n_min'])

# ---- one user-fixed (N, M) entry and one entry left free: the fixed one verbatim, the free one takes exactly what is left
RQ_MIX = obj('<ns>', N=lst(integer(), const(None)), M=lst(integer(), const(None)), request_id=string())
contract('gnpy.topology.spectrum_assignment.compute_n_m',
         name='gnpy.topology.spectrum_assignment.compute_n_m[one fixed and one free entry, path over OMS [0]]', props=['C14'],
         params={'required_m': integer(), 'rq': RQ_MIX, 'path_oms': const([0]), 'oms_list': lst(OMSB('a'), OMSB('b')),
                 'per_channel_m': integer(), 'policy': const('first_fit')}, spec=SPEC_AGG,
         inline_callees=['gnpy.core.utils.order_slots', 'gnpy.core.utils.restore_order'],
         let={'A': _A, 'k': 'len(result[0])'},
         requires=_REQ2 + [('guard_a', f'GB({_A})'), ('guard_consistent', f'CONSIST({_A})'), ('pcm', 'per_channel_m > 0'), ('required', 'required_m > 0'),
                           ('fixed_m_positive', 'rq.M[0] > 0'),
                           ('fixed_n_on_grid', f'{_A}.n_min <= rq.N[0] and rq.N[0] <= {_A}.n_max')],
         ensures=[('shape', 'len(result[0]) == len(result[1]) and k <= 2'),
                  ('fixed_entry_refused_means_not_served', 'implies(k == 0, result[2] == required_m)'),
                  ('fixed_entry_verbatim', 'implies(k >= 1, result[0][0] == rq.N[0] and result[1][0] == rq.M[0])'),
                  ('only_the_fixed_entry', 'implies(k == 1, result[2] == required_m - rq.M[0])'),
                  ('free_entry_takes_exactly_what_is_left', 'implies(k == 2, result[1][1] == required_m - rq.M[0] and result[1][1] > 0 and result[2] == 0)'),
                  ('free_entry_inside_guard_bands', 'implies(k == 2, result[0][1] - result[1][1] >= A.freq_index_min and result[0][1] + result[1][1] - 1 <= A.freq_index_max)'),
                  ('free_entry_was_free', f'implies(k == 2, forall(lambda t: old({_A}.bitmap)[t] == BitmapValue.FREE, result[0][1] - result[1][1] - {_A}.n_min, result[0][1] + result[1][1] - {_A}.n_min))')],
         # NOT in this contract: the free window is disjoint from the fixed range (the solver answers with a model that cannot be
         # rebuilt - incomplete instantiation of the slice equality of the candidates comprehension; undecided, so not claimed;
         # bounded/nm_requests.py checks it on service documents)
         use_at_calls=False, modifies=[], max_paths=3000, timeout_s=40,
         hints=['rq.N[0] - rq.M[0] - oms_list[0].spectrum_bitmap.n_min', 'rq.N[0] - oms_list[0].spectrum_bitmap.n_min'])

# ---- OMS bookkeeping (C14, C15): elements recorded in order with their uid, services and channel count accumulated
_OMS_EL = obj('OMS', oms_id=integer(), el_id_list=lst(string(), string()), el_list=lst(obj('Roadm', uid=string()), obj('Edfa', uid=string())))
contract('gnpy.topology.spectrum_assignment.OMS.add_element', props=['C15'],
         params={'self': _OMS_EL, 'elem': obj('Fiber', uid=string())},
         ensures=[('appended_last', 'len(self.el_list) == 3 and self.el_list[2] is elem and len(self.el_id_list) == 3 and self.el_id_list[2] == elem.uid'),
                  ('earlier_elements_kept', 'self.el_list[0] is old(self.el_list[0]) and self.el_list[1] is old(self.el_list[1]) and '
                                            'self.el_id_list[0] == old(self.el_id_list[0]) and self.el_id_list[1] == old(self.el_id_list[1])')],
         modifies=['self.el_list[*]', 'self.el_id_list[*]'], use_at_calls=False)
contract('gnpy.topology.spectrum_assignment.OMS.add_service', props=['C14'],
         params={'self': obj('OMS', oms_id=integer(), service_list=lst(string()), nb_channels=integer()), 'service_id': string(), 'nb_wl': integer()},
         ensures=[('service_recorded_once', 'len(self.service_list) == 2 and self.service_list[1] == service_id and self.service_list[0] == old(self.service_list[0])'),
                  ('channels_added', 'self.nb_channels == old(self.nb_channels) + nb_wl')],
         modifies=['self.service_list[*]', 'self.nb_channels'], use_at_calls=False)
contract('gnpy.topology.spectrum_assignment.OMS.update_spectrum', name='gnpy.topology.spectrum_assignment.OMS.update_spectrum[fresh map]', props=['C15'],
         params={'self': obj('OMS', oms_id=integer(), spectrum_bitmap=lst()), 'f_min': real(), 'f_max': real(), 'guardband': real(),
                 'existing_spectrum': const(None), 'grid': real()}, spec=SPEC_BM,
         requires=[('grid', 'grid > 0'), ('ordered', 'f_min <= f_max')],
         let={'b': 'self.spectrum_bitmap'},
         ensures=[('covers_the_band', 'b.n_min == frequency_to_n(f_min, grid) and b.n_max == frequency_to_n(f_max, grid)'),
                  ('wf', 'WF(b)'), ('indices', 'WFI(b)'), ('all_free', 'forall(lambda k: b.bitmap[k] == BitmapValue.FREE, len(b.bitmap))')],
         modifies=['self.spectrum_bitmap'], use_at_calls=False)
contract('gnpy.topology.spectrum_assignment.build_path_oms_id_list', props=['C14'],
         params={'pth': lst(obj('Transceiver', uid=string()), obj('Roadm', uid=string()), obj('Edfa', uid=string(), oms_id=integer()),
                            obj('Fiber', uid=string(), oms_id=integer()), obj('Roadm', uid=string()), obj('Fused', uid=string(), oms_id=integer()),
                            obj('Transceiver', uid=string()))},
         # every OMS a line element of the path belongs to, nothing else (ROADMs and transceivers carry no OMS)
         ensures=[('every_line_element_oms', 'pth[2].oms_id in result and pth[3].oms_id in result and pth[5].oms_id in result'),
                  ('nothing_else', 'all(x == pth[2].oms_id or x == pth[3].oms_id or x == pth[5].oms_id for x in result)')],
         use_at_calls=False, modifies=[])
