"""gnpy/core/science_utils.py NliSolver — analytic GN model against the published closed form (C03)."""
from .common import *   # noqa
from .c_fiber import FIBER, SIMP_OFF

SPEC_GN = SPEC_INV + '''
def PSIF(df_ij, Bi, Bj, b2i, b2j, Leffj, Laj):
    # arXiv:1209.0394 eq. 123: asinh kernel of the pair (cut i, pump j), effective and asymptotic length of the pump
    bb = abs((b2i + b2j) / 2)
    return named((arcsinh(pi ** 2 * Laj * bb * Bi * (df_ij + Bj / 2)) - arcsinh(pi ** 2 * Laj * bb * Bi * (df_ij - Bj / 2))) / 2
                 * Leffj ** 2 / (2 * pi * bb * Laj))
def WGT(i, j):
    # SPM weight 16/27 on the diagonal, XPM weight 32/27 elsewhere
    return 16.0 / 27.0 if i == j else 2 * (16.0 / 27.0)
'''

contract('gnpy.core.science_utils.NliSolver._psi', props=['C03'],
         params={'df': mat('n'), 'baud_rate': vec('n'), 'beta2': vec('n'), 'effective_length': vec('n'),
                 'asymptotic_length': vec('n')}, spec=SPEC_GN,
         let={'n': 'len(baud_rate)'},
         requires=[('asymptotic_length_positive', 'forall(lambda j: asymptotic_length[j] > 0, len(baud_rate))'),
                   ('baud_positive', 'forall(lambda j: baud_rate[j] > 0, len(baud_rate))'),
                   ('pair_dispersion_nonzero', 'forall2(lambda i, j: beta2[i] + beta2[j] != 0, len(baud_rate), len(baud_rate))')],
         ensures=[('closed_form', 'forall2(lambda i, j: result[i, j] == PSIF(df[i, j], baud_rate[i], baud_rate[j], beta2[i], beta2[j], '
                                  'effective_length[j], asymptotic_length[j]), n, n)'),
                  # asinh is increasing and the pump slot has positive width: every pair term is non-negative
                  ('non_negative', 'forall2(lambda i, j: result[i, j] >= 0, n, n)')],
         returns=mat_len('len(baud_rate)'), pure=True, modifies=[])

# alpha: proved from the scalar loss coefficient (dB/m -> Neper/m); beta2, gamma: assumed pure per-channel vectors
contract('gnpy.core.elements.Fiber.alpha', props=['C03', 'C05'],
         params={'self': FIBER, 'frequency': vec('n')},
         ensures=[('neper_per_metre', 'forall(lambda i: at(result, i) * spec_lin2db(exp(1)) == self.params._loss_coef[0], len(frequency))'),
                  ('alpha_positive', 'implies(self.params._loss_coef[0] > 0, forall(lambda i: at(result, i) > 0, len(frequency)))')],
         returns=vec_len('len(frequency)'), pure=True, modifies=[])
for _m in ('beta2', 'gamma'):
    contract(f'gnpy.core.elements.Fiber.{_m}', name=f'gnpy.core.elements.Fiber.{_m}[call-site summary]', trusted=True, props=[],
             params={'self': FIBER, 'frequency': vec('n')}, ensures=[],
             returns=vec_len('len(frequency)'), pure=True,
             note='ASSUMED pure per-channel coefficient of the fibre')

contract('gnpy.core.science_utils.NliSolver.effective_length', props=['C03'],
         params={'alpha': vec('n'), 'length': real()},
         ensures=[('def', 'forall(lambda i: result[i] == (1 - exp(-alpha[i] * length)) / alpha[i], len(alpha))')],
         returns=vec_len('len(alpha)'), pure=True, modifies=[])

contract('gnpy.core.science_utils.NliSolver._gn_analytic', props=['C03'],
         params={'spectral_info': SI(), 'fiber': FIBER, 'spm_weight': real(), 'xpm_weight': real()}, spec=SPEC_GN,
         let={'si': 'spectral_info', 'n': 'NCH(spectral_info)', 'a': 'fiber.alpha(spectral_info._frequency)',
              'b2': 'fiber.beta2(spectral_info._frequency)', 'g': 'fiber.gamma(spectral_info._frequency)',
              'leff': 'NliSolver.effective_length(fiber.alpha(spectral_info._frequency), fiber.params._length)'},
         requires=[('baud', 'forall(lambda i: spectral_info._baud_rate[i] > 0, NCH(spectral_info))'),
                   ('loss_coef_positive', 'fiber.params._loss_coef[0] > 0'),
                   # the published weights: callers relying on the defaults must pass exactly these
                   ('published_weights', 'spm_weight == 16.0 / 27.0 and xpm_weight == 2 * (16.0 / 27.0)'),
                   # stated assumption: the mean dispersion of every channel pair is non-zero (no pair straddles a zero)
                   ('pair_dispersion_nonzero', 'forall2(lambda i, j: fiber.beta2(spectral_info._frequency)[i] + '
                                               'fiber.beta2(spectral_info._frequency)[j] != 0, NCH(spectral_info), NCH(spectral_info))'),
                   ],
         # eta_ij = gamma_i^2 x w_ij x psi_ij / B_j^2   (power spectral density form, local white noise over B_i)
         ensures=[('eta', 'forall2(lambda i, j: result[i, j] == g[i] ** 2 * WGT(i, j) * PSIF(si._df[i, j], '
                          'si._baud_rate[i], si._baud_rate[j], b2[i], b2[j], leff[j], 1 / a[j]) / si._baud_rate[j] ** 2, n, n)'),
                  ('non_negative', 'forall2(lambda i, j: result[i, j] >= 0, n, n)')],
         returns=mat_len('NCH(spectral_info)'), pure=True, modifies=[])

SPEC_NLI = SPEC_GN + '''
def ETA(si, fiber, i, j):
    a = fiber.alpha(si._frequency)
    b2 = fiber.beta2(si._frequency)
    g = fiber.gamma(si._frequency)
    leff = NliSolver.effective_length(a, fiber.params._length)
    return g[i] ** 2 * WGT(i, j) * PSIF(si._df[i, j], si._baud_rate[i], si._baud_rate[j], b2[i], b2[j], leff[j], 1 / a[j]) / si._baud_rate[j] ** 2
'''
contract('gnpy.core.science_utils.NliSolver.compute_nli', props=['C03'],
         params={'spectral_info': SI(), 'srs': obj('<ns>'), 'fiber': FIBER}, spec=SPEC_NLI, overrides=SIMP_OFF,
         let={'si': 'spectral_info', 'n': 'NCH(spectral_info)'},
         requires=[('inv', 'INV(spectral_info)'),
                   ('baud', 'forall(lambda i: spectral_info._baud_rate[i] > 0, NCH(spectral_info))'),
                   ('loss_coef_positive', 'fiber.params._loss_coef[0] > 0'),
                   ('pair_dispersion_nonzero', 'forall2(lambda i, j: fiber.beta2(spectral_info._frequency)[i] + '
                                               'fiber.beta2(spectral_info._frequency)[j] != 0, NCH(spectral_info), NCH(spectral_info))'),
                   ('gamma_nonneg', 'forall(lambda i: fiber.gamma(spectral_info._frequency)[i] >= 0, NCH(spectral_info))')],
         # NLI_i = sum over pumps j of  P_i P_j^2 gamma_i^2 w_ij psi_ij / B_j^2   (GN closed form, eq. 120/123)
         ensures=[('closed_form', 'forall(lambda i: result[i] == sum([si._pch[i] * si._pch[j] ** 2 * ETA(si, fiber, i, j) for j in range(n)]), n)'),
                  ('non_negative', 'forall(lambda i: result[i] >= 0, n)'),
                  ('one_value_per_channel', 'len(result) == n')],
         use_at_calls=False, modifies=[])
