"""gnpy/core/science_utils.py NliSolver — analytic GN model against the published closed form (C03)."""
from .common import *   # noqa
from .c_fiber import FIBER, SIMP_OFF

SPEC_GN = SPEC_INV + '''
def PSIF(df_ij, Bi, Bj, b2i, b2j, Leffj, Laj):
    # arXiv:1209.0394 eq. 123: asinh kernel of the pair (cut i, pump j), effective and asymptotic length of the pump
    bb = abs((b2i + b2j) / 2)
    return named((arcsinh(pi ** 2 * Laj * bb * Bi * (df_ij + Bj / 2)) - arcsinh(pi ** 2 * Laj * bb * Bi * (df_ij - Bj / 2))) / 2
                 * Leffj ** 2 / (2 * pi * bb * Laj))
def WGT(i, j):
    # SPM weight 16/27 on the diagonal, XPM weight 32/27 elsewhere
    return 16.0 / 27.0 if i == j else 2 * (16.0 / 27.0)
'''

contract('gnpy.core.science_utils.NliSolver._psi', props=['C03', 'C01', 'C02'], timeout_s=40,    # (a refutation of closed_form needs ~8 s alone: room for a loaded machine)
         prop_clauses={'C01': ['non_negative', 'nli_nonneg', 'nonneg'], 'C02': ['non_negative', 'nli_nonneg', 'nonneg']},
         params={'df': mat('n'), 'baud_rate': vec('n'), 'beta2': vec('n'), 'effective_length': vec('n'),
                 'asymptotic_length': vec('n')}, spec=SPEC_GN,
         let={'n': 'len(baud_rate)'},
         requires=[('asymptotic_length_positive', 'forall(lambda j: asymptotic_length[j] > 0, len(baud_rate))'),
                   ('baud_positive', 'forall(lambda j: baud_rate[j] > 0, len(baud_rate))'),
                   ('pair_dispersion_nonzero', 'forall2(lambda i, j: beta2[i] + beta2[j] != 0, len(baud_rate), len(baud_rate))')],
         ensures=[('closed_form', 'forall2(lambda i, j: result[i, j] == PSIF(df[i, j], baud_rate[i], baud_rate[j], beta2[i], beta2[j], '
                                  'effective_length[j], asymptotic_length[j]), n, n)'),
                  # asinh is increasing and the pump slot has positive width: every pair term is non-negative
                  ('non_negative', 'forall2(lambda i, j: result[i, j] >= 0, n, n)')],
         returns=mat_len('len(baud_rate)'), pure=True, modifies=[])

# alpha: proved from the scalar loss coefficient (dB/m -> Neper/m); beta2, gamma: assumed pure per-channel vectors
contract('gnpy.core.elements.Fiber.alpha', name='gnpy.core.elements.Fiber.alpha[call-site summary]', trusted=True, props=[],
         params={'self': FIBER, 'frequency': vec('n')},
         ensures=[('alpha_positive', 'implies(self.params._loss_coef[0] > 0, forall(lambda i: at(result, i) > 0, len(frequency)))')],
         returns=vec_len('len(frequency)'), pure=True,
         note='ASSUMED at call sites: the attenuation coefficient is a pure per-channel function of the frequencies it is asked for '
              '(positive for a positive loss coefficient); its value for a scalar loss coefficient is proved below')
contract('gnpy.core.elements.Fiber.alpha', name='gnpy.core.elements.Fiber.alpha[scalar loss coefficient]', props=['C03', 'C05'], use_at_calls=False,
         params={'self': FIBER, 'frequency': vec('n')},
         ensures=[('neper_per_metre', 'forall(lambda i: at(result, i) * spec_lin2db(exp(1)) == self.params._loss_coef[0], len(frequency))'),
                  ('alpha_positive', 'implies(self.params._loss_coef[0] > 0, forall(lambda i: at(result, i) > 0, len(frequency)))')],
         returns=vec_len('len(frequency)'), pure=True, modifies=[])
for _m in ('beta2', 'gamma'):
    contract(f'gnpy.core.elements.Fiber.{_m}', name=f'gnpy.core.elements.Fiber.{_m}[call-site summary]', trusted=True, props=[],
             params={'self': FIBER, 'frequency': vec('n')}, ensures=[],
             returns=vec_len('len(frequency)'), pure=True,
             note='ASSUMED pure per-channel coefficient of the fibre')

contract('gnpy.core.science_utils.NliSolver.effective_length', props=['C03'],
         params={'alpha': vec('n'), 'length': real()},
         ensures=[('def', 'forall(lambda i: result[i] == (1 - exp(-alpha[i] * length)) / alpha[i], len(alpha))')],
         returns=vec_len('len(alpha)'), pure=True, modifies=[])

contract('gnpy.core.science_utils.NliSolver._gn_analytic', props=['C03', 'C01', 'C02'],
         prop_clauses={'C01': ['non_negative', 'nli_nonneg', 'nonneg'], 'C02': ['non_negative', 'nli_nonneg', 'nonneg']},
         params={'spectral_info': SI(), 'fiber': FIBER, 'spm_weight': real(), 'xpm_weight': real()}, spec=SPEC_GN,
         let={'si': 'spectral_info', 'n': 'NCH(spectral_info)', 'a': 'fiber.alpha(spectral_info._frequency)',
              'b2': 'fiber.beta2(spectral_info._frequency)', 'g': 'fiber.gamma(spectral_info._frequency)',
              'leff': 'NliSolver.effective_length(fiber.alpha(spectral_info._frequency), fiber.params._length)'},
         requires=[('baud', 'forall(lambda i: spectral_info._baud_rate[i] > 0, NCH(spectral_info))'),
                   ('loss_coef_positive', 'fiber.params._loss_coef[0] > 0'),
                   # the published weights: callers relying on the defaults must pass exactly these
                   ('published_weights', 'spm_weight == 16.0 / 27.0 and xpm_weight == 2 * (16.0 / 27.0)'),
                   # stated assumption: the mean dispersion of every channel pair is non-zero (no pair straddles a zero)
                   ('pair_dispersion_nonzero', 'forall2(lambda i, j: fiber.beta2(spectral_info._frequency)[i] + '
                                               'fiber.beta2(spectral_info._frequency)[j] != 0, NCH(spectral_info), NCH(spectral_info))'),
                   ],
         # eta_ij = gamma_i^2 x w_ij x psi_ij / B_j^2   (power spectral density form, local white noise over B_i)
         ensures=[('eta', 'forall2(lambda i, j: result[i, j] == g[i] ** 2 * WGT(i, j) * PSIF(si._df[i, j], '
                          'si._baud_rate[i], si._baud_rate[j], b2[i], b2[j], leff[j], 1 / a[j]) / si._baud_rate[j] ** 2, n, n)'),
                  ('non_negative', 'forall2(lambda i, j: result[i, j] >= 0, n, n)')],
         returns=mat_len('NCH(spectral_info)'), pure=True, modifies=[],
         pure_on=['spectral_info._frequency', 'spectral_info._baud_rate', 'spectral_info._df', 'fiber'])

SPEC_NLI = SPEC_GN + '''
def ETA(si, fiber, i, j):
    a = fiber.alpha(si._frequency)
    b2 = fiber.beta2(si._frequency)
    g = fiber.gamma(si._frequency)
    leff = NliSolver.effective_length(a, fiber.params._length)
    return g[i] ** 2 * WGT(i, j) * PSIF(si._df[i, j], si._baud_rate[i], si._baud_rate[j], b2[i], b2[j], leff[j], 1 / a[j]) / si._baud_rate[j] ** 2
'''
contract('gnpy.core.science_utils.NliSolver.compute_nli', props=['C03', 'C01', 'C02'],
         prop_clauses={'C01': ['non_negative', 'nli_nonneg', 'nonneg'], 'C02': ['non_negative', 'nli_nonneg', 'nonneg']},
         params={'spectral_info': SI(), 'srs': obj('<ns>'), 'fiber': FIBER}, spec=SPEC_NLI, overrides=SIMP_OFF,
         let={'si': 'spectral_info', 'n': 'NCH(spectral_info)'},
         requires=[('inv', 'INV(spectral_info)'),
                   ('baud', 'forall(lambda i: spectral_info._baud_rate[i] > 0, NCH(spectral_info))'),
                   ('loss_coef_positive', 'fiber.params._loss_coef[0] > 0'),
                   ('pair_dispersion_nonzero', 'forall2(lambda i, j: fiber.beta2(spectral_info._frequency)[i] + '
                                               'fiber.beta2(spectral_info._frequency)[j] != 0, NCH(spectral_info), NCH(spectral_info))'),
                   ('gamma_nonneg', 'forall(lambda i: fiber.gamma(spectral_info._frequency)[i] >= 0, NCH(spectral_info))')],
         # NLI_i = sum over pumps j of  P_i P_j^2 gamma_i^2 w_ij psi_ij / B_j^2   (GN closed form, eq. 120/123)
         ensures=[('closed_form', 'forall(lambda i: result[i] == sum([si._pch[i] * si._pch[j] ** 2 * ETA(si, fiber, i, j) for j in range(n)]), n)'),
                  ('non_negative', 'forall(lambda i: result[i] >= 0, n)'),
                  ('one_value_per_channel', 'len(result) == n')],
         use_at_calls=False, modifies=[])

# ---------------------------------------------------------------- scaling laws, on the real compute_nli (two runs)
# NOT CLAIMED: both VCs stay `unknown` on every back end (the witness-skolemised sum lemmas plus the expanded asinh
# kernels exceed the solvers' nonlinear reasoning); kept for reference, not registered under C03.
def SI_SH(own):
    """two spectra that share every array except the total powers"""
    f = {}
    for k in SI_FIELDS:
        if k == '_number_of_channels':
            continue
        b = vec('n', 'str') if k == '_label' else vec('n')
        f[k] = b if k in own else shared('sh' + k, b)
    def nch(c, label):
        from pyvc.vals import SV
        return SV(c.path.new_dim('n', 1))
    nch.recipe = ('dim', 'n')
    f['_number_of_channels'] = nch
    f['_channel_number'] = shared('sh_chn', vec('n', 'int'))
    f['_df'] = shared('sh_df', mat('n'))
    return obj('SpectralInformation', **f)


H_TWO = '''
def nli_two_loads(si1, si2, srs, fiber, k=1):
    return (NliSolver.compute_nli(si1, srs, fiber), NliSolver.compute_nli(si2, srs, fiber))
'''
_REQ_GN = [('inv1', 'INV(si1)'), ('inv2', 'INV(si2)'),
           ('baud', 'forall(lambda i: si1._baud_rate[i] > 0, NCH(si1))'),
           ('loss_coef_positive', 'fiber.params._loss_coef[0] > 0'),
           ('pair_dispersion_nonzero', 'forall2(lambda i, j: fiber.beta2(si1._frequency)[i] + fiber.beta2(si1._frequency)[j] != 0, NCH(si1), NCH(si1))'),
           ('gamma_nonneg', 'forall(lambda i: fiber.gamma(si1._frequency)[i] >= 0, NCH(si1))')]
contract('harness:nli_cube_law', harness=H_TWO, module='gnpy.core.science_utils', props=['X03-not-claimed'], overrides=SIMP_OFF,
         params={'si1': SI_SH({'_pch'}), 'si2': SI_SH({'_pch'}), 'srs': obj('<ns>'), 'fiber': FIBER, 'k': real()}, spec=SPEC_NLI,
         requires=_REQ_GN + [('factor_positive', 'k > 0'), ('common_power_factor', 'forall(lambda i: si2._pch[i] == k * si1._pch[i], NCH(si1))')],
         ensures=[('cube_of_the_common_factor', 'forall(lambda i: result[1][i] == k ** 3 * result[0][i], NCH(si1))')],
         sum_scales=['k ** 3'], modifies=[], inline_callees=['gnpy.core.science_utils.NliSolver.compute_nli'])
contract('harness:nli_monotone', harness=H_TWO, module='gnpy.core.science_utils', props=['X03-not-claimed'], overrides=SIMP_OFF,
         params={'si1': SI_SH({'_pch'}), 'si2': SI_SH({'_pch'}), 'srs': obj('<ns>'), 'fiber': FIBER}, spec=SPEC_NLI,
         requires=_REQ_GN + [('powers_raised', 'forall(lambda i: si2._pch[i] >= si1._pch[i], NCH(si1))')],
         ensures=[('nli_never_decreases', 'forall(lambda i: result[1][i] >= result[0][i], NCH(si1))')],
         modifies=[], inline_callees=['gnpy.core.science_utils.NliSolver.compute_nli'])

# beta2 from the fibre's dispersion data (scalar dispersion D0 at the reference frequency, optional slope S):
# D(lambda) = D0 + S (lambda - lambda_ref), or D0 (f / f_ref)^2 without a slope;  beta2 = - lambda^2 D / (2 pi c)
contract('gnpy.core.elements.Fiber.beta2', name='gnpy.core.elements.Fiber.beta2[scalar dispersion, optional slope]', props=['C03', 'C05', 'C01'],
         params={'self': FIBER, 'frequency': vec('n')},
         requires=[('positive_frequencies', 'forall(lambda i: frequency[i] > 0, len(frequency))'), ('ref', 'self.params._f_dispersion_ref > 0')],
         let={'p': 'self.params', 'c0': '299792458'},
         ensures=[('with_slope', 'implies(p._dispersion_slope is not None, forall(lambda i: at(result, i) == '
                                 '-((c0 / frequency[i]) ** 2 * (p._dispersion[0] + p._dispersion_slope * (c0 / frequency[i] - c0 / p._f_dispersion_ref))) '
                                 '/ (2 * pi * c0), len(frequency)))'),
                  ('without_slope', 'implies(p._dispersion_slope is None, forall(lambda i: at(result, i) == '
                                    '-((c0 / frequency[i]) ** 2 * ((frequency[i] / p._f_dispersion_ref) ** 2 * p._dispersion[0])) / (2 * pi * c0), '
                                    'len(frequency)))')],
         use_at_calls=False, modifies=[])

# ---- per-frequency loss tables: the table is read at the frequencies the caller asks for (the interpolation itself is scipy's)
from .c_fiber import FPARAMS
FPARAMS_TAB = obj('FiberParams', **{**FPARAMS.fields, '_loss_coef': vec('mtab', lo=2), '_f_loss_ref': vec('mtab', lo=2)})
FIBER_TAB = obj('Fiber', **{**FIBER.fields, 'params': FPARAMS_TAB})
contract('gnpy.core.elements.Fiber.interpolate_parameter_over_spectrum',
         name='gnpy.core.elements.Fiber.interpolate_parameter_over_spectrum[call-site summary]', trusted=True, props=[],
         params={'self': FIBER_TAB, 'parameter': vec('mtab', lo=2), 'ref_frequency': vec('mtab', lo=2), 'spectrum_frequency': vec('n'),
                 'name': string()},
         ensures=[], returns=vec_len('len(spectrum_frequency)'), pure=True,
         note='ASSUMED: scipy.interpolate.interp1d is a pure per-frequency function of the table (values, frequencies) and of the '
              'frequencies it is evaluated at')
contract('gnpy.core.elements.Fiber.loss_coef_func', name='gnpy.core.elements.Fiber.loss_coef_func[per-frequency table]',
         props=['C03', 'C05'], params={'self': FIBER_TAB, 'frequency': vec('n')}, use_at_calls=False,
         let={'m': 'len(self.params._f_loss_ref)'},
         requires=[('table_by_increasing_frequency', 'forall(lambda k: self.params._f_loss_ref[k] < self.params._f_loss_ref[k + 1], m - 1)'),
                   # outside the table the function raises SpectrumError (covered by bounded/raman.py, not by this contract)
                   ('asked_inside_the_table', 'forall(lambda i: self.params._f_loss_ref[0] <= frequency[i] and '
                                              'frequency[i] <= self.params._f_loss_ref[m - 1], len(frequency))')],
         ensures=[('table_read_at_the_asked_frequencies',
                   'forall(lambda i: at(result, i) == at(self.interpolate_parameter_over_spectrum(self.params._loss_coef, '
                   'self.params._f_loss_ref, frequency, "Loss Coefficient"), i), len(frequency))')],
         returns=vec_len('len(frequency)'), pure=True, modifies=[])
