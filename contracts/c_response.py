"""gnpy/topology/request.py — what the response states for a request (C19)."""
from .common import *   # noqa

_Q = 'gnpy.topology.request'


def RXR(tag, pen):
    return obj('Transceiver', uid=string(), snr=vec(tag), snr_01nm=vec(tag), osnr_ase=vec(tag), osnr_ase_01nm=vec(tag),
               penalties=dct_k({k: vec(tag) for k in pen}))


contract(_Q + '.get_penalty_from_receiver', props=['C19'],
         params={'receiver': RXR('n', ['pdl', 'chromatic_dispersion']), 'impairment': string()}, use_at_calls=False,
         # the mean penalty over the channels to 0.01 dB when the receiver evaluated this impairment, else the fixed text
         ensures=[('pdl', "implies(impairment == 'pdl', result == round(mean(receiver.penalties['pdl']), 2))"),
                  ('cd', "implies(impairment == 'chromatic_dispersion', result == round(mean(receiver.penalties['chromatic_dispersion']), 2))"),
                  ('not_evaluated', "implies(impairment != 'pdl' and impairment != 'chromatic_dispersion', result == 'not evaluated')")],
         modifies=[], note='penalties are finite reals here; the infinite (out of table) case is reported as the text '
                           '"Infinity" (bounded stand-in)')

SRC = obj('Transceiver', uid=string())
MID = obj('Roadm', uid=string())
REQ_OK = obj('<ns>', request_id=string(), tsp=string(), tsp_mode=string(), power=real(), path_bandwidth=real(), bidir=const(False),
             N=lst(integer(), integer()), M=lst(integer(), integer()))
SPEC_RESP = '''
def MET(lst_, name):
    return [m['accumulative-value'] for m in lst_ if m['metric-type'] == name][0]
'''
_PEN = ['pdl', 'chromatic_dispersion', 'pmd']
_METRICS = [('SNR-bandwidth', 'round(mean({rx}.snr), 2)'), ('SNR-0.1nm', 'round(mean({rx}.snr_01nm), 2)'),
            ('OSNR-bandwidth', 'round(mean({rx}.osnr_ase), 2)'), ('OSNR-0.1nm', 'round(mean({rx}.osnr_ase_01nm), 2)'),
            ('lowest_SNR-0.1nm', 'round(min({rx}.snr_01nm), 2)'), ('biggest_SNR-0.1nm', 'round(max({rx}.snr_01nm), 2)'),
            ('PDL_penalty', "round(mean({rx}.penalties['pdl']), 2)"), ('CD_penalty', "round(mean({rx}.penalties['chromatic_dispersion']), 2)"),
            ('PMD_penalty', "round(mean({rx}.penalties['pmd']), 2)"), ('reference_power', 'self.path_request.power'),
            ('path_bandwidth', 'self.path_request.path_bandwidth')]


def _metric_clauses(key, rx):
    return [(f'{key}:{nm}', f"MET(result['{key}'], '{nm}') == " + ex.format(rx=rx)) for nm, ex in _METRICS] + \
           [(f'{key}:eleven_metrics_each_once', f"len(result['{key}']) == 11")]


contract(_Q + '.ResultElement.path_properties', name=_Q + '.ResultElement.path_properties[served, one direction]', props=['C19'],
         params={'self': obj('ResultElement', path_id=string(), path_request=REQ_OK,
                             computed_path=lst(SRC, MID, RXR('n', _PEN)))},
         spec=SPEC_RESP, let={'rx': 'self.computed_path[2]'},
         ensures=_metric_clauses('path-metric', 'rx') + [('no_reverse_metrics', "'z-a-path-metric' not in result")],
         use_at_calls=False, modifies=[])
contract(_Q + '.ResultElement.path_properties', name=_Q + '.ResultElement.path_properties[served, both directions]', props=['C19'],
         params={'self': obj('ResultElement', path_id=string(), path_request=extend(REQ_OK, bidir=const(True)),
                             computed_path=lst(SRC, MID, RXR('n', _PEN)),
                             reversed_computed_path=lst(obj('Transceiver', uid=string()), obj('Roadm', uid=string()), RXR('m', _PEN)))},
         spec=SPEC_RESP, let={'rx': 'self.computed_path[2]', 'rrx': 'self.reversed_computed_path[2]'},
         # each direction reports the figures of its own receiver
         ensures=_metric_clauses('path-metric', 'rx') + _metric_clauses('z-a-path-metric', 'rrx'),
         use_at_calls=False, modifies=[])

contract(_Q + '.ResultElement.detailed_path_json', name=_Q + '.ResultElement.detailed_path_json[served]', props=['C19'],
         params={'self': obj('ResultElement', path_id=string(), path_request=REQ_OK, computed_path=lst(SRC, MID, obj('Transceiver', uid=string())))},
         let={'hops': "[o['path-route-object'] for o in result]"},
         # hop by hop: node, then the assigned labels, and the transponder after each transceiver; indices count up from 0
         ensures=[('eight_objects_indexed_in_order', "len(result) == 8 and all(hops[k]['index'] == k for k in range(8))"),
                  ('route_hop_by_hop', "hops[0]['num-unnum-hop']['node-id'] == self.computed_path[0].uid and "
                                       "hops[3]['num-unnum-hop']['node-id'] == self.computed_path[1].uid and "
                                       "hops[5]['num-unnum-hop']['node-id'] == self.computed_path[2].uid"),
                  ('labels_are_the_assigned_slots', "all(len(hops[k]['label-hop']) == 2 and "
                                                    "all(hops[k]['label-hop'][j]['N'] == self.path_request.N[j] and "
                                                    "hops[k]['label-hop'][j]['M'] == self.path_request.M[j] for j in range(2)) for k in (1, 4, 6))"),
                  ('transponder_type_and_mode', "all(hops[k]['transponder']['transponder-type'] == self.path_request.tsp and "
                                                "hops[k]['transponder']['transponder-mode'] == self.path_request.tsp_mode for k in (2, 7))")],
         use_at_calls=False, modifies=[])
REQ_BLOCKED = obj('<ns>', request_id=string(), tsp=string(), tsp_mode=string(), power=real(), path_bandwidth=real(), bidir=const(False),
                  N=opt(lst(integer())), M=opt(lst(integer())), blocking_reason=string())
contract(_Q + '.ResultElement.detailed_path_json', name=_Q + '.ResultElement.detailed_path_json[blocked]', props=['C19'],
         params={'self': obj('ResultElement', path_id=string(), path_request=REQ_BLOCKED,
                             computed_path=lst(SRC, MID, obj('Transceiver', uid=string())))},
         # a blocked request carries no labels: none are emitted, and labels left on the request are an error
         raises={'ServiceError': 'self.path_request.N is not None or self.path_request.M is not None'},
         ensures=[('no_label_objects', "len(result) == 5 and all('label-hop' not in o['path-route-object'] for o in result)")],
         use_at_calls=False, modifies=[])

_RE_BASE = dict(path_id=string(), computed_path=lst(SRC, MID, RXR('n', _PEN)))
for _reason in ('NO_PATH', 'NO_PATH_WITH_CONSTRAINT', 'NO_FEASIBLE_BAUDRATE_WITH_SPACING', 'NO_COMPUTED_SNR'):
    contract(_Q + '.ResultElement.pathresult', name=_Q + f'.ResultElement.pathresult[blocked: {_reason}]', props=['C19'],
             params={'self': obj('ResultElement', path_request=extend(REQ_BLOCKED, blocking_reason=const(_reason), N=const(None), M=const(None)),
                                 **_RE_BASE)},
             ensures=[('id_and_reason', f"result['response-id'] == self.path_id and result['no-path']['no-path'] == '{_reason}'"),
                      ('no_path_properties_no_labels', "'path-properties' not in result and 'path-properties' not in result['no-path']")],
             use_at_calls=False, modifies=[])
for _reason in ('MODE_NOT_FEASIBLE', 'NO_FEASIBLE_MODE', 'NO_SPECTRUM', 'NOT_ENOUGH_RESERVED_SPECTRUM'):
    contract(_Q + '.ResultElement.pathresult', name=_Q + f'.ResultElement.pathresult[blocked: {_reason}]', props=['C19'],
             params={'self': obj('ResultElement', path_request=extend(REQ_BLOCKED, blocking_reason=const(_reason), N=const(None), M=const(None)),
                                 **_RE_BASE)},
             let={'pp': "result['no-path']['path-properties']"},
             ensures=[('id_and_reason', f"result['response-id'] == self.path_id and result['no-path']['no-path'] == '{_reason}'"),
                      ('route_for_information_without_labels', "len(pp['path-route-objects']) == 5 and "
                                                               "all('label-hop' not in o['path-route-object'] for o in pp['path-route-objects'])"),
                      ('not_reported_as_served', "'path-properties' not in result")],
             use_at_calls=False, modifies=[])
contract(_Q + '.ResultElement.pathresult', name=_Q + '.ResultElement.pathresult[served]', props=['C19'],
         params={'self': obj('ResultElement', path_request=REQ_OK, **_RE_BASE)},
         ensures=[('id', "result['response-id'] == self.path_id"),
                  ('served_has_properties_and_no_blocking_entry', "'no-path' not in result and len(result['path-properties']['path-route-objects']) == 8 "
                                                                  "and len(result['path-properties']['path-metric']) == 11")],
         use_at_calls=False, modifies=[])

# ---------------------------------------------------------------- aggregation: identical requests answered once, bandwidths summed
from .c_request import _RQ, _SAME
_RQA = dict(_RQ, path_bandwidth=real(), N=lst(integer()), M=lst(integer()))
contract(_Q + '.requests_aggregation', name=_Q + '.requests_aggregation[two requests, no disjunction]', props=['C19', 'C16'],
         params={'pathreqlist': lst(obj('<ns>', **_RQA), obj('<ns>', **_RQA)), 'disjlist': const([])},
         requires=[('ids_unique', 'pathreqlist[0].request_id != pathreqlist[1].request_id')],
         let={'req1': 'old(pathreqlist[0])', 'req2': 'old(pathreqlist[1])', 'same': _SAME + ' and req2.tsp_mode is not None', 'out': 'result[0]'},
         ensures=[('merged_exactly_when_identical_with_a_mode', 'iff(same, len(out) == 1)'),
                  ('merged_request_sums_bandwidth_and_slots', 'implies(same, out[0] is pathreqlist[1] and '
                                                              'out[0].path_bandwidth == req1.path_bandwidth + req2.path_bandwidth and '
                                                              'len(out[0].N) == 2 and out[0].N[0] == req2.N[0] and out[0].N[1] == req1.N[0] and '
                                                              'len(out[0].M) == 2 and out[0].M[0] == req2.M[0] and out[0].M[1] == req1.M[0])'),
                  ('different_requests_kept_apart_and_untouched', 'implies(not same, len(out) == 2 and out[0] is pathreqlist[0] and out[1] is pathreqlist[1] and '
                                                                  'out[0].path_bandwidth == req1.path_bandwidth and out[1].path_bandwidth == req2.path_bandwidth and '
                                                                  'out[0].request_id == req1.request_id and out[1].request_id == req2.request_id)')],
         use_at_calls=False, modifies=['pathreqlist[1].path_bandwidth', 'pathreqlist[1].N', 'pathreqlist[1].M', 'pathreqlist[1].request_id'])
