"""Sidecar contracts: one module per area of the repository; each registers Contract objects."""
