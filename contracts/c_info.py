"""gnpy/core/info.py — SpectralInformation bookkeeping (C01, C02, C07)."""
from .common import *   # noqa

SHARES = ['self._signal_ratio', 'self._ase_ratio', 'self._nli_ratio']

contract('gnpy.core.info.SpectralInformation.add_ase', props=['C01', 'C02'],
         params={'self': SI(), 'ase': vec('n')}, spec=SPEC_INV,
         requires=[('inv', 'INV(self)'), ('ase_nonneg', 'forall(lambda i: ase[i] >= 0, NCH(self))')],
         ensures=[('inv', 'INV(self)'),
                  ('total', 'forall(lambda i: self._pch[i] == old(self._pch)[i] + ase[i], NCH(self))'),
                  ('signal_power_kept', 'forall(lambda i: self._signal_ratio[i] * self._pch[i] == old(self._signal_ratio)[i] * old(self._pch)[i], NCH(self))'),
                  ('nli_power_kept', 'forall(lambda i: self._nli_ratio[i] * self._pch[i] == old(self._nli_ratio)[i] * old(self._pch)[i], NCH(self))'),
                  ('ase_power_added', 'forall(lambda i: self._ase_ratio[i] * self._pch[i] == old(self._ase_ratio)[i] * old(self._pch)[i] + ase[i], NCH(self))'),
                  ('split', 'forall(lambda i: self.signal[i] + self.ase[i] + self.nli[i] == self._pch[i], NCH(self))'),
                  ],
         modifies=SHARES + ['self._pch'])
