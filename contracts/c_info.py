"""gnpy/core/info.py — SpectralInformation bookkeeping (C01, C02, C07)."""
from .common import *   # noqa

SHARES = ['self._signal_ratio', 'self._ase_ratio', 'self._nli_ratio']

contract('gnpy.core.info.SpectralInformation.add_ase', props=['C01', 'C02'],
         params={'self': SI(), 'ase': vec('n')}, spec=SPEC_INV,
         requires=[('inv', 'INV(self)'), ('ase_nonneg', 'forall(lambda i: ase[i] >= 0, NCH(self))')],
         ensures=[('inv', 'INV(self)'),
                  ('total', 'forall(lambda i: self._pch[i] == old(self._pch)[i] + ase[i], NCH(self))'),
                  ('signal_power_kept', 'forall(lambda i: self._signal_ratio[i] * self._pch[i] == old(self._signal_ratio)[i] * old(self._pch)[i], NCH(self))'),
                  ('nli_power_kept', 'forall(lambda i: self._nli_ratio[i] * self._pch[i] == old(self._nli_ratio)[i] * old(self._pch)[i], NCH(self))'),
                  ('ase_power_added', 'forall(lambda i: self._ase_ratio[i] * self._pch[i] == old(self._ase_ratio)[i] * old(self._pch)[i] + ase[i], NCH(self))'),
                  ('split', 'forall(lambda i: self.signal[i] + self.ase[i] + self.nli[i] == self._pch[i], NCH(self))'),
                  ],
         modifies=SHARES + ['self._pch'])

contract('gnpy.core.info.SpectralInformation.add_nli', props=['C01', 'C02'],
         params={'self': SI(), 'nli': vec('n')}, spec=SPEC_INV,
         requires=[('inv', 'INV(self)'),
                   ('nli_within_channel_power', 'forall(lambda i: 0 <= nli[i] and nli[i] <= self._pch[i], NCH(self))')],
         ensures=[('inv', 'INV(self)'),
                  ('signal_share', 'forall(lambda i: self._signal_ratio[i] == old(self._signal_ratio)[i] * (1 - nli[i] / self._pch[i]), NCH(self))'),
                  ('ase_share', 'forall(lambda i: self._ase_ratio[i] == old(self._ase_ratio)[i] * (1 - nli[i] / self._pch[i]), NCH(self))'),
                  ('nli_power_added', 'forall(lambda i: self._nli_ratio[i] * self._pch[i] == old(self._nli_ratio)[i] * (self._pch[i] - nli[i]) + nli[i], NCH(self))'),
                  ('osnr_ase_kept', 'forall(lambda i: self._signal_ratio[i] * old(self._ase_ratio)[i] == old(self._signal_ratio)[i] * self._ase_ratio[i], NCH(self))'),
                  ('snr_nli_not_up', 'forall(lambda i: self._signal_ratio[i] * old(self._nli_ratio)[i] <= old(self._signal_ratio)[i] * self._nli_ratio[i], NCH(self))'),
                  ('split', 'forall(lambda i: self.signal[i] + self.ase[i] + self.nli[i] == self._pch[i], NCH(self))'),
                  ],
         modifies=SHARES)

for _nm, _arg, _rel in (('apply_attenuation_lin', 'attenuation_lin', 'old(self._pch)[i] * at(attenuation_lin, i)'),
                        ('apply_gain_lin', 'gain_lin', 'old(self._pch)[i] * at(gain_lin, i)'),
                        ('apply_attenuation_db', 'attenuation_db', 'old(self._pch)[i] / spec_db2lin(at(attenuation_db, i))'),
                        ('apply_gain_db', 'gain_db', 'old(self._pch)[i] * spec_db2lin(at(gain_db, i))')):
    # the factor is a scalar (connector loss, fused loss) or a per-channel array (ROADM equalisation, gain profile)
    for _variant, _b in (('scalar', real()), ('per-channel', vec('n'))):
        contract(f'gnpy.core.info.SpectralInformation.{_nm}', name=f'gnpy.core.info.SpectralInformation.{_nm}[{_variant}]',
                 props=['C01', 'C02'], use_at_calls=(_variant == 'scalar'),
                 params={'self': SI(), _arg: _b}, spec=SPEC_INV,
                 requires=[('inv', 'INV(self)')] +
                          ([('factor_pos', f'forall(lambda i: at({_arg}, i) > 0, NCH(self))')] if _nm.endswith('lin') else []),
                 ensures=[('inv', 'INV(self)'),
                          ('power', f'forall(lambda i: self._pch[i] == {_rel}, NCH(self))')],
                 modifies=['self._pch'])

SI_ARGS = ['frequency', 'baud_rate', 'slot_width', 'pch', 'signal_ratio', 'ase_ratio', 'nli_ratio', 'roll_off',
           'chromatic_dispersion', 'pmd', 'pdl', 'latency', 'delta_pdb_per_channel', 'tx_osnr', 'tx_power', 'label']


# which clauses of the shared spectrum constructor / merge contracts each property rests on
_STRUCT = ['perm_range', 'nch', 'len', 'sorted', 'no_overlap', 'baud_fits_slot', 'df', 'raises', 'no-', 'unexpected', 'frame']
_SHARES = ['field_pch', 'field_signal_ratio', 'field_ase_ratio', 'field_nli_ratio', 'field_frequency']
PROP_FIELDS = {
    'C02': _SHARES + _STRUCT,
    'C03': ['field_frequency', 'field_baud_rate', 'field_slot_width', 'field_pch', 'field_roll_off'] + _STRUCT,
    'C05': ['field_chromatic_dispersion', 'field_pmd', 'field_pdl', 'field_latency', 'field_pch', 'field_frequency'] + _STRUCT,
    'C06': ['field_delta_pdb_per_channel', 'field_pch', 'field_frequency', 'field_baud_rate', 'field_slot_width', 'field_pmd', 'field_pdl'] + _STRUCT,
    # the impairments the penalties are read from, per channel (C13: GSNR minus interpolated CD / PMD / PDL penalties)
    'C13': ['field_chromatic_dispersion', 'field_pmd', 'field_pdl', 'field_frequency', 'field_baud_rate'] + _SHARES + _STRUCT,
    # what an amplifier hands on per band (C04: each band raised by its own amplifier, nothing dropped)
    'C04': ['field_pch', 'field_frequency', 'field_baud_rate', 'field_slot_width'] + _SHARES + _STRUCT + ['kept', 'all_', 'none_', 'some_'],
}
_SEL = ['kept_are_selected', 'nch', 'sorted', 'raises', 'no-', 'unexpected', 'frame']
PROP_FIELDS_SELECT = dict({k: [c for c in v if c.startswith('field_')] + _SEL for k, v in PROP_FIELDS.items()})

SPEC_SORTED = '''
def srt(x, frequency):
    return x[argsort(frequency)]
'''

contract('gnpy.core.info.SpectralInformation.__init__', props=['C07', 'C01', 'C03', 'C02', 'C06', 'C13', 'C05'], prop_clauses=PROP_FIELDS,
         params=dict({'self': obj('SpectralInformation')},
                     **{a: (vec('n', 'str') if a == 'label' else vec('n')) for a in SI_ARGS}),
         spec=SPEC_SORTED,
         let={'n': 'len(frequency)', 'pi': 'sort_perm(frequency)[0]'},
         drops=[('overlap = [pair for pair in zip(', 'value used only in the text of the SpectrumError message')],
         # rejected exactly when, in frequency order, two neighbouring slots overlap or a baud rate exceeds its slot
         raises={'SpectrumError': 'any(srt(frequency, frequency)[:-1] + srt(slot_width, frequency)[:-1] / 2 > '
                                  'srt(frequency, frequency)[1:] - srt(slot_width, frequency)[1:] / 2) '
                                  'or any(srt(baud_rate, frequency) > srt(slot_width, frequency))'},
         ensures=[(f'field_{a}', f'forall(lambda k: self._{a}[k] == {a}[pi(k)], n)') for a in SI_ARGS] +
                 [('perm_range', 'forall(lambda k: 0 <= pi(k) and pi(k) < n, n)'),
                  ('nch', 'self._number_of_channels == n'),
                  ('len', 'len(self._frequency) == n and len(self._pch) == n and len(self._label) == n'),
                  ('sorted', 'forall2(lambda a, b: implies(a < b, self._frequency[a] <= self._frequency[b]), n, n)'),
                  ('no_overlap', 'forall(lambda k: self._frequency[k] + self._slot_width[k] / 2 <= '
                                 'self._frequency[k + 1] - self._slot_width[k + 1] / 2, n - 1)'),
                  ('baud_fits_slot', 'forall(lambda k: self._baud_rate[k] <= self._slot_width[k], n)'),
                  ('df', 'forall2(lambda i, j: self._df[i, j] == self._frequency[j] - self._frequency[i], n, n)')],
         modifies=[(f'self._{a}', vec_len('len(frequency)', 'str' if a == 'label' else 'real')) for a in SI_ARGS] +
                  [('self._number_of_channels', expr('len(frequency)')), ('self._df', mat_len('len(frequency)')),
                   ('self._channel_number', vec_len('len(frequency)', 'int'))])

FIELDS16 = ['frequency', 'baud_rate', 'slot_width', 'pch', 'signal_ratio', 'ase_ratio', 'nli_ratio', 'roll_off',
            'chromatic_dispersion', 'pmd', 'pdl', 'latency', 'delta_pdb_per_channel', 'tx_osnr', 'tx_power', 'label']

# select_channels: every one of the 16 per-channel arrays of the result is the same-named array of the input,
# restricted by ONE common index map (mask order-embedding followed by the constructor's sorting permutation)
contract('gnpy.core.info.select_channels', props=['C07', 'C01', 'C05', 'C06', 'C03', 'C13'], prop_clauses=PROP_FIELDS_SELECT,
         params={'spectrum': SI(), 'select': vec('n', 'bool')},
         let={'emb': 'mask_index(select)', 'm': 'emb[0]', 'iota': 'emb[1]',
              'pi': 'sort_perm(spectrum._frequency[select])[0]'},
         raises={'SpectrumError': None},
         ensures=[(f'field_{a}', f'forall(lambda k: result._{a}[k] == spectrum._{a}[iota(pi(k))], m)') for a in FIELDS16] +
                 [('kept_are_selected', 'forall(lambda k: select[iota(pi(k))], m)'),
                  ('nch', 'result._number_of_channels == m'),
                  ('sorted', 'forall2(lambda a, b: implies(a < b, result._frequency[a] <= result._frequency[b]), m, m)')],
         returns=SI('m_sel'),
         modifies=[])

contract('gnpy.core.info.is_in_band', props=['C07', 'C04'],
         params={'frequency': vec('n'), 'slot_width': vec('n'), 'band': dct(f_min=real(), f_max=real())},
         ensures=[('def', "forall(lambda i: iff(result[i], frequency[i] - slot_width[i] / 2 >= band['f_min'] and "
                          "frequency[i] + slot_width[i] / 2 <= band['f_max']), len(frequency))"),
                  ('len', 'len(result) == len(frequency)')],
         returns=vec_len('len(frequency)', 'bool'), pure=True)

SI2 = SI('n2')
contract('gnpy.core.info.SpectralInformation.__add__', props=['C07', 'C01', 'C02', 'C05', 'C06', 'C03', 'C13'], prop_clauses=PROP_FIELDS,
         params={'self': SI(), 'other': SI('n2')},
         let={'pi': 'sort_perm(append(self._frequency, other._frequency))[0]',
              'tot': 'self._number_of_channels + other._number_of_channels'},
         raises={'SpectrumError': None},
         # each merged array is the concatenation of the two same-named arrays, re-ordered by one common permutation
         ensures=[(f'field_{a}', f'forall(lambda k: result._{a}[k] == append(self._{a}, other._{a})[pi(k)], tot)')
                  for a in FIELDS16] +
                 [('nch', 'result._number_of_channels == tot'),
                  ('perm_range', 'forall(lambda k: 0 <= pi(k) and pi(k) < tot, tot)'),
                  ('sorted', 'forall2(lambda a, b: implies(a < b, result._frequency[a] <= result._frequency[b]), tot, tot)'),
                  ('no_overlap', 'forall(lambda k: result._frequency[k] + result._slot_width[k] / 2 <= '
                                 'result._frequency[k + 1] - result._slot_width[k + 1] / 2, tot - 1)')],
         returns=SI('n_sum'), modifies=[])

contract('gnpy.core.info.demuxed_spectral_information', props=['C07', 'C04'],
         params={'input_si': SI(), 'band': dct(f_min=real(), f_max=real())},
         spec='''
def inband(si, band, i):
    return si._frequency[i] - si._slot_width[i] / 2 >= band['f_min'] and si._frequency[i] + si._slot_width[i] / 2 <= band['f_max']
''',
         raises={'SpectrumError': None},
         ensures=[('none_iff_no_channel_in_band',
                   'implies(is_none(result), forall(lambda i: not inband(input_si, band, i), input_si._number_of_channels))'),
                  ('some_channel_in_band_otherwise',
                   'implies(not is_none(result), exists(lambda i: inband(input_si, band, i), input_si._number_of_channels))'),
                  ] +
                 [(f'field_{a}', f'implies(not is_none(result), forall(lambda k: result._{a}[k] == input_si._{a}[iota(pi(k))], m))')
                  for a in FIELDS16] +
                 [('kept_in_band', 'implies(not is_none(result), forall(lambda k: inband(input_si, band, iota(pi(k))), m))'),
                  ('all_in_band_kept', 'implies(not is_none(result), forall(lambda i: implies(inband(input_si, band, i), '
                                       '0 <= emb[2](i) and emb[2](i) < m and iota(emb[2](i)) == i), input_si._number_of_channels))'),
                  ('nch', 'implies(not is_none(result), result._number_of_channels == m)')],
         let={'mask': 'is_in_band(input_si._frequency, input_si._slot_width, band)', 'emb': 'mask_index(mask)',
              'm': 'emb[0]', 'iota': 'emb[1]', 'pi': 'sort_perm(input_si._frequency[mask])[0]'},
         returns=opt(SI('n_demux')), modifies=[])

# band merge of any number of bands (here three: the recursion is exercised twice): nothing is dropped
contract('gnpy.core.info.muxed_spectral_information', name='gnpy.core.info.muxed_spectral_information[three bands]', props=['C01', 'C07', 'C04'],
         params={'input_si_list': lst(SI('na'), SI('nb'), SI('nc'))},
         raises={'SpectrumError': None},
         ensures=[('every_channel_of_every_band_is_in_the_merged_spectrum',
                   'result._number_of_channels == input_si_list[0]._number_of_channels + input_si_list[1]._number_of_channels + '
                   'input_si_list[2]._number_of_channels')],
         modifies=[], use_at_calls=False)
contract('gnpy.core.info.muxed_spectral_information', name='gnpy.core.info.muxed_spectral_information[one band]', props=['C01', 'C07'],
         params={'input_si_list': lst(SI('na'))},
         ensures=[('the_band_itself', 'result is input_si_list[0]')], modifies=[], use_at_calls=False)
contract('gnpy.core.info.muxed_spectral_information', name='gnpy.core.info.muxed_spectral_information[no band]', props=['C01', 'C07'],
         params={'input_si_list': lst()}, raises={'ValueError': 'True'}, ensures=[], modifies=[], use_at_calls=False)

# a user-defined spectrum {frequency: carrier}: every channel of the launched spectrum carries the figures of the carrier
# declared at its frequency (the dict is given in descending frequency order: the constructor re-orders by frequency)
CARRIER = lambda: obj('Carrier', delta_pdb=real(), baud_rate=real(), slot_width=real(), roll_off=real(), tx_osnr=real(),
                      tx_power=real(), label=string())
contract('gnpy.core.info.carriers_to_spectral_information', name='gnpy.core.info.carriers_to_spectral_information[two carriers, descending order]',
         props=['C07', 'C03'],
         params={'initial_spectrum': dct_k({193.4e12: CARRIER(), 193.1e12: CARRIER()}), 'power': real()},
         raises={'SpectrumError': None},
         let={'hi': 'initial_spectrum[193.4e12]', 'lo': 'initial_spectrum[193.1e12]'},
         ensures=[('two_channels_by_ascending_frequency', 'result._number_of_channels == 2 and result._frequency[0] == 193.1e12 and '
                                                          'result._frequency[1] == 193.4e12'),
                  ('each_channel_has_the_figures_of_its_own_carrier',
                   ' and '.join(f'result._{a}[0] == lo.{b} and result._{a}[1] == hi.{b}' for a, b in
                                (('baud_rate', 'baud_rate'), ('slot_width', 'slot_width'), ('roll_off', 'roll_off'), ('tx_osnr', 'tx_osnr'),
                                 ('tx_power', 'tx_power'), ('pch', 'tx_power'), ('delta_pdb_per_channel', 'delta_pdb'), ('label', 'label'))))],
         modifies=[], use_at_calls=False)

# ---------------------------------------------------------------- reported figures: every accessor states the share it is named
# after, in W and in dBm, and the three 0.1 nm figures are the signal-bandwidth figures moved by the same bandwidth ratio
_N = 'self._number_of_channels'
_ACC = {
    'signal': 'self._signal_ratio[i] * self._pch[i]', 'ase': 'self._ase_ratio[i] * self._pch[i]', 'nli': 'self._nli_ratio[i] * self._pch[i]',
    'signal_dbm': 'spec_lin2db(self._signal_ratio[i] * self._pch[i] * 1000)', 'ase_dbm': 'spec_lin2db(self._ase_ratio[i] * self._pch[i] * 1000)',
    'nli_dbm': 'spec_lin2db(self._nli_ratio[i] * self._pch[i] * 1000)', 'pch_dbm': 'spec_lin2db(self._pch[i] * 1000)',
    'snr_lin': 'self._signal_ratio[i] / self._ase_ratio[i]', 'snr_nli': 'self._signal_ratio[i] / self._nli_ratio[i]',
    'gsnr': 'self._signal_ratio[i] / (self._ase_ratio[i] + self._nli_ratio[i])',
    'snr_lin_db': 'spec_lin2db(self._signal_ratio[i] / self._ase_ratio[i])', 'snr_nli_db': 'spec_lin2db(self._signal_ratio[i] / self._nli_ratio[i])',
    'gsnr_db': 'spec_lin2db(self._signal_ratio[i] / (self._ase_ratio[i] + self._nli_ratio[i]))',
    'opt_snr_lin_db': 'spec_lin2db(self._signal_ratio[i] / self._ase_ratio[i]) - spec_lin2db(12.5e9 / self._baud_rate[i])',
    'opt_snr_nli_db': 'spec_lin2db(self._signal_ratio[i] / self._nli_ratio[i]) - spec_lin2db(12.5e9 / self._baud_rate[i])',
    'opt_gsnr_db': 'spec_lin2db(self._signal_ratio[i] / (self._ase_ratio[i] + self._nli_ratio[i])) - spec_lin2db(12.5e9 / self._baud_rate[i])',
}
for _acc, _def in _ACC.items():
    contract(f'gnpy.core.info.SpectralInformation.{_acc}', props=['C01'] + (['C02'] if 'snr' in _acc else []), params={'self': SI()}, spec=SPEC_INV,
             requires=[('inv', 'INV(self)'), ('noise_present', f'forall(lambda i: self._ase_ratio[i] > 0 and self._nli_ratio[i] > 0 and '
                                                               f'self._baud_rate[i] > 0, {_N})')],
             ensures=[('is_the_share_it_is_named_after', f'forall(lambda i: at(result, i) == {_def}, {_N})')],
             use_at_calls=False, modifies=[])

# the per-channel records handed to reports and to the spectrum assignment: each record carries that channel's own shares
contract('gnpy.core.info.SpectralInformation.carriers', props=['C01', 'C07'], params={'self': SI()}, spec=SPEC_INV,
         requires=[('inv', 'INV(self)')],
         ensures=[('one_record_per_channel', f'len(result) == {_N}'),
                  ('shares_of_that_channel', f'forall(lambda i: result[i].signal == self._signal_ratio[i] * self._pch[i] and '
                                             f'result[i].ase == self._ase_ratio[i] * self._pch[i] and '
                                             f'result[i].nli == self._nli_ratio[i] * self._pch[i], {_N})'),
                  ('own_data', f'forall(lambda i: result[i].frequency == self._frequency[i] and result[i].baud_rate == self._baud_rate[i] '
                               f'and result[i].slot_width == self._slot_width[i] and result[i].channel_number == self._channel_number[i], {_N})')],
         use_at_calls=False, modifies=[])

# ---------------------------------------------------------------- round 8: how many channels a band holds (C07)
contract('gnpy.core.utils.automatic_nch', props=['C07'],
         params={'f_min': real(), 'f_max': real(), 'spacing': real()},
         requires=[('spacing', 'spacing > 0'), ('band', 'f_max >= f_min')],
         # the largest number of whole channel spacings the band holds
         ensures=[('all_fit', 'result * spacing <= f_max - f_min'), ('no_more_would', '(result + 1) * spacing > f_max - f_min'),
                  ('nonneg', 'result >= 0')],
         returns=integer(), use_at_calls=False, modifies=[])
contract('gnpy.core.utils.automatic_fmax', props=['C07'],
         params={'f_min': real(), 'spacing': real(), 'nch': integer()},
         ensures=[('upper_edge', 'result == f_min + spacing * nch')], returns=real(), use_at_calls=False, modifies=[])
H_NCH = '''
def nch_roundtrip(f_min, spacing, nch):
    return automatic_nch(f_min, automatic_fmax(f_min, spacing, nch), spacing)
'''
contract('harness:nch_roundtrip', harness=H_NCH, module='gnpy.core.utils', props=['C07'],
         params={'f_min': real(), 'spacing': real(), 'nch': integer()},
         requires=[('spacing', 'spacing > 0'), ('nch', 'nch >= 0')],
         ensures=[('inverse_in_exact_arithmetic', 'result == nch')], modifies=[])
