"""gnpy/core/info.py — SpectralInformation bookkeeping (C01, C02, C07)."""
from .common import *   # noqa

SHARES = ['self._signal_ratio', 'self._ase_ratio', 'self._nli_ratio']

contract('gnpy.core.info.SpectralInformation.add_ase', props=['C01', 'C02'],
         params={'self': SI(), 'ase': vec('n')}, spec=SPEC_INV,
         requires=[('inv', 'INV(self)'), ('ase_nonneg', 'forall(lambda i: ase[i] >= 0, NCH(self))')],
         ensures=[('inv', 'INV(self)'),
                  ('total', 'forall(lambda i: self._pch[i] == old(self._pch)[i] + ase[i], NCH(self))'),
                  ('signal_power_kept', 'forall(lambda i: self._signal_ratio[i] * self._pch[i] == old(self._signal_ratio)[i] * old(self._pch)[i], NCH(self))'),
                  ('nli_power_kept', 'forall(lambda i: self._nli_ratio[i] * self._pch[i] == old(self._nli_ratio)[i] * old(self._pch)[i], NCH(self))'),
                  ('ase_power_added', 'forall(lambda i: self._ase_ratio[i] * self._pch[i] == old(self._ase_ratio)[i] * old(self._pch)[i] + ase[i], NCH(self))'),
                  ('split', 'forall(lambda i: self.signal[i] + self.ase[i] + self.nli[i] == self._pch[i], NCH(self))'),
                  ],
         modifies=SHARES + ['self._pch'])

contract('gnpy.core.info.SpectralInformation.add_nli', props=['C01', 'C02'],
         params={'self': SI(), 'nli': vec('n')}, spec=SPEC_INV,
         requires=[('inv', 'INV(self)'),
                   ('nli_within_channel_power', 'forall(lambda i: 0 <= nli[i] and nli[i] <= self._pch[i], NCH(self))')],
         ensures=[('inv', 'INV(self)'),
                  ('signal_share', 'forall(lambda i: self._signal_ratio[i] == old(self._signal_ratio)[i] * (1 - nli[i] / self._pch[i]), NCH(self))'),
                  ('ase_share', 'forall(lambda i: self._ase_ratio[i] == old(self._ase_ratio)[i] * (1 - nli[i] / self._pch[i]), NCH(self))'),
                  ('nli_power_added', 'forall(lambda i: self._nli_ratio[i] * self._pch[i] == old(self._nli_ratio)[i] * (self._pch[i] - nli[i]) + nli[i], NCH(self))'),
                  ('osnr_ase_kept', 'forall(lambda i: self._signal_ratio[i] * old(self._ase_ratio)[i] == old(self._signal_ratio)[i] * self._ase_ratio[i], NCH(self))'),
                  ('snr_nli_not_up', 'forall(lambda i: self._signal_ratio[i] * old(self._nli_ratio)[i] <= old(self._signal_ratio)[i] * self._nli_ratio[i], NCH(self))'),
                  ('split', 'forall(lambda i: self.signal[i] + self.ase[i] + self.nli[i] == self._pch[i], NCH(self))'),
                  ],
         modifies=SHARES)

for _nm, _arg, _rel in (('apply_attenuation_lin', 'attenuation_lin', 'old(self._pch)[i] * at(attenuation_lin, i)'),
                        ('apply_gain_lin', 'gain_lin', 'old(self._pch)[i] * at(gain_lin, i)'),
                        ('apply_attenuation_db', 'attenuation_db', 'old(self._pch)[i] / spec_db2lin(at(attenuation_db, i))'),
                        ('apply_gain_db', 'gain_db', 'old(self._pch)[i] * spec_db2lin(at(gain_db, i))')):
    # the factor is a scalar (connector loss, fused loss) or a per-channel array (ROADM equalisation, gain profile)
    for _variant, _b in (('scalar', real()), ('per-channel', vec('n'))):
        contract(f'gnpy.core.info.SpectralInformation.{_nm}', name=f'gnpy.core.info.SpectralInformation.{_nm}[{_variant}]',
                 props=['C01', 'C02'], use_at_calls=(_variant == 'scalar'),
                 params={'self': SI(), _arg: _b}, spec=SPEC_INV,
                 requires=[('inv', 'INV(self)')] +
                          ([('factor_pos', f'forall(lambda i: at({_arg}, i) > 0, NCH(self))')] if _nm.endswith('lin') else []),
                 ensures=[('inv', 'INV(self)'),
                          ('power', f'forall(lambda i: self._pch[i] == {_rel}, NCH(self))')],
                 modifies=['self._pch'])

SI_ARGS = ['frequency', 'baud_rate', 'slot_width', 'pch', 'signal_ratio', 'ase_ratio', 'nli_ratio', 'roll_off',
           'chromatic_dispersion', 'pmd', 'pdl', 'latency', 'delta_pdb_per_channel', 'tx_osnr', 'tx_power', 'label']

SPEC_SORTED = '''
def srt(x, frequency):
    return x[argsort(frequency)]
'''

contract('gnpy.core.info.SpectralInformation.__init__', props=['C07', 'C01', 'C03'],
         params=dict({'self': obj('SpectralInformation')},
                     **{a: (vec('n', 'str') if a == 'label' else vec('n')) for a in SI_ARGS}),
         spec=SPEC_SORTED,
         let={'n': 'len(frequency)', 'pi': 'sort_perm(frequency)[0]'},
         drops=[('overlap = [pair for pair in zip(', 'value used only in the text of the SpectrumError message')],
         # rejected exactly when, in frequency order, two neighbouring slots overlap or a baud rate exceeds its slot
         raises={'SpectrumError': 'any(srt(frequency, frequency)[:-1] + srt(slot_width, frequency)[:-1] / 2 > '
                                  'srt(frequency, frequency)[1:] - srt(slot_width, frequency)[1:] / 2) '
                                  'or any(srt(baud_rate, frequency) > srt(slot_width, frequency))'},
         ensures=[(f'field_{a}', f'forall(lambda k: self._{a}[k] == {a}[pi(k)], n)') for a in SI_ARGS] +
                 [('perm_range', 'forall(lambda k: 0 <= pi(k) and pi(k) < n, n)'),
                  ('nch', 'self._number_of_channels == n'),
                  ('len', 'len(self._frequency) == n and len(self._pch) == n and len(self._label) == n'),
                  ('sorted', 'forall2(lambda a, b: implies(a < b, self._frequency[a] <= self._frequency[b]), n, n)'),
                  ('no_overlap', 'forall(lambda k: self._frequency[k] + self._slot_width[k] / 2 <= '
                                 'self._frequency[k + 1] - self._slot_width[k + 1] / 2, n - 1)'),
                  ('baud_fits_slot', 'forall(lambda k: self._baud_rate[k] <= self._slot_width[k], n)'),
                  ('df', 'forall2(lambda i, j: self._df[i, j] == self._frequency[j] - self._frequency[i], n, n)')],
         modifies=['self.*'])
