"""gnpy/topology/request.py — feasibility verdict, routing helpers, disjunction helpers (C13, C11, C12, C19)."""
from .common import *   # noqa

RX = obj('Transceiver', uid=string(), snr_01nm=opt(vec('nrx')), total_penalty=opt(vec('nrx')), snr=opt(vec('nrx')),
         penalties=dct())
REQ_FIXED = obj('<ns>', request_id=string(), source=string(), destination=string(), nodes_list=lst(), baud_rate=real(),
                OSNR=real(), tsp_mode=string(), bidir=const(False), tx_osnr=real(), penalties=dct())

# summary of propagate() for the verdict: it (re)computes the receiver figures of the LAST element of the path it is given
contract('gnpy.topology.request.propagate', name='gnpy.topology.request.propagate[call-site summary]', trusted=True, props=[],
         params={'path': lst(), 'req': obj('<ns>'), 'equipment': dct()},
         ensures=[('computed', 'path[len(path) - 1].snr_01nm is not None and path[len(path) - 1].total_penalty is not None')],
         modifies=[('path[len(path) - 1].snr_01nm', vec('nrx2')), ('path[len(path) - 1].total_penalty', vec('nrx2')),
                   ('path[len(path) - 1].snr', vec('nrx2'))],
         returns=obj('SpectralInformation'),
         note='summary: propagate writes the receiver figures on the last element of the path object it receives; the per-'
              'element loop is proved in c_path.py, the receiver arithmetic in c_elements.py')
contract('gnpy.topology.request.find_reversed_path', trusted=True, props=[],
         params={'pth': lst()}, ensures=[], returns=expr('pth[0].ghost_reversed'), pure=True,
         note='ghost: the reverse path (graph walk over the paired OMS, C15 bounded) is carried by the first element')
contract('gnpy.topology.request.penalty_msg', trusted=True, props=[],
         params={'total_path': obj('<ns>'), 'msg': string(), 'min_ind': integer(), 'osnr': real(), 'margin': real()},
         ensures=[], returns=string(), pure=True, note='message formatting only')

EQ_SI = dct(SI=dct(default=obj('<ns>', sys_margins=real())))
SPEC_VERDICT = '''
def WORST(rx):
    return min(rx.snr_01nm - rx.total_penalty)
'''
contract('gnpy.topology.request.compute_path_with_disjunction',
         name='gnpy.topology.request.compute_path_with_disjunction[request loop body, fixed mode, one direction]', loop=0,
         loop_returns=['path_res_list', 'pathreq', 'total_path'], props=['C13', 'C16'], use_at_calls=False,
         params={'i': const(0), 'pathreq': REQ_FIXED, 'pathlist': lst(lst(obj('Transceiver', uid=string(), ghost_reversed=lst()), RX)),
                 'network': obj('<ns>'), 'equipment': EQ_SI, 'redesign': const(False), 'path_res_list': lst(),
                 'reversed_path_res_list': lst(), 'propagated_reversed_path_res_list': lst(), 'total_nb_requests': const(1)},
         spec=SPEC_VERDICT,
         let={'rx': 'result[2][len(result[2]) - 1]', 'blocked': "hasattr(result[1], 'blocking_reason')",
              'thr': "pathreq.OSNR + equipment['SI']['default'].sys_margins"},
         # accepted exactly when the worst channel (GSNR in 0.1 nm minus penalties, rounded to 0.01 dB) clears the threshold
         ensures=[('verdict', 'iff(blocked, round(WORST(rx), 2) < thr)'),
                  ('reason', "implies(blocked, result[1].blocking_reason == 'MODE_NOT_FEASIBLE')"),
                  # the propagation result is recorded on a fresh copy: the designed network's receiver is untouched
                  ('works_on_a_copy', 'rx is not pathlist[0][1] and result[0][0] is result[2]')],
         modifies=['pathreq.blocking_reason', 'path_res_list[*]', 'reversed_path_res_list[*]',
                   'propagated_reversed_path_res_list[*]'])


RX_B = obj('Transceiver', uid=string(), snr_01nm=opt(vec('nrxb')), total_penalty=opt(vec('nrxb')), snr=opt(vec('nrxb')), penalties=dct())
REQ_BIDIR = extend(REQ_FIXED, bidir=const(True))
contract('gnpy.topology.request.compute_path_with_disjunction',
         name='gnpy.topology.request.compute_path_with_disjunction[request loop body, fixed mode, both directions]', loop=0,
         loop_returns=['path_res_list', 'pathreq', 'total_path', 'propagated_reversed_path'], props=['C13', 'C16'],
         use_at_calls=False,
         params={'i': const(0), 'pathreq': REQ_BIDIR,
                 'pathlist': lst(lst(obj('Transceiver', uid=string(), ghost_reversed=lst(obj('Transceiver', uid=string()), RX_B)), RX)),
                 'network': obj('<ns>'), 'equipment': EQ_SI, 'redesign': const(False), 'path_res_list': lst(),
                 'reversed_path_res_list': lst(), 'propagated_reversed_path_res_list': lst(), 'total_nb_requests': const(1)},
         spec=SPEC_VERDICT,
         let={'rx': 'result[2][len(result[2]) - 1]', 'rrx': 'result[3][len(result[3]) - 1]',
              'blocked': "hasattr(result[1], 'blocking_reason')", 'thr': "pathreq.OSNR + equipment['SI']['default'].sys_margins"},
         # bidirectional: feasible iff the worst channel clears the threshold on the path AND on the reverse path
         ensures=[('verdict_both_directions', 'iff(blocked, round(WORST(rx), 2) < thr or round(WORST(rrx), 2) < thr)'),
                  ('reason', "implies(blocked, result[1].blocking_reason == 'MODE_NOT_FEASIBLE')"),
                  ('reverse_direction_on_a_copy', 'rrx is not pathlist[0][0].ghost_reversed[1] and rx is not pathlist[0][1]')],
         modifies=['pathreq.blocking_reason', 'path_res_list[*]', 'reversed_path_res_list[*]',
                   'propagated_reversed_path_res_list[*]'])

# ================================================================== C11 routing
def NODE(cls, name):
    return obj(cls, uid=const(name))


_S, _D = NODE('Transceiver', 'trx S'), NODE('Transceiver', 'trx D')
_A, _B, _C = NODE('Roadm', 'roadm A'), NODE('Roadm', 'roadm B'), NODE('Roadm', 'roadm C')
_X = obj('Edfa', uid=const('edfa X'), oms=obj('<ns>'))      # a line element of the direct link A -> D
# ghost graph: iteration order of the nodes, the candidate simple paths in non-decreasing weight order (networkx
# shortest_simple_paths, assumed), whether no path exists, and the result of the explicit-path shortcut
contract('gnpy.topology.request.shortest_simple_paths', trusted=True, props=[],
         params={'G': obj('<ns>'), 'source': obj('<ns>'), 'target': obj('<ns>'), 'weight': string()},
         raises={'NetworkXNoPath': 'G.ghost_nopath'}, ensures=[], returns=expr('G.ghost_paths'),
         note='ASSUMED networkx: all simple source->target paths by non-decreasing weight; NetworkXNoPath iff none')
contract('gnpy.topology.request.dijkstra_path', trusted=True, props=[],
         params={'G': obj('<ns>'), 'source': obj('<ns>'), 'target': obj('<ns>'), 'weight': string()},
         ensures=[], returns=expr('G.ghost_paths[0]'), note='ASSUMED networkx: a minimum-weight path = first simple path')
contract('gnpy.topology.request.explicit_path', name='gnpy.topology.request.explicit_path[call-site summary]', trusted=True, props=[],
         params={'node_list': lst(), 'source': obj('<ns>'), 'destination': obj('<ns>'), 'network': obj('<ns>')},
         ensures=[('none_without_line_elements', "implies(not any(hasattr(n, 'oms') for n in node_list), result is None)")],
         returns=expr('network.ghost_explicit'),
         note='summary: None unless the include list names line elements (which carry an OMS); then None or the '
              'concatenation of those OMS from the source ROADM to the destination ROADM')


def shared_n(key, node):
    return shared('node_' + key, node)


_nS, _nD, _nA, _nB, _nC, _nX = (shared_n(k, v) for k, v in (('S', _S), ('D', _D), ('A', _A), ('B', _B), ('C', _C), ('X', _X)))
P1 = lst(_nS, _nA, _nX, _nD)           # the shortest route (direct link through the line element X)
P2 = lst(_nS, _nA, _nB, _nD)           # via B
P3 = lst(_nS, _nC, _nB, _nD)           # via C then B
SPEC_ROUTE = '''
def POS(path, n):
    return path.index(n) if n in path else -1
def INORDER(nodes, path):
    # the include nodes are all crossed, in the given order (positions strictly increasing)
    return all(POS(path, n) >= 0 for n in nodes) and all(POS(path, a) < POS(path, b) for a, b in zip(nodes, nodes[1:]))
'''
for _incl, _loose, _explicit, _label in (
        (['roadm B'], ['STRICT', 'STRICT'], const(None), 'include B strict'),
        (['roadm C', 'roadm B'], ['LOOSE', 'STRICT', 'STRICT'], const(None), 'include C then B'),
        (['roadm B', 'roadm C'], ['LOOSE', 'LOOSE', 'LOOSE'], const(None), 'unsatisfiable, all loose'),
        (['roadm B', 'roadm C'], ['STRICT', 'LOOSE', 'STRICT'], const(None), 'unsatisfiable, one strict'),
        (['roadm B', 'edfa X'], ['STRICT', 'STRICT', 'STRICT'], P1, 'explicit-path shortcut ignoring a strict ROADM')):
    contract('gnpy.topology.request.compute_constrained_path',
             name=f'gnpy.topology.request.compute_constrained_path[{_label}]', props=['C11'], use_at_calls=False,
             params={'network': obj('<ns>', __iter__=lst(_nS, _nD, _nA, _nB, _nC, _nX), ghost_paths=lst(P1, P2, P3),
                                    ghost_nopath=const(False), ghost_explicit=_explicit),
                     'req': obj('<ns>', request_id=string(), source=const('trx S'), destination=const('trx D'),
                                nodes_list=const(_incl + ['trx D']), loose_list=const(_loose))},
             spec=SPEC_ROUTE,
             let={'incl': f"[n for n in network.__iter__ if n.uid in {_incl!r}]",
                  'incl_sorted': f"[[n for n in network.__iter__ if n.uid == u][0] for u in {_incl!r}]",
                  'blocked': "hasattr(req, 'blocking_reason')"},
             ensures=[('ends', 'implies(len(result) > 0, result[0].uid == req.source and result[len(result) - 1].uid == req.destination)'),
                      ('include_nodes_in_order_or_blocked_or_dropped',
                       "implies(len(result) > 0 and 'STRICT' in req.loose_list[:len(req.loose_list) - 1], INORDER(incl_sorted, result))"),
                      ('first_matching_candidate', "implies(len(result) > 0 and INORDER(incl_sorted, result), "
                                                   "all(not INORDER(incl_sorted, p) for p in network.ghost_paths[:network.ghost_paths.index(result)]))"),
                      ('strict_unsatisfiable_blocks', "implies(not any(INORDER(incl_sorted, p) for p in network.ghost_paths) and "
                                                      "'STRICT' in req.loose_list[:len(req.loose_list) - 1], "
                                                      "blocked and req.blocking_reason == 'NO_PATH_WITH_CONSTRAINT' and len(result) == 0)"),
                      ('loose_unsatisfiable_gives_shortest', "implies(not any(INORDER(incl_sorted, p) for p in network.ghost_paths) and "
                                                             "'STRICT' not in req.loose_list[:len(req.loose_list) - 1], "
                                                             "not blocked and result is network.ghost_paths[0])")],
             modifies=['req.blocking_reason'])

# ---- sub-sequence and link-disjointness helpers (lists of symbolic node identities; structure bound: lengths 2 and 4)
contract('gnpy.topology.request.ispart', props=['C11', 'C12'],
         params={'ptha': lst(integer(), integer()), 'pthb': lst(integer(), integer(), integer(), integer())},
         spec='''
def POSI(b, x):
    return 0 if b[0] == x else 1 if b[1] == x else 2 if b[2] == x else 3 if b[3] == x else -1
''',
         requires=[('b_duplicate_free', 'pthb[0] != pthb[1] and pthb[0] != pthb[2] and pthb[0] != pthb[3] and pthb[1] != pthb[2] '
                                        'and pthb[1] != pthb[3] and pthb[2] != pthb[3]')],
         # a is an order-preserving sub-sequence of b
         ensures=[('subsequence', 'iff(result, POSI(pthb, ptha[0]) >= 0 and POSI(pthb, ptha[1]) >= 0 and '
                                  'POSI(pthb, ptha[0]) <= POSI(pthb, ptha[1]))')],
         use_at_calls=False, modifies=[])

contract('gnpy.topology.request.isdisjoint', props=['C12'],
         params={'pth1': lst(integer(), integer(), integer()), 'pth2': lst(integer(), integer(), integer())},
         # 0 iff no directed link (consecutive pair) of one path is a link of the other
         ensures=[('no_common_link', 'iff(result == 0, not ((pth1[0] == pth2[0] and pth1[1] == pth2[1]) or (pth1[0] == pth2[1] and pth1[1] == pth2[2]) '
                                     'or (pth1[1] == pth2[0] and pth1[2] == pth2[1]) or (pth1[1] == pth2[1] and pth1[2] == pth2[2])))'),
                  ('zero_or_one', 'result == 0 or result == 1')],
         use_at_calls=False, modifies=[])

# ================================================================== C16 / C19 aggregation: only identical requests are merged
_RQ = dict(request_id=string(), source=string(), destination=string(), tsp=string(), tsp_mode=opt(string()), baud_rate=opt(real()),
           nodes_list=lst(string(), string()), loose_list=lst(string(), string()), spacing=real(), power=real(),
           nb_channel=integer(), f_min=real(), f_max=real(), format=opt(string()), OSNR=opt(real()), roll_off=opt(real()),
           tx_power=real(), bidir=boolean())
_SAME = ' and '.join(f'req1.{f} == req2.{f}' for f in _RQ if f != 'request_id')
contract('gnpy.topology.request.compare_reqs', name='gnpy.topology.request.compare_reqs[no disjunction]', props=['C16', 'C19', 'C13'],
         params={'req1': obj('<ns>', **_RQ), 'req2': obj('<ns>', **_RQ), 'disjlist': const([])},
         # two requests may be merged only when every field that decides route, mode and spectrum is the same
         ensures=[(f'same_{f}', f'implies(result, req1.{f} == req2.{f})') for f in _RQ if f != 'request_id'] +
                 [('identical_requests_are_merged', f'implies({_SAME}, result)')],
         # C13 (verdict of a request with a given mode, both directions) rests on the transponder / mode / direction fields only
         prop_clauses={'C13': ['same_bidir', 'same_tsp', 'same_tsp_mode', 'same_baud_rate', 'same_OSNR', 'same_format', 'same_tx_power',
                               'same_power', 'same_spacing']},
         use_at_calls=False, modifies=[])

# a request built without a route list gets a list of its own: the class-level default list is shared by nobody
# (compute_path_dsjctn appends the destination to req.nodes_list / 'STRICT' to req.loose_list of every request)
_DEFAULTS = dct(request_id=const(None), nodes_list=lst(), loose_list=lst(), bidir=const(False), effective_freq_slot=const(None))
contract('gnpy.topology.topology_parameters.BaseParams.update_attr', props=['C16', 'C11', 'C12'],
         params={'self': obj('RequestParams', default_values=_DEFAULTS), 'kwargs': dct_k({'request_id': string(), 'bidir': boolean()})},
         requires=[('id_not_blank', "kwargs['request_id'] != ''")],     # blank texts count as not given
         ensures=[('own_route_lists', "self.nodes_list is not self.default_values['nodes_list'] and "
                                      "self.loose_list is not self.default_values['loose_list'] and self.nodes_list is not self.loose_list "
                                      "and len(self.nodes_list) == 0 and len(self.loose_list) == 0"),
                  ('given_values_taken', "self.request_id == kwargs['request_id'] and iff(self.bidir, kwargs['bidir']) and "
                                         "self.effective_freq_slot is None")],
         modifies=['self.*'], use_at_calls=False)

# ================================================================== C11 edge weights: the weight of a link leaving a fibre (of any
# kind) is that fibre's length, 0.01 for every other link (real body of the connection loop of network_from_json)
from pyvc.vals import Obj as _Obj, Builtin as _Builtin


def GRAPH():
    def b(c, label):
        o = _Obj('<ns>', {'ghost_edges': []}, label=label)
        o.fields['add_edge'] = _Builtin('add_edge', lambda it, a, k, o=o: o.fields['ghost_edges'].append([a[0], a[1], k.get('weight')]))
        return o
    b.recipe = ('obj', '<ns>', {})
    b.fields = {}
    b.cls = '<ns>'
    return b


for _cls, _fibre in (('Fiber', True), ('RamanFiber', True), ('Edfa', False), ('Roadm', False), ('Fused', False)):
    contract('gnpy.tools.json_io.network_from_json', name=f'gnpy.tools.json_io.network_from_json[connection loop body, link leaving a {_cls}]',
             loop=3, props=['C11'], use_at_calls=False,
             params={'cx': dct(from_node=const('a'), to_node=const('b')), 'g': GRAPH(),
                     'nodes': dct_k({'a': obj(_cls, uid=const('a'), params=obj('<ns>', length=real())), 'b': obj('Edfa', uid=const('b'))})},
             ensures=[('one_edge_between_the_named_elements', "len(g.ghost_edges) == 1 and g.ghost_edges[0][0] is nodes['a'] and g.ghost_edges[0][1] is nodes['b']"),
                      ('weight', "g.ghost_edges[0][2] == " + ("nodes['a'].params.length" if _fibre else '0.01'))],
             modifies=['g.ghost_edges[*]'])

# requests that are disjoint from different sets of partners are different requests (merging them would drop a constraint)
_RQC = dict(source=const('trx A'), destination=const('trx B'), tsp=const('t'), tsp_mode=const('m'), baud_rate=const(32e9),
            nodes_list=const(['trx B']), loose_list=const(['STRICT']), spacing=const(50e9), power=const(0.001), nb_channel=const(80),
            f_min=const(191.3e12), f_max=const(196.1e12), format=const('m'), OSNR=const(11), roll_off=const(0.15), tx_power=const(0.001),
            bidir=const(False))


def _DJ(*ids):
    return obj('<ns>', disjunction_id=string(), disjunctions_req=const(list(ids)))


for _lab, _groups, _same in (('partners {d} and {d, c}', [('a', 'd'), ('b', 'd'), ('b', 'c')], False),
                             ('partners {d, c} and {d}', [('a', 'd'), ('a', 'c'), ('b', 'd')], False),
                             ('same partners {d}', [('a', 'd'), ('b', 'd')], True),
                             ('one of them in no group', [('a', 'd')], False)):
    contract('gnpy.topology.request.compare_reqs', name=f'gnpy.topology.request.compare_reqs[otherwise identical, {_lab}]',
             props=['C12', 'C16', 'C19'],
             params={'req1': obj('<ns>', request_id=const('a'), **_RQC), 'req2': obj('<ns>', request_id=const('b'), **_RQC),
                     'disjlist': lst(*[_DJ(*g) for g in _groups])},
             ensures=[('merged_only_with_the_same_partners', f'iff(result, {_same})')], use_at_calls=False, modifies=[])

# ---------------------------------------------------------------- find_reversed_path on concrete path shapes (C13, C19)
def _n(cls, **kw):
    return obj(cls, uid=string(), **kw)
_RB = shared('roadm B', _n('Roadm'))
_REV1 = obj('OMS', oms_id=integer(), el_list=lst(_RB, _n('Edfa'), _n('Fiber'), _n('Roadm')))          # B -> A
_REV2 = obj('OMS', oms_id=integer(), el_list=lst(_n('Roadm'), _n('Edfa'), _n('Fiber'), _n('Edfa'), _RB))  # C -> B
_F1 = shared('oms 1', obj('OMS', oms_id=integer(), reversed_oms=_REV1))
_F2 = shared('oms 2', obj('OMS', oms_id=integer(), reversed_oms=_REV2))
contract('gnpy.topology.request.find_reversed_path', name='gnpy.topology.request.find_reversed_path[one OMS]', props=['C13', 'C19'],
         params={'pth': lst(_n('Transceiver'), _n('Roadm'), _n('Edfa', oms=_F1), _n('Fiber', oms=_F1), _n('Roadm'), _n('Transceiver'))},
         let={'r': 'pth[2].oms.reversed_oms.el_list'},
         ensures=[('from_destination_to_source_over_the_paired_oms', 'len(result) == 6 and result[0] is pth[5] and result[5] is pth[0] and '
                   'result[1] is r[0] and result[2] is r[1] and result[3] is r[2] and result[4] is r[3]')],
         use_at_calls=False, modifies=[])
contract('gnpy.topology.request.find_reversed_path', name='gnpy.topology.request.find_reversed_path[two OMS]', props=['C13', 'C19'],
         params={'pth': lst(_n('Transceiver'), _n('Roadm'), _n('Edfa', oms=_F1), _n('Fiber', oms=_F1), _n('Edfa', oms=_F1), _n('Roadm'),
                            _n('Edfa', oms=_F2), _n('Fiber', oms=_F2), _n('Roadm'), _n('Transceiver'))},
         let={'r1': 'pth[2].oms.reversed_oms.el_list', 'r2': 'pth[6].oms.reversed_oms.el_list'},
         # the paired OMS in reverse order of crossing, the ROADM they share once, destination first and source last
         ensures=[('length', 'len(result) == 10'), ('ends', 'result[0] is pth[9] and result[9] is pth[0]'),
                  ('second_oms_first', 'all(result[1 + k] is r2[k] for k in range(5))'),
                  ('then_the_first_oms_without_repeating_the_shared_roadm', 'all(result[5 + k] is r1[k] for k in range(1, 4)) and result[5] is r1[0]')],
         use_at_calls=False, modifies=[])
_UNI = shared('oms u', obj('OMS', oms_id=integer(), reversed_oms=const(None)))
contract('gnpy.topology.request.find_reversed_path', name='gnpy.topology.request.find_reversed_path[no opposite direction]', props=['C13', 'C19'],
         params={'pth': lst(_n('Transceiver'), _n('Roadm'), _n('Edfa', oms=_UNI), _n('Fiber', oms=_UNI), _n('Roadm'), _n('Transceiver'))},
         raises={'ValueError': 'True'}, ensures=[], use_at_calls=False, modifies=[])

# ---- synchronisation vectors (C12): a vector repeated under another id is kept once, different vectors are all kept
_DJ = lambda a, b: obj('Disjunction', disjunction_id=string(), disjunctions_req=lst(const(a), const(b)))
contract('gnpy.topology.request.deduplicate_disjunctions', name='gnpy.topology.request.deduplicate_disjunctions[same pair twice]', props=['C12'],
         params={'disjn': lst(_DJ('r1', 'r2'), _DJ('r2', 'r1'))},
         requires=[('two_ids', 'disjn[0].disjunction_id != disjn[1].disjunction_id')],
         ensures=[('kept_once', 'len(result) == 1 and result[0] is disjn[0]'), ('argument_untouched', 'len(disjn) == 2')],
         use_at_calls=False, modifies=[])
contract('gnpy.topology.request.deduplicate_disjunctions', name='gnpy.topology.request.deduplicate_disjunctions[different pairs]', props=['C12'],
         params={'disjn': lst(_DJ('r1', 'r2'), _DJ('r1', 'r3'), _DJ('r2', 'r3'))},
         ensures=[('all_kept_in_order', 'len(result) == 3 and result[0] is disjn[0] and result[1] is disjn[1] and result[2] is disjn[2]')],
         use_at_calls=False, modifies=[])
_OMSE = lambda: obj('OMS', oms_id=integer(), el_list=lst(obj('Roadm', uid=string()), obj('Fiber', uid=string()), obj('Roadm', uid=string())))
contract('gnpy.topology.request.is_adjacent', name='gnpy.topology.request.is_adjacent[unrelated lines]', props=['C11'],
         params={'oms1': _OMSE(), 'oms2': _OMSE()}, ensures=[('not_adjacent', 'result == False')], use_at_calls=False, modifies=[])
_RS = shared('the roadm', obj('Roadm', uid=string()))
contract('gnpy.topology.request.is_adjacent', name='gnpy.topology.request.is_adjacent[egress is ingress]', props=['C11'],
         params={'oms1': obj('OMS', oms_id=integer(), el_list=lst(obj('Roadm', uid=string()), obj('Fiber', uid=string()), _RS)),
                 'oms2': obj('OMS', oms_id=integer(), el_list=lst(_RS, obj('Fiber', uid=string()), obj('Roadm', uid=string())))},
         ensures=[('adjacent', 'result == True')], use_at_calls=False, modifies=[])
contract('gnpy.topology.request.is_adjacent', name='gnpy.topology.request.is_adjacent[opposite directions of one line]', props=['C11'],
         params={'oms1': obj('OMS', oms_id=integer(), el_list=lst(_RS, obj('Fiber', uid=string()), obj('Roadm', uid=string()))),
                 'oms2': obj('OMS', oms_id=integer(), el_list=lst(obj('Roadm', uid=string()), obj('Fiber', uid=string()), _RS))},
         # shares a ROADM but oms1 does not end where oms2 starts
         ensures=[('not_adjacent', 'result == False')], use_at_calls=False, modifies=[])
