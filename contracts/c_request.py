"""gnpy/topology/request.py — feasibility verdict, routing helpers, disjunction helpers (C13, C11, C12, C19)."""
from .common import *   # noqa

RX = obj('Transceiver', uid=string(), snr_01nm=opt(vec('nrx')), total_penalty=opt(vec('nrx')), snr=opt(vec('nrx')),
         penalties=dct())
REQ_FIXED = obj('<ns>', request_id=string(), source=string(), destination=string(), nodes_list=lst(), baud_rate=real(),
                OSNR=real(), tsp_mode=string(), bidir=const(False), tx_osnr=real(), penalties=dct())

# summary of propagate() for the verdict: it (re)computes the receiver figures of the LAST element of the path it is given
contract('gnpy.topology.request.propagate', name='gnpy.topology.request.propagate[call-site summary]', trusted=True, props=[],
         params={'path': lst(), 'req': obj('<ns>'), 'equipment': dct()},
         ensures=[('computed', 'path[len(path) - 1].snr_01nm is not None and path[len(path) - 1].total_penalty is not None')],
         modifies=[('path[len(path) - 1].snr_01nm', vec('nrx2')), ('path[len(path) - 1].total_penalty', vec('nrx2')),
                   ('path[len(path) - 1].snr', vec('nrx2'))],
         returns=obj('SpectralInformation'),
         note='summary: propagate writes the receiver figures on the last element of the path object it receives; the per-'
              'element loop is proved in c_path.py, the receiver arithmetic in c_elements.py')
contract('gnpy.topology.request.find_reversed_path', trusted=True, props=[],
         params={'pth': lst()}, ensures=[], returns=expr('pth[0].ghost_reversed'), pure=True,
         note='ghost: the reverse path (graph walk over the paired OMS, C15 bounded) is carried by the first element')
contract('gnpy.topology.request.penalty_msg', trusted=True, props=[],
         params={'total_path': obj('<ns>'), 'msg': string(), 'min_ind': integer(), 'osnr': real(), 'margin': real()},
         ensures=[], returns=string(), pure=True, note='message formatting only')

EQ_SI = dct(SI=dct(default=obj('<ns>', sys_margins=real())))
SPEC_VERDICT = '''
def WORST(rx):
    return min(rx.snr_01nm - rx.total_penalty)
'''
contract('gnpy.topology.request.compute_path_with_disjunction',
         name='gnpy.topology.request.compute_path_with_disjunction[request loop body, fixed mode, one direction]', loop=0,
         loop_returns=['path_res_list', 'pathreq', 'total_path'], props=['C13', 'C16'], use_at_calls=False,
         params={'i': const(0), 'pathreq': REQ_FIXED, 'pathlist': lst(lst(obj('Transceiver', uid=string(), ghost_reversed=lst()), RX)),
                 'network': obj('<ns>'), 'equipment': EQ_SI, 'redesign': const(False), 'path_res_list': lst(),
                 'reversed_path_res_list': lst(), 'propagated_reversed_path_res_list': lst(), 'total_nb_requests': const(1)},
         spec=SPEC_VERDICT,
         let={'rx': 'result[2][len(result[2]) - 1]', 'blocked': "hasattr(result[1], 'blocking_reason')",
              'thr': "pathreq.OSNR + equipment['SI']['default'].sys_margins"},
         # accepted exactly when the worst channel (GSNR in 0.1 nm minus penalties, rounded to 0.01 dB) clears the threshold
         ensures=[('verdict', 'iff(blocked, round(WORST(rx), 2) < thr)'),
                  ('reason', "implies(blocked, result[1].blocking_reason == 'MODE_NOT_FEASIBLE')"),
                  # the propagation result is recorded on a fresh copy: the designed network's receiver is untouched
                  ('works_on_a_copy', 'rx is not pathlist[0][1] and result[0][0] is result[2]')],
         modifies=['pathreq.blocking_reason', 'path_res_list[*]', 'reversed_path_res_list[*]',
                   'propagated_reversed_path_res_list[*]'])


RX_B = obj('Transceiver', uid=string(), snr_01nm=opt(vec('nrxb')), total_penalty=opt(vec('nrxb')), snr=opt(vec('nrxb')), penalties=dct())
REQ_BIDIR = extend(REQ_FIXED, bidir=const(True))
contract('gnpy.topology.request.compute_path_with_disjunction',
         name='gnpy.topology.request.compute_path_with_disjunction[request loop body, fixed mode, both directions]', loop=0,
         loop_returns=['path_res_list', 'pathreq', 'total_path', 'propagated_reversed_path'], props=['C13', 'C16'],
         use_at_calls=False,
         params={'i': const(0), 'pathreq': REQ_BIDIR,
                 'pathlist': lst(lst(obj('Transceiver', uid=string(), ghost_reversed=lst(obj('Transceiver', uid=string()), RX_B)), RX)),
                 'network': obj('<ns>'), 'equipment': EQ_SI, 'redesign': const(False), 'path_res_list': lst(),
                 'reversed_path_res_list': lst(), 'propagated_reversed_path_res_list': lst(), 'total_nb_requests': const(1)},
         spec=SPEC_VERDICT,
         let={'rx': 'result[2][len(result[2]) - 1]', 'rrx': 'result[3][len(result[3]) - 1]',
              'blocked': "hasattr(result[1], 'blocking_reason')", 'thr': "pathreq.OSNR + equipment['SI']['default'].sys_margins"},
         # bidirectional: feasible iff the worst channel clears the threshold on the path AND on the reverse path
         ensures=[('verdict_both_directions', 'iff(blocked, round(WORST(rx), 2) < thr or round(WORST(rrx), 2) < thr)'),
                  ('reason', "implies(blocked, result[1].blocking_reason == 'MODE_NOT_FEASIBLE')"),
                  ('reverse_direction_on_a_copy', 'rrx is not pathlist[0][0].ghost_reversed[1] and rx is not pathlist[0][1]')],
         modifies=['pathreq.blocking_reason', 'path_res_list[*]', 'reversed_path_res_list[*]',
                   'propagated_reversed_path_res_list[*]'])
