"""Export of a designed network and the process-wide simulation parameters (C17)."""
from .common import *   # noqa

LOC = obj('<nt>', latitude=real(), longitude=real(), city=string(), region=string())
META = dct(location=LOC)

contract('gnpy.core.elements.Fused.to_json', props=['C17'],
         params={'self': obj('Fused', uid=string(), loss=real(), metadata=META)},
         ensures=[('exports_its_loss', "result['params']['loss'] == self.loss and result['uid'] == self.uid and result['type'] == 'Fused'")],
         use_at_calls=False, modifies=[])

contract('gnpy.core.elements.Edfa.to_json', props=['C17'],
         params={'self': obj('Edfa', uid=string(), params=obj('<ns>', type_variety=string()), effective_gain=opt(real()),
                             delta_p=opt(real()), tilt_target=opt(real()), out_voa=opt(real()), in_voa=opt(real()), metadata=META)},
         let={'op': "result['operational']"},
         # every design result that the next design run will consume is exported, gain to 1e-6 dB and tilt to 1e-5 dB
         ensures=[('gain', "(op['gain_target'] is None) == (self.effective_gain is None) and "
                           "implies(self.effective_gain is not None, op['gain_target'] == round(self.effective_gain, 6))"),
                  ('delta_p', "(op['delta_p'] is None) == (self.delta_p is None) and implies(self.delta_p is not None, op['delta_p'] == self.delta_p)"),
                  ('tilt', "(op['tilt_target'] is None) == (self.tilt_target is None) and "
                           "implies(self.tilt_target is not None, op['tilt_target'] == round(self.tilt_target, 5))"),
                  ('voas', "(op['out_voa'] is None) == (self.out_voa is None) and implies(self.out_voa is not None, op['out_voa'] == self.out_voa) and "
                           "(op['in_voa'] is None) == (self.in_voa is None) and implies(self.in_voa is not None, op['in_voa'] == self.in_voa)"),
                  ('identity', "result['uid'] == self.uid and result['type'] == 'Edfa' and result['type_variety'] == self.params.type_variety")],
         use_at_calls=False, modifies=[])

contract('gnpy.core.elements.Transceiver.to_json', props=['C17'],
         params={'self': obj('Transceiver', uid=string(), metadata=META)},
         ensures=[('identity', "result['uid'] == self.uid and result['type'] == 'Transceiver'")], use_at_calls=False, modifies=[])

FIB_P = obj('<ns>', length=real(0), att_in=real(), con_in=real(), con_out=real(), loss_coef=real(), pmd_coef=real(),
            pmd_coef_defined=boolean(), f_loss_ref=real(), lumped_losses=lst(dct(position=real(), loss=real()), dct(position=real(), loss=real())))
contract('gnpy.core.elements.Fiber.to_json', name='gnpy.core.elements.Fiber.to_json[scalar loss coefficient]', props=['C17'],
         params={'self': obj('Fiber', uid=string(), type_variety=string(), params=FIB_P, metadata=META)},
         let={'p': "result['params']"},
         # length in km to 1e-6 (1 mm), loss coefficient in dB/km to 1e-6, lumped input loss and connectors as they are
         ensures=[('length_km', "p['length'] == round(self.params.length * 1e-3, 6) and p['length_units'] == 'km'"),
                  ('losses', "p['att_in'] == self.params.att_in and p['con_in'] == self.params.con_in and p['con_out'] == self.params.con_out"),
                  ('loss_coef_db_per_km', "p['loss_coef'] == round(self.params.loss_coef * 1e3, 6) and 'loss_coef_per_frequency' not in p"),
                  ('pmd_only_if_user_defined', "iff('pmd_coef' in p, self.params.pmd_coef_defined) and "
                                               "implies(self.params.pmd_coef_defined, p['pmd_coef'] == self.params.pmd_coef)"),
                  ('lumped_losses_exported', "len(p['lumped_losses']) == 2 and all(p['lumped_losses'][k]['position'] == self.params.lumped_losses[k]['position'] "
                                             "and p['lumped_losses'][k]['loss'] == self.params.lumped_losses[k]['loss'] for k in range(2))"),
                  ('identity', "result['uid'] == self.uid and result['type'] == 'Fiber' and result['type_variety'] == self.type_variety")],
         use_at_calls=False, modifies=[])
contract('gnpy.core.elements.Fiber.to_json', name='gnpy.core.elements.Fiber.to_json[one lumped loss]', props=['C17'],
         params={'self': obj('Fiber', uid=string(), type_variety=string(), metadata=META,
                             params=extend(FIB_P, lumped_losses=lst(dct(position=real(), loss=real()))))},
         let={'p': "result['params']"},
         ensures=[('the_single_lumped_loss_is_exported', "'lumped_losses' in p and len(p['lumped_losses']) == 1 and "
                                                         "p['lumped_losses'][0]['position'] == self.params.lumped_losses[0]['position'] and "
                                                         "p['lumped_losses'][0]['loss'] == self.params.lumped_losses[0]['loss']")],
         use_at_calls=False, modifies=[])
contract('gnpy.core.elements.Fiber.to_json', name='gnpy.core.elements.Fiber.to_json[no lumped loss]', props=['C17'],
         params={'self': obj('Fiber', uid=string(), type_variety=string(), params=extend(FIB_P, lumped_losses=lst()), metadata=META)},
         ensures=[('no_empty_list_exported', "'lumped_losses' not in result['params']")], use_at_calls=False, modifies=[])

def RD_EXP(pd_pow, pd_psd, pd_psw):
    return obj('Roadm', uid=string(), type_variety=string(), restrictions=dct(), metadata=META,
                 target_pch_out_dbm=opt(real()), target_psd_out_mWperGHz=opt(real()), target_out_mWperSlotWidth=opt(real()),
                 per_degree_pch_out_dbm=pd_pow, per_degree_pch_psd=pd_psd, per_degree_pch_psw=pd_psw, per_degree_impairments=const({}),
                 params=obj('<ns>', design_bands=const([]), per_degree_design_bands=const({})))
for _lab, _sh in (('no per-degree target', (dct(), dct(), dct())),
                  ('per-degree power and PSD targets', (dct_k({'deg 1': real()}), dct_k({'deg 2': real(), 'deg 3': real()}), dct())),
                  ('per-degree slot-width targets', (dct(), dct(), dct_k({'deg 4': real()})))):
  contract('gnpy.core.elements.Roadm.to_json', name=f'gnpy.core.elements.Roadm.to_json[{_lab}]', props=['C17'],
         params={'self': RD_EXP(*_sh)},
         requires=[('one_policy', 'self.target_pch_out_dbm is not None or self.target_psd_out_mWperGHz is not None or '
                                  'self.target_out_mWperSlotWidth is not None')],
         let={'p': "result['params']"},
         # the node's equalisation policy is exported under its own key with its own value; per-degree dictionaries as they are
         ensures=[('power_target', "implies(self.target_pch_out_dbm is not None, p['target_pch_out_db'] == self.target_pch_out_dbm and "
                                   "'target_psd_out_mWperGHz' not in p and 'target_out_mWperSlotWidth' not in p)"),
                  ('psd_target', "implies(self.target_pch_out_dbm is None and self.target_psd_out_mWperGHz is not None, "
                                 "p['target_psd_out_mWperGHz'] == self.target_psd_out_mWperGHz and 'target_pch_out_db' not in p "
                                 "and 'target_out_mWperSlotWidth' not in p)"),
                  ('psw_target', "implies(self.target_pch_out_dbm is None and self.target_psd_out_mWperGHz is None, "
                                 "p['target_out_mWperSlotWidth'] == self.target_out_mWperSlotWidth and 'target_pch_out_db' not in p "
                                 "and 'target_psd_out_mWperGHz' not in p)"),
                  ('per_degree_exported_iff_present', "iff('per_degree_pch_out_db' in p, len(self.per_degree_pch_out_dbm) > 0) and "
                                                      "iff('per_degree_psd_out_mWperGHz' in p, len(self.per_degree_pch_psd) > 0) and "
                                                      "iff('per_degree_psd_out_mWperSlotWidth' in p, len(self.per_degree_pch_psw) > 0)"),
                  ('per_degree_same_objects', "implies('per_degree_pch_out_db' in p, p['per_degree_pch_out_db'] is self.per_degree_pch_out_dbm) and "
                                              "implies('per_degree_psd_out_mWperGHz' in p, p['per_degree_psd_out_mWperGHz'] is self.per_degree_pch_psd) and "
                                              "implies('per_degree_psd_out_mWperSlotWidth' in p, p['per_degree_psd_out_mWperSlotWidth'] is self.per_degree_pch_psw)"),
                  ('identity', "result['uid'] == self.uid and result['type'] == 'Roadm' and result['type_variety'] == self.type_variety")],
         use_at_calls=False, modifies=[])

# the design bands the operator gave to a ROADM (one band, or several) are part of its export; none given, none exported
_BAND = lambda: dct(f_min=real(), f_max=real(), spacing=real())
for _lab, _bands in (('one design band given', lst(_BAND())), ('two design bands given', lst(_BAND(), _BAND())), ('no design band given', const([]))):
    contract('gnpy.core.elements.Roadm.to_json', name=f'gnpy.core.elements.Roadm.to_json[{_lab}]', props=['C17'],
             params={'self': extend(RD_EXP(dct(), dct(), dct()), target_pch_out_dbm=real(),
                                    params=obj('<ns>', design_bands=_bands, per_degree_design_bands=const({})))},
             let={'p': "result['params']"},
             ensures=[('design_bands_exported_iff_given', "iff('design_bands' in p, len(self.params.design_bands) > 0) and "
                                                          "implies('design_bands' in p, p['design_bands'] is self.params.design_bands)")],
             use_at_calls=False, modifies=[])

# ---------------------------------------------------------------- process-wide simulation parameters
NLI = obj('NLIParams', method=string(), dispersion_tolerance=real(), phase_shift_tolerance=real(), computed_channels=opt(lst(integer(), integer())),
          computed_number_of_channels=opt(integer()))
RAMAN = obj('RamanParams', flag=boolean(), method=string(), order=integer(), result_spatial_resolution=real(),
            solver_spatial_resolution=real())
H_SAVE = '''
def save_restore(nli, raman):
    # what estimate_raman_gain does to put the process-wide parameters back: rebuild them from their to_json()
    return NLIParams(**nli.to_json()), RamanParams(**raman.to_json())
'''
contract('harness:simparams_save_restore', harness=H_SAVE, module='gnpy.core.parameters', props=['C17'],
         params={'nli': NLI, 'raman': RAMAN},
         # NLIParams stores its method in lower case; a stored method is therefore a fixed point of lower()
         requires=[('method_is_stored_lowercase', 'nli.method == nli.method.lower()')],
         let={'n2': 'result[0]', 'r2': 'result[1]'},
         ensures=[('nli_unchanged', 'n2.method == nli.method and n2.dispersion_tolerance == nli.dispersion_tolerance and '
                                    'n2.phase_shift_tolerance == nli.phase_shift_tolerance'),
                  ('nli_channel_selection_unchanged', '(n2.computed_channels is None) == (nli.computed_channels is None) and '
                                                      'implies(nli.computed_channels is not None, n2.computed_channels is nli.computed_channels) and '
                                                      '(n2.computed_number_of_channels is None) == (nli.computed_number_of_channels is None) and '
                                                      'implies(nli.computed_number_of_channels is not None, '
                                                      'n2.computed_number_of_channels == nli.computed_number_of_channels)'),
                  ('raman_unchanged', 'iff(r2.flag, raman.flag) and r2.method == raman.method and r2.order == raman.order and '
                                      'r2.result_spatial_resolution == raman.result_spatial_resolution and '
                                      'r2.solver_spatial_resolution == raman.solver_spatial_resolution')],
         modifies=[])

# estimate_raman_gain: the real function, with the two physics callees replaced by opaque results (they receive the
# spectrum and the fibre only - no handle on SimParams) and SimParams._shared_dict bound to the symbolic dict `shared`.
from pyvc.vals import Forall as _Forall, Obj as _Obj, Builtin as _Builtin, Mat as _Mat, SV as _SV, fresh_fun as _fresh_fun
from pyvc.shapes import BCtx as _BCtx
import z3 as _z3
import itertools as _it
_n = _it.count()


def _opaque_srs(it, a, k):
    f = _fresh_fun('loss_profile', _z3.IntSort(), _z3.IntSort(), _z3.RealSort())
    si = a[0]
    n = si.fields['_number_of_channels']
    # ASSUMED: a power profile is positive (RamanSolver, C05)
    it.p.assume(_Forall(0, n, lambda i: _SV(f(i.t, _z3.IntVal(2)) > 0)))
    if len(a) > 1 and isinstance(a[1], _Obj):
        a[1].fields['ghost_probe_pch'] = si.fields['_pch']       # ghost: the channel powers the solver is handed
    return _Obj('<ns>', {'loss_profile': _Mat(n, 3, lambda i, j: _SV(f(i if not isinstance(i, int) else _z3.IntVal(i),
                                                                       j if not isinstance(j, int) else _z3.IntVal(j))))})


contract('gnpy.core.info.create_input_spectral_information', name='gnpy.core.info.create_input_spectral_information[call-site summary]',
         trusted=True, props=[], spec=SPEC_INV,
         params={'f_min': real(), 'f_max': real(), 'roll_off': real(), 'baud_rate': real(), 'spacing': real(), 'tx_osnr': real(),
                 'tx_power': real()},
         ensures=[('inv', 'INV(result)'), ('uniform_launch_power', 'forall(lambda i: result._pch[i] == tx_power, NCH(result))')],
         returns=SI(), pure=True,
         note='ASSUMED: returns a well-formed uniform comb, every channel at tx_power (no per-channel offset is passed at this call site)')
OV_RAMAN = {
    ('gnpy.core.parameters', 'SimParams._shared_dict'): lambda it: it.p.live['equipment']['ghost_shared'],
    ('gnpy.core.network', 'RamanSolver'): lambda it: _Obj('<ns>', {'calculate_stimulated_raman_scattering': _Builtin('srs', _opaque_srs)}),
}
EQ_RAMAN = dct(ghost_shared=dct(nli_params=NLI, raman_params=RAMAN), SI=dct(default=obj('<ns>', f_min=real(), f_max=real(), roll_off=real(), baud_rate=real(), spacing=real(), tx_osnr=real())))
contract('gnpy.core.network.estimate_raman_gain', props=['C17', 'C09'], overrides=OV_RAMAN, use_at_calls=False,
         prop_clauses={'C09': ['probe_enters_the_fibre_behind_padding_and_input_connector', 'call '],
                       'C17': ['nli_restored', 'raman_restored', 'frame', 'call ']},
         params={'node': obj('RamanFiber', uid=string(), loss=real(), params=obj('<ns>', con_in=real(), att_in=real(), con_out=real())),
                 'equipment': EQ_RAMAN, 'power_dbm': real()},
         requires=[('method_is_stored_lowercase', "equipment['ghost_shared']['nli_params'].method == equipment['ghost_shared']['nli_params'].method.lower()")],
         let={'shared': "equipment['ghost_shared']", 'n2': "shared['nli_params']", 'r2': "shared['raman_params']",
              'n1': "old(equipment['ghost_shared']['nli_params'])", 'r1': "old(equipment['ghost_shared']['raman_params'])"},
         # the Raman gain estimate runs under its own solver settings and puts back exactly what it found
         ensures=[('nli_restored', 'n2.method == n1.method and n2.dispersion_tolerance == n1.dispersion_tolerance and '
                                   'n2.phase_shift_tolerance == n1.phase_shift_tolerance and '
                                   '(n2.computed_channels is None) == (n1.computed_channels is None) and '
                                   '(n2.computed_number_of_channels is None) == (n1.computed_number_of_channels is None) and '
                                   'implies(n1.computed_number_of_channels is not None, n2.computed_number_of_channels == n1.computed_number_of_channels)'),
                  ('raman_restored', 'iff(r2.flag, r1.flag) and r2.method == r1.method and r2.order == r1.order and '
                                     'r2.result_spatial_resolution == r1.result_spatial_resolution and '
                                     'r2.solver_spatial_resolution == r1.solver_spatial_resolution'),
                  # the gain is estimated for the power that really enters the fibre: three channels' worth of the design power
                  # per probe channel, behind the padding attenuator and the input connector
                  ('probe_enters_the_fibre_behind_padding_and_input_connector',
                   'forall(lambda i: node.ghost_probe_pch[i] == 3 * (spec_db2lin(power_dbm) * 1e-3) * (1 / spec_db2lin(node.params.con_in + node.params.att_in)), '
                   'len(node.ghost_probe_pch))')],
         modifies=["equipment['ghost_shared'][*]", 'node.estimated_gain', 'node.ghost_probe_pch'],
         note='callees create_input_spectral_information and RamanSolver.calculate_stimulated_raman_scattering are opaque '
              '(ASSUMED not to write SimParams: they are handed the spectrum and the fibre only)')

# a multi-band amplifier exports, for every band amplifier, the designed settings that the next design run consumes
_BAND_AMP = lambda: obj('Edfa', uid=string(), params=obj('<ns>', type_variety=string()), effective_gain=real(), delta_p=opt(real()),
                        operational=obj('<ns>', delta_p=opt(real())), tilt_target=opt(real()), out_voa=opt(real()), in_voa=opt(real()))
contract('gnpy.core.elements.Multiband_amplifier.to_json', props=['C17'],
         params={'self': obj('Multiband_amplifier', uid=string(), params=obj('<ns>', type_variety=string()), metadata=META,
                             amplifiers=dct_k({'LBAND': _BAND_AMP(), 'CBAND': _BAND_AMP()}))},
         let={'a': "result['amplifiers']", 'src': "[self.amplifiers['LBAND'], self.amplifiers['CBAND']]"},
         ensures=[('one_entry_per_band_amplifier', "len(a) == 2 and all(a[k]['type_variety'] == src[k].params.type_variety for k in range(2))"),
                  ('gain', "all(a[k]['operational']['gain_target'] == round(src[k].effective_gain, 6) for k in range(2))"),
                  # the designed power offset, not the operator's input (None when it was left to the design)
                  ('designed_delta_p', "all((a[k]['operational']['delta_p'] is None) == (src[k].delta_p is None) and "
                                       "implies(src[k].delta_p is not None, a[k]['operational']['delta_p'] == src[k].delta_p) for k in range(2))"),
                  ('tilt', "all((a[k]['operational']['tilt_target'] is None) == (src[k].tilt_target is None) and "
                           "implies(src[k].tilt_target is not None, a[k]['operational']['tilt_target'] == src[k].tilt_target) for k in range(2))"),
                  ('voas', "all((a[k]['operational']['out_voa'] is None) == (src[k].out_voa is None) and "
                           "implies(src[k].out_voa is not None, a[k]['operational']['out_voa'] == src[k].out_voa) and "
                           "(a[k]['operational']['in_voa'] is None) == (src[k].in_voa is None) and "
                           "implies(src[k].in_voa is not None, a[k]['operational']['in_voa'] == src[k].in_voa) for k in range(2))"),
                  ('identity', "result['uid'] == self.uid and result['type'] == 'Multiband_amplifier' and result['type_variety'] == self.params.type_variety")],
         use_at_calls=False, modifies=[])
