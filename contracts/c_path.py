"""gnpy/topology/request.py propagate(): one arbitrary iteration of the path loop per element class (C01, C02 bridge)."""
from .common import *   # noqa
from .c_elements import SPEC_EL, FUSED, ROADM, EDFA, SPEC_NF
from .c_fiber import FIBER, SPEC_LUMP

SPEC_PATH = SPEC_EL + '''
from gnpy.core.info import is_in_band
def NOT_BETTER(si, osi, n):
    # GSNR, OSNR_ASE and SNR_NLI of every channel are not higher than before (cross-multiplied: zero noise allowed)
    return forall(lambda i: si._signal_ratio[i] * (osi._ase_ratio[i] + osi._nli_ratio[i]) <= osi._signal_ratio[i] * (si._ase_ratio[i] + si._nli_ratio[i])
                  and si._signal_ratio[i] * osi._ase_ratio[i] <= osi._signal_ratio[i] * si._ase_ratio[i]
                  and si._signal_ratio[i] * osi._nli_ratio[i] <= osi._signal_ratio[i] * si._nli_ratio[i], n)
def UNCHANGED(si, osi, n):
    return forall(lambda i: si._signal_ratio[i] == osi._signal_ratio[i] and si._ase_ratio[i] == osi._ase_ratio[i]
                  and si._nli_ratio[i] == osi._nli_ratio[i], n)
'''
_PATH3 = lambda el: lst(obj('Fiber', uid=string()), el, obj('Fiber', uid=string()))

# passive elements: quality exactly unchanged; the same spectrum object continues along the path
for _nm, _el in (('Fused', FUSED), ('Roadm', ROADM)):
    contract('gnpy.topology.request.propagate', name=f'gnpy.topology.request.propagate[path loop body, {_nm}]', loop=0,
             loop_returns=['si', 'roadm_osnr'], props=['C02', 'C01'], use_at_calls=False,
             params={'i': const(1), 'el': shared('the_el', _el), 'path': _PATH3(shared('the_el', _el)), 'si': SI(),
                     'roadm_osnr': lst()}, spec=SPEC_PATH,
             requires=[('inv', 'INV(si)')] +
                      ([('one_policy', "path[2].uid in el.per_degree_pch_out_dbm or el.target_pch_out_dbm is not None or "
                                       "el.target_psd_out_mWperGHz is not None or el.target_out_mWperSlotWidth is not None or "
                                       "path[2].uid in el.per_degree_pch_psd or path[2].uid in el.per_degree_pch_psw"),
                        ('ingress_known', 'path[0].uid in el.ref_pch_in_dbm'),
                        ('positive_widths', 'forall(lambda i: si._baud_rate[i] > 0 and si._slot_width[i] > 0, NCH(si))'),
                        ('positive_targets', 'implies(path[2].uid in el.per_degree_pch_psd, el.per_degree_pch_psd[path[2].uid] > 0) and '
                                             'implies(path[2].uid in el.per_degree_pch_psw, el.per_degree_pch_psw[path[2].uid] > 0) and '
                                             'implies(el.target_psd_out_mWperGHz is not None, el.target_psd_out_mWperGHz > 0) and '
                                             'implies(el.target_out_mWperSlotWidth is not None, el.target_out_mWperSlotWidth > 0)')]
                       if _nm == 'Roadm' else []),
             ensures=[('same_spectrum_object', 'result[0] is si'), ('inv', 'INV(result[0])'),
                      ('quality_unchanged', 'UNCHANGED(result[0], old(si), NCH(si))')] +
                     ([('add_drop_osnr_recorded_once', 'len(result[1]) == len(old(roadm_osnr)) + 1')] if _nm == 'Roadm' else
                      [('no_osnr_entry', 'len(result[1]) == len(old(roadm_osnr))')]),
             modifies=['si.*', 'el.*', 'roadm_osnr[*]'])

contract('gnpy.topology.request.propagate', name='gnpy.topology.request.propagate[path loop body, Fiber]', loop=0,
         loop_returns=['si', 'roadm_osnr'], props=['C02', 'C01'], use_at_calls=False,
         params={'i': const(1), 'el': shared('the_el', FIBER), 'path': _PATH3(shared('the_el', FIBER)), 'si': SI(),
                 'roadm_osnr': lst()}, spec=SPEC_PATH,
         requires=[('inv', 'INV(si)'), ('length', 'el.params._length >= 0')],
         ensures=[('same_spectrum_object', 'result[0] is si'), ('inv', 'INV(result[0])'),
                  ('quality_not_better', 'NOT_BETTER(result[0], old(si), NCH(si))'),
                  ('osnr_ase_kept', 'forall(lambda i: si._signal_ratio[i] * old(si._ase_ratio)[i] == old(si._signal_ratio)[i] * si._ase_ratio[i], NCH(si))')],
         modifies=['si.*', 'el.*', 'roadm_osnr[*]'])

_EDFA = EDFA('variable_gain')
contract('gnpy.topology.request.propagate', name='gnpy.topology.request.propagate[path loop body, Edfa]', loop=0,
         loop_returns=['si', 'roadm_osnr'], props=['C02', 'C01', 'C07'], use_at_calls=False,
         params={'i': const(1), 'el': shared('the_el', _EDFA), 'path': _PATH3(shared('the_el', _EDFA)), 'si': SI(),
                 'roadm_osnr': lst()}, spec=SPEC_PATH,
         let={'band': 'el.params.bands[0]', 'mask': "is_in_band(si._frequency, si._slot_width, el.params.bands[0])",
              'emb': "mask_index(is_in_band(si._frequency, si._slot_width, el.params.bands[0]))", 'm': 'emb[0]', 'iota': 'emb[1]',
              'pi': "sort_perm(si._frequency[is_in_band(si._frequency, si._slot_width, el.params.bands[0])])[0]",
              'out': 'result[0]'},
         requires=[('inv', 'INV(si)'), ('physical', 'forall(lambda i: si._frequency[i] > 0 and si._baud_rate[i] > 0, NCH(si))')],
         raises={'ValueError': None, 'IndexError': None, 'SpectrumError': None},
         ensures=[('inv', 'INV(out)'),
                  # every channel that leaves the amplifier is one in-band input channel, with its own data
                  ('channels_are_inband_inputs', 'forall(lambda k: out._frequency[k] == old(si._frequency)[iota(pi(k))] and '
                                                 'out._baud_rate[k] == old(si._baud_rate)[iota(pi(k))] and out._label[k] == old(si._label)[iota(pi(k))], m)'),
                  ('count', 'out._number_of_channels == m'),
                  # an amplifier can only lower OSNR_ASE; SNR_NLI of each channel is kept; GSNR not higher
                  ('snr_nli_kept', 'forall(lambda k: out._signal_ratio[k] * old(si._nli_ratio)[iota(pi(k))] == '
                                   'old(si._signal_ratio)[iota(pi(k))] * out._nli_ratio[k], m)'),
                  ('osnr_ase_not_up', 'forall(lambda k: out._signal_ratio[k] * old(si._ase_ratio)[iota(pi(k))] <= '
                                      'old(si._signal_ratio)[iota(pi(k))] * out._ase_ratio[k], m)'),
                  ('gsnr_not_up', 'forall(lambda k: out._signal_ratio[k] <= old(si._signal_ratio)[iota(pi(k))], m)'),
                  ('input_spectrum_untouched', 'UNCHANGED(si, old(si), NCH(si))')],
         modifies=['el.*', 'roadm_osnr[*]'])
