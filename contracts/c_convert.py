"""gnpy/tools/yang_convert_utils.py — legacy <-> YANG structure converters are inverse pairs (C18).

Documents are structure-fixed (the shape of the JSON tree is concrete, every leaf value is symbolic): the obligations
hold for all values, the tree shapes are listed per contract."""
from .common import *   # noqa

_MOD = 'gnpy.tools.yang_convert_utils'


def _roadm(**params):
    return dct(uid=string(), type=const('Roadm'), params=dct_k(params))


def _fiber(**params):
    return dct(uid=string(), type=const('Fiber'), type_variety=string(), params=dct_k(params))


# ---------------------------------------------------------------- per-degree equalisation targets
H_DEG = '''
def degree_roundtrip(doc):
    return convert_back_degree(convert_degree(doc))
'''
DOC_DEG = dct(elements=lst(
    _roadm(target_pch_out_db=real(), per_degree_pch_out_db=dct_k({'deg 1': real(), 'deg 2': real()}),
           per_degree_psd_out_mWperGHz=dct_k({'deg 3': real()})),
    _fiber(length=real(), loss_coef=real()),
    _roadm(target_psd_out_mWperGHz=real(), per_degree_psd_out_mWperSlotWidth=dct_k({'deg 4': real()}), per_degree_pch_out_db=dct()),
    dct(uid=string(), type=const('Roadm'))))
contract('harness:degree_roundtrip', harness=H_DEG, module=_MOD, props=['C18', 'C06'], params={'doc': DOC_DEG},
         let={'r0': "result['elements'][0]['params']", 'o0': "old(doc['elements'][0]['params'])",
              'r2': "result['elements'][2]['params']", 'o2': "old(doc['elements'][2]['params'])"},
         ensures=[('mixed_targets_of_one_roadm_restored',
                   "r0['per_degree_pch_out_db']['deg 1'] == o0['per_degree_pch_out_db']['deg 1'] and "
                   "r0['per_degree_pch_out_db']['deg 2'] == o0['per_degree_pch_out_db']['deg 2'] and "
                   "len(r0['per_degree_pch_out_db']) == 2 and "
                   "r0['per_degree_psd_out_mWperGHz']['deg 3'] == o0['per_degree_psd_out_mWperGHz']['deg 3'] and "
                   "len(r0['per_degree_psd_out_mWperGHz']) == 1 and 'per_degree_psd_out_mWperSlotWidth' not in r0"),
                  ('slot_width_targets_restored', "r2['per_degree_psd_out_mWperSlotWidth']['deg 4'] == o2['per_degree_psd_out_mWperSlotWidth']['deg 4'] "
                                                  "and len(r2['per_degree_psd_out_mWperSlotWidth']) == 1"),
                  ('yang_only_key_removed', "'per_degree_power_targets' not in r0 and 'per_degree_power_targets' not in r2"),
                  ('node_targets_untouched', "r0['target_pch_out_db'] == o0['target_pch_out_db'] and "
                                             "r2['target_psd_out_mWperGHz'] == o2['target_psd_out_mWperGHz']"),
                  ('other_elements_untouched', "result['elements'][1]['params']['length'] == old(doc['elements'][1]['params']['length']) and "
                                               "len(result['elements']) == 4 and 'params' not in result['elements'][3]")],
         modifies=["doc['elements'][0]['params'][*]", "doc['elements'][2]['params'][*]"])

contract(_MOD + '.convert_degree', props=['C18', 'C06'], params={'json_data': DOC_DEG}, use_at_calls=False,
         let={'t': "result['elements'][0]['params']['per_degree_power_targets']"},
         # YANG form: one list entry per (degree, equalisation type), carrying the degree name and the target under its type
         ensures=[('one_entry_per_degree', 'len(t) == 3'),
                  ('entries', "t[0]['degree_uid'] == 'deg 1' and t[0]['per_degree_pch_out_db'] == old(json_data['elements'][0]['params']['per_degree_pch_out_db']['deg 1']) and "
                              "t[1]['degree_uid'] == 'deg 2' and t[1]['per_degree_pch_out_db'] == old(json_data['elements'][0]['params']['per_degree_pch_out_db']['deg 2']) and "
                              "t[2]['degree_uid'] == 'deg 3' and t[2]['per_degree_psd_out_mWperGHz'] == old(json_data['elements'][0]['params']['per_degree_psd_out_mWperGHz']['deg 3'])"),
                  ('legacy_keys_removed', "'per_degree_pch_out_db' not in result['elements'][0]['params'] and "
                                          "'per_degree_psd_out_mWperGHz' not in result['elements'][0]['params']"),
                  ('empty_dict_gives_no_list', "'per_degree_pch_out_db' not in result['elements'][2]['params'] and "
                                               "len(result['elements'][2]['params']['per_degree_power_targets']) == 1")],
         modifies=["json_data['elements'][0]['params'][*]", "json_data['elements'][2]['params'][*]"])

# ---------------------------------------------------------------- per-degree design bands
H_BAND = '''
def design_band_roundtrip(doc):
    return convert_back_design_band(convert_design_band(doc))
'''
_BAND = lst(dct(f_min=real(), f_max=real()))
DOC_BAND = dct(elements=lst(_roadm(design_bands=lst(dct(f_min=real(), f_max=real()), dct(f_min=real(), f_max=real())),
                                   per_degree_design_bands=dct_k({'deg 1': _BAND, 'deg 2': _BAND})),
                            _roadm(target_pch_out_db=real())))
contract('harness:design_band_roundtrip', harness=H_BAND, module=_MOD, props=['C18'], params={'doc': DOC_BAND},
         let={'r': "result['elements'][0]['params']", 'o': "old(doc['elements'][0]['params'])"},
         ensures=[('per_degree_bands_restored', "r['per_degree_design_bands']['deg 1'] is o['per_degree_design_bands']['deg 1'] and "
                                                "r['per_degree_design_bands']['deg 2'] is o['per_degree_design_bands']['deg 2'] and "
                                                "len(r['per_degree_design_bands']) == 2 and 'per_degree_design_bands_targets' not in r"),
                  ('node_bands_untouched', "r['design_bands'] is o['design_bands']"),
                  ('nothing_added_elsewhere', "'per_degree_design_bands' not in result['elements'][1]['params']")],
         modifies=["doc['elements'][0]['params'][*]"])

# ---------------------------------------------------------------- per-frequency loss coefficient
H_LOSS = '''
def loss_coef_roundtrip(doc):
    return convert_back_loss_coeff_list(convert_loss_coeff_list(doc))
'''
DOC_LOSS = dct(elements=lst(_fiber(length=real(), loss_coef=dct(value=lst(real(), real(), real()), frequency=lst(real(), real(), real()))),
                            _fiber(length=real(), loss_coef=real())))
contract('harness:loss_coef_roundtrip', harness=H_LOSS, module=_MOD, props=['C18'], params={'doc': DOC_LOSS},
         let={'r': "result['elements'][0]['params']", 'ov': "old(doc['elements'][0]['params']['loss_coef']['value'])",
              'of': "old(doc['elements'][0]['params']['loss_coef']['frequency'])"},
         ensures=[('values_and_frequencies_restored_in_order',
                   "len(r['loss_coef']['value']) == 3 and len(r['loss_coef']['frequency']) == 3 and "
                   "all(r['loss_coef']['value'][k] == ov[k] and r['loss_coef']['frequency'][k] == of[k] for k in range(3))"),
                  ('yang_only_key_removed', "'loss_coef_per_frequency' not in r"),
                  ('scalar_coefficient_untouched', "result['elements'][1]['params']['loss_coef'] == old(doc['elements'][1]['params']['loss_coef'])")],
         modifies=["doc['elements'][0]['params'][*]", "doc['elements'][0]['params']['loss_coef'][*]"])

# ---------------------------------------------------------------- power ranges of every Span / SI entry
H_RANGE = '''
def power_range_roundtrip(doc):
    return convert_back_delta_power_range(convert_delta_power_range(doc))
'''
DOC_RANGE = dct(Span=lst(dct(power_mode=boolean(), delta_power_range_db=lst(real(), real(), real()))),
                SI=lst(dct(type_variety=const('default'), power_range_db=lst(real(), real(), real())),
                       dct(type_variety=const('second band'), power_range_db=lst(real(), real(), real()))))
contract('harness:power_range_roundtrip', harness=H_RANGE, module=_MOD, props=['C18'], params={'doc': DOC_RANGE},
         ensures=[('span_range_restored', "all(result['Span'][0]['delta_power_range_db'][k] == old(doc['Span'][0]['delta_power_range_db'])[k] for k in range(3)) "
                                          "and 'delta_power_range_dict_db' not in result['Span'][0]"),
                  ('every_si_range_restored', "all(all(result['SI'][e]['power_range_db'][k] == old(doc['SI'])[e]['power_range_db'][k] for k in range(3)) "
                                              "and 'power_range_dict_db' not in result['SI'][e] for e in range(2))")],
         modifies=["doc['Span'][0][*]", "doc['SI'][0][*]", "doc['SI'][1][*]"])

# ---------------------------------------------------------------- Raman gain coefficient of a fibre element
H_RAMAN = '''
def raman_coef_roundtrip(doc):
    return convert_back_raman_coef(convert_raman_coef(doc))
'''
DOC_RAMAN = dct(elements=lst(_fiber(length=real(), raman_coefficient=dct(g0=lst(real(), real(), real()),
                                                                         frequency_offset=lst(real(), real(), real()),
                                                                         reference_frequency=real()))))
contract('harness:raman_coef_roundtrip', harness=H_RAMAN, module=_MOD, props=['C18'], params={'doc': DOC_RAMAN},
         let={'r': "result['elements'][0]['params']['raman_coefficient']", 'o': "old(doc['elements'][0]['params']['raman_coefficient'])"},
         ensures=[('profile_restored_in_order', "len(r['g0']) == 3 and len(r['frequency_offset']) == 3 and "
                                                "all(r['g0'][k] == o['g0'][k] and r['frequency_offset'][k] == o['frequency_offset'][k] for k in range(3))"),
                  ('reference_frequency_kept', "r['reference_frequency'] == o['reference_frequency'] and 'g0_per_frequency' not in r")],
         modifies=["doc['elements'][0]['params'][*]", "doc['elements'][0]['params']['raman_coefficient'][*]"])

# ---------------------------------------------------------------- noise-figure polynomial of a library amplifier
H_NF = '''
def nf_coef_roundtrip(doc):
    return convert_back_nf_coef(convert_nf_coef(doc))
'''
DOC_NF = dct(Edfa=lst(dct(type_variety=string(), type_def=const('openroadm'), nf_coef=lst(real(), real(), real(), real())),
                      dct(type_variety=string(), type_def=const('variable_gain'), nf_min=real(), nf_max=real())))
contract('harness:nf_coef_roundtrip', harness=H_NF, module=_MOD, props=['C18'], params={'doc': DOC_NF},
         ensures=[('coefficients_restored_in_order', "len(result['Edfa'][0]['nf_coef']) == 4 and "
                                                     "all(result['Edfa'][0]['nf_coef'][k] == old(doc['Edfa'][0]['nf_coef'])[k] for k in range(4))"),
                  ('other_amplifiers_untouched', "'nf_coef' not in result['Edfa'][1] and result['Edfa'][1]['nf_min'] == old(doc['Edfa'][1]['nf_min'])")],
         modifies=["doc['Edfa'][0][*]"])

# ---------------------------------------------------------------- nulls: None <-> [null] (RFC 7951 'empty')
H_NULL = '''
def null_roundtrip(doc):
    return convert_empty_to_none(convert_none_to_empty(doc))
'''
DOC_NULL = dct(elements=lst(dct(uid=string(), operational=dct(gain_target=real(), delta_p=const(None), out_voa=const(None), tilt_target=real()),
                                metadata=dct(location=dct(city=const(None), region=string(), latitude=real())))),
               extra=lst(const(None), real(), lst(real(), const(None))))
contract('harness:null_roundtrip', harness=H_NULL, module=_MOD, props=['C18'], params={'doc': DOC_NULL},
         let={'op': "result['elements'][0]['operational']"},
         ensures=[('nulls_are_nulls_again', "op['delta_p'] is None and op['out_voa'] is None and "
                                            "result['elements'][0]['metadata']['location']['city'] is None and result['extra'][0] is None and "
                                            "result['extra'][2][1] is None"),
                  ('values_untouched', "op['gain_target'] == old(doc['elements'][0]['operational']['gain_target']) and "
                                       "op['tilt_target'] == old(doc['elements'][0]['operational']['tilt_target']) and "
                                       "result['extra'][1] == old(doc['extra'])[1] and result['extra'][2][0] == old(doc['extra'])[2][0] and "
                                       "len(result['extra']) == 3 and len(result['extra'][2]) == 2")],
         modifies=["doc['elements'][0]['operational'][*]", "doc['elements'][0]['metadata']['location'][*]", "doc['extra'][*]", "doc['extra'][2][*]"])
contract(_MOD + '.convert_none_to_empty', props=['C18'], params={'json_data': DOC_NULL}, use_at_calls=False,
         ensures=[('null_becomes_list_of_null', "len(result['elements'][0]['operational']['delta_p']) == 1 and "
                                                "result['elements'][0]['operational']['delta_p'][0] is None and "
                                                "len(result['extra'][0]) == 1 and result['extra'][0][0] is None")],
         modifies=["json_data['elements'][0]['operational'][*]", "json_data['elements'][0]['metadata']['location'][*]", "json_data['extra'][*]",
                   "json_data['extra'][2][*]"])

# a YANG list keyed by coef_order carries no order of its own: the legacy polynomial is ordered by the key
contract(_MOD + '.convert_back_nf_coef', name=_MOD + '.convert_back_nf_coef[entries not in key order]', props=['C18', 'C04'],
         params={'json_data': dct(Edfa=lst(dct(type_variety=string(), nf_coef=lst(dct(coef_order=const(2), nf_coef=real()),
                                                                                  dct(coef_order=const(0), nf_coef=real()),
                                                                                  dct(coef_order=const(3), nf_coef=real()),
                                                                                  dct(coef_order=const(1), nf_coef=real())))))},
         let={'o': "old(json_data['Edfa'][0]['nf_coef'])", 'r': "result['Edfa'][0]['nf_coef']"},
         ensures=[('coefficients_by_ascending_order_key', "len(r) == 4 and r[0] == o[1]['nf_coef'] and r[1] == o[3]['nf_coef'] and "
                                                          "r[2] == o[0]['nf_coef'] and r[3] == o[2]['nf_coef']")],
         modifies=["json_data['Edfa'][0][*]"], use_at_calls=False)
contract(_MOD + '.convert_back_nf_fit_coef', name=_MOD + '.convert_back_nf_fit_coef[entries not in key order]', props=['C18', 'C04'],
         params={'json_data': dct(nf_fit_coeff=lst(dct(coef_order=const(1), nf_coef=real()), dct(coef_order=const(0), nf_coef=real()),
                                                   dct(coef_order=const(2), nf_coef=real())))},
         let={'o': "old(json_data['nf_fit_coeff'])", 'r': "result['nf_fit_coeff']"},
         ensures=[('coefficients_by_ascending_order_key', "len(r) == 3 and r[0] == o[1]['nf_coef'] and r[1] == o[0]['nf_coef'] and r[2] == o[2]['nf_coef']")],
         modifies=["json_data[*]"], use_at_calls=False)
