"""Property -> what decides it (contracts are tagged with props=[...] in the c_*.py sidecars)."""

NUMPY_TRUST = ['numpy element-wise arithmetic, broadcasting, argsort (a sorting permutation), boolean-mask and '
               'integer-array indexing, append, full/ones/zeros/outer, any/all/sum (assumed contracts, pyvc/models.py)']

NOTES = ('Every check is ./check <id>: contracts in /verif/contracts/c_*.py on the real functions of /repo, verified by '
         'pyvc. Exit 0 held / 1 VIOLATION / 2 undecided (unknown, unsupported construct) / 3 checker error or vacuity. '
         'Bounded stand-ins are listed per evidence file under coverage.bounded and never counted as discharged.')

SPECTRUM_TRUST = ['python list semantics (concatenation, repetition, slicing with clamping and negative wrap, slice '
                  'assignment, index, zip) as encoded in pyvc/slist.py',
                  'Enum members inside symbolic-length lists are represented by integer codes',
                  'sorted() of a list of concrete length with a lambda key: executed symbolically (stable insertion, one path per '
                  'comparison outcome; float(inf) as a value above every integer)']

PROPS = {
    'C01': {
        'level': 'proof',
        'claim': 'Class invariant of SpectralInformation (total power > 0, the three shares in [0,1] and summing to 1, '
                 'hence signal+ASE+NLI = channel power) proved preserved, for all channel counts and values, by every '
                 'mutator of the class, by construction/selection/merge and by ROADM, fused and amplifier propagation; '
                 '1/GSNR = 1/OSNR_ASE + 1/SNR_NLI proved on the figures the receiver reports, also after update_snr.',
        'level_note': 'exact real arithmetic instead of floats; numpy element-wise semantics assumed; NLI <= channel power is a stated '
                      'precondition of add_nli; every accessor of the class (signal / ase / nli in W and dBm, the SNR figures and their '
                      '0.1 nm versions) and the per-channel records of `carriers` are proved to state the share they are named after; a merge of three bands keeps every channel; '
                      'RamanFiber.propagate is proved with the Raman solver opaque',
        'trusted': NUMPY_TRUST,
        'assumptions': ['NLI handed to add_nli lies in [0, channel power] (the property limits itself to launch powers '
                        'where the first-order NLI estimate stays below the channel power)'],
        'extra': [{'name': 'params_load', 'kind': 'bounded', 'script': 'bounded/params_load.py', 'timeout': 900},
                  # the shares after every element of real paths (fibres of either dispersion sign, the three NLI methods, Raman, multi-band)
                  {'name': 'path_monotone', 'kind': 'bounded', 'script': 'bounded/path_monotone.py', 'timeout': 2400}],
    },
    'C04': {
        'level': 'proof',
        'claim': 'Saturation clamp on total input power (after the input VOA), never above p_max and reduced only as needed; '
                 'ASE = h f B NF referred to the input; min/max-NF model laws (non-increasing with gain, dB-for-dB below '
                 'minimum gain, nf_min at max flat gain and nf_max at min gain within the 0.01 dB acceptance of '
                 'estimate_nf_model), OpenROADM ILA / preamp masks over the input power per 50 GHz and the advanced-model '
                 'polynomial, dual-stage Friis composition, band filter: all proved on the real functions.',
        'level_note': '_gain_profile (polyfit + secant step of the DGT model) is an assumed contract (one gain per channel) in '
                      'the proofs; that its profile delivers the effective gain is a bounded stand-in (four shipped amplifier '
                      'models x gains x tilts x input shapes, 0.02 dB); a one-channel spectrum is amplified like any other (F16, fixed); '
                      'that a library entry carries the band / ripples / tilt shape of the configuration file it names, and the order '
                      'of the OpenROADM NF polynomial through the YANG form, are a bounded stand-in and a converter contract',
        'trusted': NUMPY_TRUST + ['Edfa._gain_profile (assumed contract)'],
        'extra': [{'name': 'amp_gain', 'kind': 'bounded', 'script': 'bounded/amp_gain.py', 'timeout': 1200},
                  {'name': 'params_load', 'kind': 'bounded', 'script': 'bounded/params_load.py', 'timeout': 900}],
    },
    'C06': {
        'level': 'proof',
        'claim': 'Roadm.propagate proved for all spectra and all six policy/precedence branches: every channel leaves at '
                 'min(target + offset, input - path loss) with the target of the egress degree if set else of the node '
                 '(constant power, PSD x baud rate, PSW x slot width), never with more power than it entered; PMD/PDL in '
                 'quadrature; shares untouched. The same precedence (degree before node; power, PSD, PSW) is proved for the '
                 'helpers the design uses: get_per_degree_power, get_per_degree_ref_power and get_roadm_target_power on the reference carrier.',
        'level_note': 'get_impairment is an assumed contract in the proof of Roadm.propagate (one value per channel, max loss >= 0): '
                      'that each add / drop / express crossing reads the impairment set of its own type (or the set declared for '
                      'that pair of degrees) is a bounded stand-in on designed meshes; single-policy enforcement is proved for '
                      'RoadmParams.__init__ (a target of 0 is a target) and for the per-degree design loop '
                      '(set_roadm_per_degree_targets); a filled per-degree target cell of a Roadms sheet (0 included) lands on the '
                      'degree facing the neighbour (create_roadm_element); merge_equalization is not under contract',
        'trusted': NUMPY_TRUST + ['Roadm.get_impairment (assumed contract)'],
        'extra': [{'name': 'roadm_paths', 'kind': 'bounded', 'script': 'bounded/roadm_paths.py', 'timeout': 1200}],
    },
    'C07': {
        'level': 'proof',
        'claim': 'Constructor: rejected exactly when neighbouring slots overlap or a baud rate exceeds its slot, all 16 '
                 'per-channel arrays permuted by one sorting permutation; select_channels / demux / __add__: every array '
                 'restricted/merged with ONE common index map, in-band channels all kept, frequency order restored; a merge of '
                 'three bands keeps every channel; a user carrier list gives every channel the figures of the carrier declared '
                 'at its frequency whatever the order of the list.',
        'level_note': 'numpy argsort/mask indexing/append are assumed contracts; filter_si, find_common_range and the '
                      'multi-band amplifier dispatch are not under contract: the clauses "channels outside the common band removed '
                      'once, the others kept once through any mix of single- and multi-band amplifiers" are a bounded stand-in '
                      '(random band sets against an interval-intersection oracle; six amplifier mixes of the shipped multiband '
                      'library with channels placed around every band edge); user-spectrum documents of two partitions (gap / '
                      'touching / overlapping / same carrier) are a bounded stand-in (_spectrum_from_json is not under contract)',
        'trusted': NUMPY_TRUST,
        'extra': [{'name': 'bands', 'kind': 'bounded', 'script': 'bounded/bands.py', 'timeout': 1800}],
    },
    'C13': {
        'level': 'proof',
        'claim': 'Verdict proved on the real request loop body: a fixed-mode request is blocked (MODE_NOT_FEASIBLE) exactly '
                 'when the rounded minimum over channels of GSNR(0.1 nm) - penalties is below required OSNR + margin, on the '
                 'path or (bidirectional) on the reverse path, each evaluated on a deep copy; receiver figures: _calc_snr '
                 'definitions, inverse-sum identity, update_snr adds every contribution once on the RAW figures and never '
                 'writes raw_* or osnr_nli; the impairments the penalty tables are looked up with are those the path accumulated '
                 '(Transceiver._calc_cd / _calc_pmd / _calc_pdl, in the units of the tables); the reverse path of a bidirectional request '
                 '(find_reversed_path) is proved, on paths over one and two OMS, to run from the destination to the source over the paired '
                 'OMS in reverse order of crossing with the shared ROADM once, and to refuse a line without opposite direction.',
        'level_note': 'propagate() is a call-site summary in the verdict contract (its loop is proved per element in C02); '
                      'update_snr proved for up to three contributions; the automatic mode search loop '
                      '(propagate_and_optimize_mode: ordering by baud rate then bit rate, blocking reasons) is not under contract '
                      'but a bounded stand-in against fixed-mode planning of every mode (random synthetic libraries, power offsets drawn '
                      'per baud rate or per mode; two deterministic families: modes of one baud rate with different offsets, a '
                      'saturating mode explored first - known finding F58); penalty tables / out-of-table blocking / successive-mode histories, '
                      'the planner\'s fixed-mode verdict with penalty tables end to end, and which add / drop impairment set a '
                      'crossing counts, are bounded stand-ins',
        'trusted': NUMPY_TRUST + ['numpy.argmin (an index attaining the minimum)', 'propagate call-site summary',
                                  'find_reversed_path is a ghost at its call site in the verdict contract (the function itself is proved on two path shapes)'],
        'extra': [{'name': 'penalties', 'kind': 'bounded', 'script': 'bounded/penalties.py'},
                  {'name': 'mode_search', 'kind': 'bounded', 'script': 'bounded/mode_search.py', 'timeout': 2400},
                  # which add / drop impairment set (and so which add/drop OSNR) a crossing counts
                  {'name': 'roadm_paths', 'kind': 'bounded', 'script': 'bounded/roadm_paths.py', 'timeout': 1200}],
    },
    'C14': {
        'level': 'proof',
        'claim': 'Slot assignment chain proved on the real functions for maps of any size and content: assign_spectrum '
                 'marks exactly [N-M, N+M-1]; bitmap_sum/aggregate give FREE iff FREE on every OMS of the path and never '
                 'alias a real map; determine_slot_numbers (loop invariant) and spectrum_selection return only free '
                 'windows inside the guard bands, first fit returns the lowest feasible one; compute_n_m changes no real '
                 'map; pth_assign_spectrum: accepted => range was free on every path OMS and occupancy = old + range, '
                 'user-fixed N/M verbatim, enough slots; blocked => no labels, no spectrum change. The same chain is proved under '
                 'the last-fit policy (highest feasible window). order_slots / restore_order proved for one- and two-entry requests '
                 '(permutation, widest first, restore inverts order); slot <-> (N, M) <-> frequency helpers are mutually inverse; '
                 'compute_spectrum_slot_vs_bandwidth gives enough whole slots per channel. compute_n_m with two fully user-fixed (N, M) entries: '
                 'both used verbatim and disjoint, or the request is left unserved; through pth_assign_spectrum: accepted => both ranges were '
                 'free and occupancy = old + both ranges, blocked => no label and no spectrum change; one fixed and one free entry: the '
                 'fixed one verbatim or nothing served, the free one takes exactly what is left on slots that were free, inside the guard bands. '
                 'build_path_oms_id_list returns exactly the OMS of the line elements of the path; OMS.add_service accumulates.',
        'level_note': 'structure bounds of the compute_n_m / pth_assign_spectrum contracts: one request with one (N, M) '
                      'entry over a two-OMS list (path over one or both); map sizes, extents and contents unbounded. '
                      'The history clause (occupancy = union of accepted ranges, pairwise disjoint) follows by induction '
                      'from the per-call contract (DESIGN 4, C14) and is not a separate machine-checked lemma. A user-fixed '
                      'N outside the map finds nothing available (proved; it used to raise ValueError: F45, fixed). Requests with several (N, M) entries, fixed, free '
                      'or mixed (other than two fully fixed entries, or one fixed and one free entry, over one OMS, which are proved - except that the '
                      'free window avoids the fixed range, which pyvc leaves undecided), are outside the contracts and checked by a bounded stand-in from the service document to the '
                      'assignment (used as given, or refused / blocked; no exception, no planner that does not return); histories of services over '
                      'lines without amplifier (fused-only patches, passive lines) are a bounded stand-in; the upper guard band is one slot '
                      'short (known finding F43); order_slots / restore_order on requests of more than two entries: bounded stand-in '
                      '(the call sites of compute_n_m use the proved one-entry contract, whose precondition len == 1 is an obligation there)',
        'trusted': SPECTRUM_TRUST,
        'extra': [{'name': 'order_slots', 'kind': 'bounded', 'script': 'bounded/order_slots.py'},
                  # service documents with N / M fixed, free or mixed in several entries, loaded and planned end to end
                  {'name': 'nm_requests', 'kind': 'bounded', 'script': 'bounded/nm_requests.py', 'timeout': 2400},
                  # histories of services over lines without amplifier (fused-only patches, passive lines): no shared slot on a shared
                  # link, per-OMS occupancy = union of the services crossing it in either direction
                  {'name': 'spectrum_sharing', 'kind': 'bounded', 'script': 'bounded/spectrum_sharing.py', 'timeout': 2400}],
    },
    'C15': {
        'level': 'proof',
        'claim': 'frequency<->slot index maps, Bitmap construction, insert_left/right, the align_grids loop body for an '
                 'arbitrary map (any number of maps) and create_oms_bitmap (1-3 common bands) proved for all extents: '
                 'every map covers n(f_min)..n(f_max), usable exactly inside the common bands, indices unique and '
                 'consecutive, old occupancy kept at its index; nvalue_to_frequency (G.694.1 rule), slots_to_m / mvalue_to_slots / '
                 'm_to_freq and Bitmap.getn / geti are proved mutually inverse; OMS.add_element / update_spectrum keep the element order and '
                 'start from a well-formed all-free map.',
        'level_note': 'the OMS partition of the graph (build_oms_list walk) is a bounded stand-in on '
                      'designed topologies <= 4 ROADM sites + the shipped multiband example; reversed_oms is proved for three OMS '
                      'with arbitrary end names (first opposite direction, unpaired recorded as None); '
                      'find_elements_common_range is a ghost parameter here; lines must run from ROADM to ROADM',
        'trusted': SPECTRUM_TRUST[:2],
        'extra': [{'name': 'oms_partition', 'kind': 'bounded', 'script': 'bounded/oms_partition.py', 'timeout': 1200}],
    },
    'C08': {
        'level': 'proof',
        'claim': 'Proved on the real functions: calculate_new_length (n >= 1, n x span = original length, no span above the '
                 'maximum, short fibres untouched); the loop bodies of add_connector_loss (losses set, EOL once, not before a '
                 'fused junction) and add_fiber_padding (span loss >= padding, padded only as needed, cached design loss = '
                 'actual loss); set_amplifier_voa / set_one_amplifier (model from the library, gain, VOAs and power target '
                 'set); per-degree ROADM targets populated with exactly one policy.',
        'level_note': 'graph-level claims (one-in/one-out chains, unique names, reachability, every junction amplified, equal '
                      'split of long fibres) are a bounded stand-in: real designed_network on topologies <= 4 ROADM sites (Span max_length '
                      '60 / 100 / 150 km, C+L multi-band ROADMs given or by default, spliced short spans, splices in front of an amplifier, '
                      'fibres with per-frequency tables and lumped losses through the split, a Raman span with default connectors); a Raman '
                      'span behind an amplifier without delta_p cannot be designed (known finding F24), a RamanFiber without con_out '
                      'cannot be loaded (known finding F40); Fiber.loss is proved to be the loss budget (scalar loss coefficient); '
                      'span_loss / get_next_node / find_first_node are ghost parameters (networkx assumed)',
        'trusted': ['networkx DiGraph accessors (ghost successors/first node of a span)'],
        'extra': [{'name': 'design_complete', 'kind': 'bounded', 'script': 'bounded/design_complete.py', 'timeout': 1500}],
    },
    'C09': {
        'level': 'proof',
        'claim': 'Proved for all parameter values: target_power (0 before a ROADM, else slope x (loss - ref) rounded to the '
                 'step and clamped to the range); round2float within half a step; compute_gain_power_and_tilt_target '
                 '(gain = loss since the previous amplifier + change of target + VOA terms; operator offset/gain kept); '
                 'set_one_amplifier with an operator-chosen model (reduction exactly as needed against p_max in power and '
                 'gain mode, hand-over to the next amplifier = power after the VOA); set_amplifier_voa compensation.',
        'level_note': 'the per-band line-head initialisation of set_egress_amplifier (transmitter launch power or the degree\'s ROADM target) is proved; the rest of the OMS walk is checked bounded on designed small topologies (gain = loss + '
                      'change of target along every OMS); the Raman gain estimate is proved to probe the fibre behind padding and input connector; "propagating the design load reproduces the powers" depends on '
                      'the gain-profile normalisation (C04, not proved) and is not claimed; span_loss is a ghost',
        'trusted': ['span_loss (graph walk) as a ghost function of (network, node)'],
        'extra': [{'name': 'design_power_budget', 'kind': 'bounded', 'script': 'bounded/design_complete.py', 'args': ['--powers'],
                   'timeout': 1500}],
    },
    'C10': {
        'level': 'proof',
        'claim': 'select_edfa proved on arbitrary three-model libraries (values unbounded): chosen is permitted, Raman only '
                 'if allowed, and if any permitted model can deliver gain and power the chosen one can and none capable is '
                 'quieter; get_node_restrictions precedence (own list, previous ROADM booster list, next ROADM preamp list, '
                 'allowed_for_design) with band coverage; Raman models only after a fibre whose loss coefficient is below '
                 'the limit at every frequency.',
        'level_note': 'library size fixed to three models in the select_edfa contract; edfa_nf is an assumed pure function '
                      '(NF models are C04); capability uses the strict inequalities of the code; the loop body of the multiband '
                      'preselection is proved to rate every band against that band\'s own gain / power / tilt targets and the library\'s '
                      'extended-gain allowance (the rating function opaque) and never to widen the permitted set; the band loop of a '
                      'multi-band amplifier is proved to offer each band the amplifiers that cover it and complete a type compatible with '
                      'the bands already chosen (nine structure-fixed variants, the selection opaque); whole multi-band designs on '
                      'synthetic libraries of types sharing band amplifiers are a bounded stand-in; dual-stage entries take the output stage\'s p_max',
        'trusted': ['edfa_nf as a pure function of (gain, model)'],
        'extra': [{'name': 'amp_selection', 'kind': 'bounded', 'script': 'bounded/amp_selection.py', 'timeout': 1800}],
    },
    'C02': {
        'level': 'proof',
        'claim': 'One arbitrary iteration of the path loop of request.propagate proved per element class: ROADM and fused '
                 'leave the three shares exactly unchanged (frame); a fibre keeps OSNR_ASE and can only lower SNR_NLI; an '
                 'amplifier keeps SNR_NLI of every surviving channel and can only lower OSNR_ASE; GSNR never increases; '
                 'the invariant of C01 is carried through (induction over the path = the loop-invariant step).',
        'level_note': 'RamanFiber (numerical ASE integral), Multiband_amplifier and Transceiver calls are covered by the '
                      'bounded stand-in only (real propagate with run-time wrappers on designed networks incl. the shipped '
                      'Raman and multiband examples); NLI >= 0 comes from C03, NLI <= channel power is the stated assumption',
        'trusted': NUMPY_TRUST + ['NliSolver.compute_nli call-site summary (NLI in [0, channel power])',
                                  'Roadm.get_impairment, Edfa._gain_profile (assumed contracts)'],
        'extra': [{'name': 'path_monotone', 'kind': 'bounded', 'script': 'bounded/path_monotone.py', 'timeout': 1500}],
    },
    'C03': {
        'level': 'proof',
        'claim': 'The analytic GN model proved equal to the published closed form for every comb and fibre: _psi is the '
                 'asinh kernel per (cut, pump) pair with the pump effective/asymptotic length, _gn_analytic is gamma^2 x '
                 '(16/27 | 32/27) x psi / B_pump^2, compute_nli is the sum over pumps of P_cut P_pump^2 eta (finite-sum '
                 'congruence by witness); every pair term and the total are non-negative; the default weights must be the '
                 'published ones.',
        'level_note': 'stated assumptions: loss coefficient > 0 (scalar), mean dispersion of every channel pair non-zero, '
                      'gamma >= 0; beta2 is proved from the fibre\'s dispersion and slope (scalar dispersion), gamma and alpha are pure per-channel vectors at call sites (alpha proved for a scalar loss coefficient); a user carrier list gives each channel its own carrier\'s figures; that FiberParams hands over the document\'s dispersion, slope, effective area / gamma and loss table is a bounded stand-in. Cube law and monotonicity in the pump '
                      'powers were attempted as two-run harnesses and stay undecided by the solvers: not claimed. Order '
                      'independence follows from the constructor contract of C07 (arrays sorted by one permutation).',
        'trusted': NUMPY_TRUST + ['arcsinh as an uninterpreted increasing odd function; PI, 10 log10(e) as bounded constants'],
        'extra': [{'name': 'params_load', 'kind': 'bounded', 'script': 'bounded/params_load.py', 'timeout': 900}],
    },
    'C05': {
        'level': 'proof',
        'claim': 'Fiber.propagate with the Raman computation off attenuates every channel by exactly att_in + con_in + '
                 'loss_coef x length + lumped losses + con_out (dB) = Fiber.loss; CD and latency add, PMD adds in quadrature, '
                 'PDL untouched; the attenuation profile equals exp(-alpha L) x lumped losses with alpha = loss_coef / '
                 '(10 log10 e); the accumulated dispersion of a span is D(f) x length with D from beta2 / beta3, beta2 from the '
                 'fibre\'s dispersion and slope; RamanFiber.propagate applies padding + input connector before and the output '
                 'connector after the Raman solver\'s profile and adds its ASE once; ROADM and amplifier PMD/PDL in quadrature '
                 '(C06/C04 contracts); the receiver reads off exactly what the path accumulated (Transceiver._calc_cd / _calc_pmd / '
                 '_calc_pdl / _calc_latency: ps/nm, ps, dB, ms).',
        'level_note': 'scalar loss coefficient and scalar dispersion in the propagation proofs; a per-frequency loss table is proved to be '
                      'read at the frequencies asked for (the interpolation itself is scipy\'s, an assumed pure function; tables listed in '
                      'any order are a bounded stand-in); _create_lumped_losses + cumprod is an assumed contract checked bounded (it fails for two lumped '
                      'losses at one position: known finding F7). The Raman-on clauses (low-power limit, perturbative vs numerical, '
                      'pumps only add gain, lumped losses once) are statements about numerical ODE solvers: the solver calls are '
                      'opaque in the RamanFiber proof and those clauses are a bounded stand-in (6 channels, span lengths off the '
                      'solver grid, orders 1-3, three steps, stated tolerances), not proved.',
        'trusted': NUMPY_TRUST + ['exp/log/db2lin axioms (ground instances)', 'RamanSolver._create_lumped_losses + numpy.cumprod',
                                  'RamanSolver.calculate_stimulated/spontaneous_raman_scattering (opaque in RamanFiber.propagate)',
                                  'Fiber.beta3, Fiber.gamma (assumed pure per-channel coefficients)'],
        'extra': [{'name': 'lumped_losses', 'kind': 'bounded', 'script': 'bounded/lumped_losses.py'},
                  {'name': 'raman', 'kind': 'bounded', 'script': 'bounded/raman.py', 'timeout': 1800},
                  {'name': 'params_load', 'kind': 'bounded', 'script': 'bounded/params_load.py', 'timeout': 900}],
    },
    'C11': {
        'level': 'other',
        'claim': 'compute_constrained_path proved against its route contract on five structure-fixed scenarios (symbolic node '
                 'identities, three candidate routes ordered by weight as networkx is assumed to deliver them): end points, '
                 'include nodes crossed in order, first (= lightest) matching candidate, STRICT unsatisfiable -> blocked with '
                 'NO_PATH_WITH_CONSTRAINT, only-LOOSE unsatisfiable -> unconstrained shortest path, explicit-path shortcut must '
                 'respect the whole include list; ispart = order-preserving sub-sequence. Everything else of the statement '
                 '(real graph search, minimal fibre length against an independent all-simple-paths oracle, route list clean-up, '
                 'reverse paths) is a bounded stand-in on small designed meshes. is_adjacent (used by explicit_path) is true exactly when the first line ends at the object the second starts with.',
        'level_note': 'NOT an unbounded proof: the deductive obligations quantify over all node identities/request ids but over a '
                      'fixed candidate-list shape (3 candidates, include lists of length <= 2); networkx shortest_simple_paths / '
                      'dijkstra_path / all_simple_paths are assumed contracts; optimality and correct_json_route_list are only '
                      'checked bounded (topologies line3, ring3, star4, ring4, mesh4[, full4]; include lists up to 3 hops, every '
                      'STRICT/LOOSE mix)',
        'trusted': ['networkx.shortest_simple_paths (assumed: all simple paths by non-decreasing weight)',
                    'networkx.dijkstra_path (assumed: first of those)', 'explicit_path call-site summary'],
        'extra': [{'name': 'routing', 'kind': 'bounded', 'script': 'bounded/routing.py', 'timeout': 1500},
                  # route lists of requests that sit in a synchronisation group (handled by compute_path_dsjctn, not by the
                  # constrained-path function): STRICT hops honoured or the computation refused
                  {'name': 'disjunction', 'kind': 'bounded', 'script': 'bounded/disjunction.py', 'timeout': 1500}],
    },
    'C12': {
        'level': 'other',
        'claim': 'isdisjoint proved to return 0 exactly when two three-node paths have no common directed link (symbolic node '
                 'identities; result in {0,1}); deduplicate_disjunctions keeps a repeated synchronisation vector once and different ones all; '
                 'the statement itself - synchronised requests never share a ROADM-to-ROADM link '
                 'in either direction, DisjunctionError otherwise, pair completeness - is decided only by a bounded stand-in '
                 'running the real compute_path_dsjctn on small designed meshes against an independent oracle.',
        'level_note': 'NOT an unbounded proof: compute_path_dsjctn (250 lines of nested candidate pruning over id()-keyed dicts) '
                      'is outside the reach of the contract engine; bounded: topologies ring3, ring4, mesh4, house5[, full4], '
                      'pairs over 6x8 ordered site pairs with brute-force completeness, triples, overlapping groups, identical '
                      'requests aggregated inside several groups, pairs whose first request carries a route list of 1 - 3 hops (every '
                      'STRICT / LOOSE mix, unknown names, hops inside a line) against an element-level brute-force search',
        'trusted': [],
        'extra': [{'name': 'disjunction', 'kind': 'bounded', 'script': 'bounded/disjunction.py', 'timeout': 1500}],
    },
    'C16': {
        'level': 'other',
        'claim': 'Proved on the real code: the request loop body of compute_path_with_disjunction (fixed mode; one and both '
                 'directions) propagates on deep copies - the receivers it writes are not the network\'s - and its frame is '
                 'the request\'s blocking_reason plus the three result lists; compare_reqs (no disjunction) answers True exactly '
                 'when every deciding field (end points, transponder, mode, route constraints, spacing, powers, channel count, '
                 'band, bidir) is equal, so only identical requests are merged. The statement as a whole (same figures alone / '
                 'first / last / after saturating, blocked or failing requests; designed settings unchanged) is a bounded '
                 'stand-in through the real planning() pipeline.',
        'level_note': 'NOT an unbounded proof of batch independence: element propagation is behind the propagate() call-site '
                      'summary; the automatic-mode branch and spectrum assignment are not under contract here; bounded: ring3, '
                      'mesh4[, ring4, full4] with in-line amplifiers, 11 request kinds, all orders of three triples, mixed and '
                      'random batches, every element setting compared before/after',
        'trusted': ['propagate call-site summary', 'find_reversed_path ghost summary', 'copy.deepcopy (fresh object graph)'],
        'extra': [{'name': 'batch', 'kind': 'bounded', 'script': 'bounded/batch.py', 'timeout': 1500}],
    },
    'C17': {
        'level': 'other',
        'claim': 'Proved on the real code: every element export (Edfa, Fiber, Fused, Roadm, Transceiver .to_json) states the '
                 'element\'s own settings - gain to 1e-6 dB, tilt to 1e-5 dB, length to 1 mm, loss coefficient to 1e-6 dB/km, '
                 'delta_p, VOAs, connector and lumped losses, equalisation policy and per-degree targets verbatim; '
                 'estimate_raman_gain puts back every field of the process-wide NLI and Raman parameters it overrides, and '
                 'NLIParams/RamanParams rebuilt from their to_json are field-for-field equal; the amplifier design step keeps '
                 'user/previous operational values (set_one_amplifier contracts shared with C09). The round trip itself '
                 '(export -> reload -> redesign is a fixed point, same input twice gives the same output, propagation '
                 'results reproduced) is a bounded stand-in through the real designed_network / network_to_json / '
                 'network_from_json.',
        'level_note': 'NOT an unbounded proof of the fixed point: network_from_json (loader) and build_network as a whole are not '
                      'under contract; per-frequency loss coefficients and RamanFiber exports are not under contract (Multiband_amplifier '
                      'and the ROADM design bands are); "the same input twice" is also checked across interpreter runs with different '
                      'string-hash seeds; '
                      'estimate_raman_gain is proved with its two physics callees opaque (assumed not to write SimParams) and '
                      'only for normal return - an exception inside the Raman solver leaves the temporary settings in place; '
                      'bounded: line2, ring3, star4[, line3, mesh4] x spans x junctions x power/gain mode x out_voa_auto, per-degree '
                      'targets, user gain / delta_p, RamanFiber under four SimParams settings, 2-3 rounds, tolerance 2e-6',
        'trusted': ['create_input_spectral_information call-site summary', 'RamanSolver.calculate_stimulated_raman_scattering '
                    '(opaque in estimate_raman_gain)', 'namedtuple._asdict', 'str.lower (uninterpreted; stored methods are its '
                    'fixed points)', 'builtin round (exact decimal rounding)'],
        'extra': [{'name': 'redesign', 'kind': 'bounded', 'script': 'bounded/redesign.py', 'timeout': 2400},
                  # 'designing the same input twice gives identical output', across interpreter runs (string-hash seeds)
                  {'name': 'design_repeatable', 'kind': 'bounded', 'script': 'bounded/design_repeatable.py', 'timeout': 1800}],
    },
    'C18': {
        'level': 'other',
        'claim': 'Proved on the real converters, for all leaf values of structure-fixed documents: the legacy->YANG and '
                 'YANG->legacy structure converters are inverse pairs - per-degree equalisation targets (three kinds mixed on one '
                 'ROADM, empty dictionaries), per-degree design bands, per-frequency loss coefficients, Span/SI power ranges of '
                 'every entry, Raman gain profile, noise-figure polynomial, None <-> [null]; convert_degree emits one list entry '
                 'per (degree, kind). The statement as a whole (idempotence, values to their declared fraction digits, same '
                 'library / network / requests loaded from either form, multi-name entries) is a bounded stand-in over the '
                 'shipped documents and synthetic documents exercising every feature, through the real legacy_to_yang / '
                 'yang_to_legacy (with libyang validation) and the real loaders.',
        'level_note': 'NOT an unbounded proof: document trees have a fixed shape in each contract (list lengths <= 4, key sets '
                      'listed in contracts/c_convert.py); decimal formatting (PrettyFloat / convert_dict / convert_back: string '
                      'formatting and parsing of floats) and _equipment_from_json (other_name expansion) are outside the contract '
                      'engine and only checked bounded; edfa-config and API documents are not in the statement and not checked',
        'trusted': ['python dict/list semantics (insertion order, pop, zip, enumerate, sorted on concrete integer keys)',
                    'oopt_gnpy_libyang validation (used as is by the bounded stand-in)'],
        'extra': [{'name': 'yang_roundtrip', 'kind': 'bounded', 'script': 'bounded/yang_roundtrip.py', 'timeout': 2400}],
    },
    'C19': {
        'level': 'other',
        'claim': 'Proved on the real code: ResultElement.path_properties reports, per direction, the eleven metrics of that '
                 'direction\'s own receiver (means, min and max of GSNR/OSNR rounded to 0.01 dB, the three penalties, reference '
                 'power, bandwidth); detailed_path_json lists the route hop by hop with consecutive indices, the assigned N/M '
                 'labels after every hop and the transponder type and mode after each transceiver, and emits no label for a '
                 'blocked request (labels left on a blocked request raise ServiceError); pathresult puts the id and, for the '
                 'seven blocking reasons, the reason - without path properties for the no-path family, with an unlabelled route '
                 'otherwise; get_penalty_from_receiver; requests_aggregation (two requests, no disjunction) merges exactly '
                 'identical requests with a mode and sums bandwidth and slot lists. The statement over whole batches and the '
                 'CSV export are a bounded stand-in through the real planning() / results_to_json / jsontocsv.',
        'level_note': 'NOT an unbounded proof: paths have three elements and slot lists length two in the contracts (all values '
                      'symbolic); the joined id of an aggregated request, the infinite-penalty text and jsontocsv (csv writer, '
                      'string formatting) are only checked bounded; bounded: ring3, mesh4[, ring4, full4] + ring3 with the '
                      'OpenROADM v5 library (penalties), 16 request kinds in 10 batches, every figure compared with the receivers '
                      'and with the same request planned alone',
        'trusted': NUMPY_TRUST + ['builtin round / min / max', 'numpy.mean = sum / n'],
        'extra': [{'name': 'response', 'kind': 'bounded', 'script': 'bounded/response.py', 'timeout': 2400}],
    },
    'C20': {
        'level': 'other',
        'claim': 'Proved on the real code, for all cell values: a Links row gives each direction its own cells, a blank west '
                 'cell takes the east value (the default when east is blank too) and a filled west cell - zero included - is '
                 'kept (Link.update_attr, per column pair and with every cell filled); an Eqpt row keeps east and west apart '
                 '(a blank west cell is blank, not a copy of east); a Service row becomes a request between "trx <site>" end '
                 'points with spacing GHz -> Hz, power dBm -> W, bandwidth Gbit/s -> bit/s, integer channel count, LOOSE only '
                 'when the cell is blank or yes, unknown transceiver or mode rejected with ServiceError (Request.update_attr, '
                 'Request_element.__init__); pathrequest / pathsync state those values, the route list in sheet order with its '
                 'strictness and one synchronisation vector [own id] + listed ids. Whole workbooks (sites, fibres, wiring, '
                 'amplifier placement, per-degree powers, rejection of malformed sheets, name correction of route lists) are a '
                 'bounded stand-in on generated .xlsx workbooks through the real xls_to_json_data / load_network / load_requests.',
        'level_note': 'NOT an unbounded proof of the conversion: xls_to_json_data, sanity_check, the element / connection builders '
                      'and correct_xls_route_list are outside the contract engine (string-keyed graphs of arbitrary size) and only '
                      'checked bounded; route lists and disjoint-from lists are fixed texts in the contracts (str.split on a '
                      'symbolic cell is not modelled); .xls files are only read from the shipped examples (no writer installed); '
                      'bounded: 7 topologies x 5 Links variants x 6 Eqpt/Roadms variants, 18 malformed workbooks, 12+ service rows, FUSED sites of '
                      'wrong degree, route lists through amplifier sites declared fused',
        'trusted': ['xls_utils.correct_cell_int_to_str on numeric cells (text and empty cells are proved)', 'str.split on constant texts',
                    'openpyxl / xlrd readers (used as they are by the bounded stand-in)'],
        'extra': [{'name': 'workbook', 'kind': 'bounded', 'script': 'bounded/workbook.py', 'timeout': 2400}],
    },
}
