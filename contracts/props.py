"""Property -> what decides it (contracts are tagged with props=[...] in the c_*.py sidecars)."""

NUMPY_TRUST = ['numpy element-wise arithmetic, broadcasting, argsort (a sorting permutation), boolean-mask and '
               'integer-array indexing, append, full/ones/zeros/outer, any/all/sum (assumed contracts, pyvc/models.py)']

NOTES = ('Every check is ./check <id>: contracts in /verif/contracts/c_*.py on the real functions of /repo, verified by '
         'pyvc. Exit 0 held / 1 VIOLATION / 2 undecided (unknown, unsupported construct) / 3 checker error or vacuity. '
         'Bounded stand-ins are listed per evidence file under coverage.bounded and never counted as discharged.')

PROPS = {
    'C01': {
        'level': 'proof',
        'claim': 'Class invariant of SpectralInformation (total power > 0, the three shares in [0,1] and summing to 1, '
                 'hence signal+ASE+NLI = channel power) proved preserved, for all channel counts and values, by every '
                 'mutator of the class and by construction/selection/merge; 1/GSNR identity proved on the derived figures.',
        'level_note': 'exact real arithmetic instead of floats; numpy element-wise semantics assumed; NLI <= channel power '
                      'is a stated precondition of add_nli',
        'trusted': NUMPY_TRUST,
        'assumptions': ['NLI handed to add_nli lies in [0, channel power] (the property limits itself to launch powers '
                        'where the first-order NLI estimate stays below the channel power)'],
        'extra': [],
    },
    'C07': {
        'level': 'proof',
        'claim': 'under construction',
        'level_note': 'under construction',
        'trusted': NUMPY_TRUST,
        'not_applicable': 'check under construction in this commit',
    },
    'C06': {'level': 'proof', 'claim': 'uc', 'level_note': 'uc', 'trusted': NUMPY_TRUST, 'not_applicable': 'under construction'},
    'C02': {'level': 'proof', 'claim': 'uc', 'level_note': 'uc', 'trusted': NUMPY_TRUST, 'not_applicable': 'under construction'},
    'C05': {'level': 'proof', 'claim': 'uc', 'level_note': 'uc', 'trusted': NUMPY_TRUST, 'not_applicable': 'under construction'},
    'C13': {'level': 'proof', 'claim': 'uc', 'level_note': 'uc', 'trusted': NUMPY_TRUST, 'not_applicable': 'under construction'},
    'C04': {'level': 'proof', 'claim': 'uc', 'level_note': 'uc', 'trusted': NUMPY_TRUST, 'not_applicable': 'under construction'},
    'C15': {'level': 'proof', 'claim': 'uc', 'level_note': 'uc', 'trusted': [], 'not_applicable': 'under construction'},
    'C14': {'level': 'proof', 'claim': 'uc', 'level_note': 'uc', 'trusted': [], 'not_applicable': 'under construction'},
}
